"""C07: Wire.tla -- schema-as-data + one generic decoder.  Design level: exhaustive check of the scaled grammar
(one encoding per value; with the non-strict VLQ decoder TLC produces the counterexample).  Code level: byte strings
generated *from the grammar* (non-minimal length prefixes, altered tags, counts, truncation, trailing data) and
generated values are fed to the real codecs; TraceWire judges every call."""
import io
import random

from harness import tlc, sk, tracecheck, indep, netmsg, wiregen
from harness.common import Check, seed, machinery_failure


def classes():
    import skepticoin.datatypes as dt
    import skepticoin.signing as sg
    import skepticoin.networking.messages as M
    return {"OutputReference": dt.OutputReference, "Signature": sg.Signature, "PublicKey": sg.PublicKey,
            "Input": dt.Input, "Output": dt.Output, "Transaction": dt.Transaction, "BlockSummary": dt.BlockSummary,
            "PowEvidence": dt.PowEvidence, "BlockHeader": dt.BlockHeader, "Block": dt.Block,
            "MessageHeader": M.MessageHeader, "Message": M.Message}


def canon(obj):
    """Independent canonical encoding of a consensus object (by its fields)."""
    n = type(obj).__name__
    if n == "OutputReference":
        return indep.enc_ref(obj)
    if n in ("SignableEquivalent", "CoinbaseData", "SECP256k1Signature"):
        return indep.enc_sig(obj)
    if n == "SECP256k1PublicKey":
        return indep.enc_pubkey(obj)
    if n == "Input":
        return indep.enc_input(obj)
    if n == "Output":
        return indep.enc_output(obj)
    if n == "Transaction":
        return indep.enc_tx(obj)
    if n == "BlockSummary":
        return indep.enc_summary(obj)
    if n == "PowEvidence":
        return indep.enc_evidence(obj)
    if n == "BlockHeader":
        return indep.enc_header(obj)
    if n == "Block":
        return indep.enc_block(obj)
    return None


def dump(obj):
    """Field-by-field comparable form of any codec object (does not use the classes' __eq__)."""
    c = canon(obj)
    if c is not None:
        return ("consensus", type(obj).__name__, c)
    if isinstance(obj, (bytes, int, str, bool)) or obj is None:
        return obj
    if isinstance(obj, (list, tuple)):
        return [dump(x) for x in obj]
    if type(obj).__name__ == "IPv6Address":
        return ("ip", obj.packed)
    d = {k: dump(v) for k, v in sorted(vars(obj).items()) if k not in ("block_requested", "cached_hash")}
    return (type(obj).__name__, d)


def ids_ok(obj):
    """Does every id the node assigns equal double SHA-256 of the canonical encoding (header for blocks)?"""
    n = type(obj).__name__
    try:
        if n == "Transaction":
            if obj.hash() != indep.sha256d(indep.enc_tx(obj)):
                return False
            # objects the node derives from this one (the thing that is signed; a re-signed copy) get their own ids
            se = obj.signable_equivalent()
            if se.hash() != indep.sha256d(indep.enc_tx(se)) or se.hash() != indep.sha256d(se.serialize()):
                return False
            return True
        if n == "Block":
            return obj.hash() == indep.sha256d(indep.enc_header(obj.header)) and obj.header.hash() == obj.hash() \
                and all(ids_ok(t) for t in obj.transactions)
        if n == "BlockHeader":
            return obj.hash() == indep.sha256d(indep.enc_header(obj))
        if n == "BlockSummary":
            return obj.hash() == indep.sha256d(indep.enc_summary(obj))
        if n == "DataMessage":
            return ids_ok(obj.data)
    except Exception:
        return False
    return True


def real_decode(t, b, CLS):
    """(decoded?, consumed, object)"""
    f = io.BytesIO(b)
    try:
        if t == "VlqOnly":
            from skepticoin.serialization import stream_deserialize_vlq
            v = stream_deserialize_vlq(f)
            if v >= (1 << 28):
                return None            # outside the model's range
            return True, f.tell(), v
        if t == "Frame":
            h = CLS["MessageHeader"].stream_deserialize(f)
            m = CLS["Message"].stream_deserialize(f)
            return True, f.tell(), (h, m)
        o = CLS[t].stream_deserialize(f)
        return True, f.tell(), o
    except Exception:
        return False, 0, None


def real_encode(t, obj):
    if t == "VlqOnly":
        from skepticoin.serialization import stream_serialize_vlq
        f = io.BytesIO()
        stream_serialize_vlq(f, obj)
        return f.getvalue()
    if t == "Frame":
        return obj[0].serialize() + obj[1].serialize()
    return obj.serialize()


def event(t, b, kind, CLS, original=None, name=""):
    rd = real_decode(t, b, CLS)
    if rd is None:
        return None
    dec, consumed, obj = rd
    e = {"t": t, "b": list(b), "kind": kind, "dec": dec, "consumed": consumed, "reenc_equal": False, "id_equal": True,
         "roundtrip": True, "name": name, "same_enc": True}
    if dec and t not in ("VlqOnly", "Frame"):
        # one accepted encoding per value: the bytes this decoder call accounts for, against the first byte string that gave the same value
        import hashlib
        try:
            vk = (t, hashlib.sha256(repr(dump(obj)).encode()).hexdigest())
            first = _ENC_OF_VALUE.setdefault(vk, bytes(b[:consumed]))
            e["same_enc"] = first == bytes(b[:consumed])
        except Exception:
            pass
    if dec:
        try:
            e["reenc_equal"] = real_encode(t, obj) == b[:consumed]
        except Exception:
            e["reenc_equal"] = False
        if t == "Frame":
            e["id_equal"] = ids_ok(obj[1])
        elif t != "VlqOnly":
            e["id_equal"] = ids_ok(obj)
        if original is not None:
            e["roundtrip"] = (dump(obj) == dump(original)) if t != "Frame" else (dump(list(obj)) == dump(list(original)))
    elif original is not None:
        e["roundtrip"] = False
    return e


_ENC_OF_VALUE = {}


def values(rng, quick):
    """(type, object) pairs covering every serializable type."""
    import skepticoin.datatypes as dt
    import skepticoin.signing as sg
    import skepticoin.networking.messages as M
    from skepticoin.genesis import genesis_block_data
    import os
    vals = []
    cfg = sk.Cfg(period=1000, timespan=4, initial_subsidy=8, halving=2, max_money=30)
    sk.apply_cfg(cfg)
    keys = sk.Keys(3)
    from checks.ledger import RandomTree
    from harness import ledger_drv
    blocks = []
    for i in range(3 if quick else 12):
        w = sk.World(cfg, keys, tag=b"w%d" % i)
        rec = ledger_drv.Recorder(w, 1, full=False, snapshots=False)
        rec.start(w.make_genesis())
        rt = RandomTree(w, rec, rng, p_mut=0.0)
        for _ in range(8):
            rt.step()
        blocks += [w.by_abs[a] for a in rt.stored]
    sk.restore_cfg()
    blocks.sort(key=lambda b: -len(b.transactions))
    pick = blocks[:4 if quick else 16] + blocks[-2:]
    g = dt.Block.deserialize(genesis_block_data)
    real = [g]
    d = os.path.join(sk.REPO, "tests/testdata/chain")
    for fn in sorted(os.listdir(d)):
        real.append(dt.Block.deserialize(open(os.path.join(d, fn), "rb").read()))
    for b in pick + real:
        vals.append(("Block", b))
    for b in pick[:3] + real[:2]:
        vals.append(("BlockHeader", b.header))
        vals.append(("PowEvidence", b.header.pow_evidence))
        for t in b.transactions[:3]:
            vals.append(("Transaction", t))
            for i in t.inputs[:2]:
                vals.append(("Input", i))
                vals.append(("OutputReference", i.output_reference))
                vals.append(("Signature", i.signature))
            for o in t.outputs[:2]:
                vals.append(("Output", o))
                vals.append(("PublicKey", o.public_key))
    vals.append(("Signature", sg.SignableEquivalent()))
    vals.append(("Signature", sg.CoinbaseData(0, b"")))
    vals.append(("Signature", sg.CoinbaseData(0xffffffff, b"x" * 255)))
    for h in (0, 1, 63, 64, 127, 128, 8191, 8192, 16383, 16384, 163000, 2097151, 2097152, (1 << 28) - 1):
        vals.append(("BlockSummary", dt.BlockSummary(h, bytes(32), bytes(range(32)), 0xffffffff, b"\xff" * 32, 0)))
        vals.append(("VlqOnly", h))
    ref = dt.OutputReference(b"\x07" * 32, 0xffffffff)
    sig = sg.SECP256k1Signature(b"\x09" * 64)
    pk = sg.SECP256k1PublicKey(b"\x05" * 64)
    for n in (0, 1, 2, 127, 128, 129):
        vals.append(("Transaction", dt.Transaction([dt.Input(ref, sig)] * min(n, 3), [dt.Output((1 << 64) - 1, pk)] * n)))
    vals.append(("Transaction", dt.Transaction([dt.Input(ref, sig)] * 128, [dt.Output(1, pk)])))
    # encodings longer than 64 KiB and 128 KiB (a consolidation spend of several hundred inputs; the size limit of a block allows 200 000 bytes)
    vals.append(("Transaction", dt.Transaction([dt.Input(dt.OutputReference(bytes([i % 251]) * 32, i), sig) for i in range(700)], [dt.Output(1 + i, pk) for i in range(40)])))
    vals.append(("Transaction", dt.Transaction([dt.Input(dt.OutputReference(bytes([i % 241]) * 32, i), sig) for i in range(1300)], [dt.Output(7, pk)])))
    # messages
    mid = 0
    for m in netmsg.sample_messages():
        mid += 1
        vals.append(("Frame", (M.MessageHeader(1_600_000_000 + mid, mid, mid * 3, (1 << 64) - mid), m)))
    vals.append(("Frame", (M.MessageHeader(0, 0, 0, 0), M.InventoryMessage([M.InventoryItem(M.DATA_BLOCK, bytes([i]) * 32) for i in range(130)]))))
    vals.append(("Frame", (M.MessageHeader(1, 2, 3, 4), M.GetBlocksMessage([bytes([i]) * 32 for i in range(70)], b"\x01" * 32))))
    vals.append(("Frame", (M.MessageHeader(1, 2, 3, 4), M.DataMessage(M.DATA_HEADER, g.header))))
    vals.append(("Frame", (M.MessageHeader(1, 2, 3, 4), M.DataMessage(M.DATA_BLOCK, pick[0]))))
    vals.append(("Frame", (M.MessageHeader(1, 2, 3, 4), M.DataMessage(M.DATA_TRANSACTION, pick[0].transactions[-1]))))
    vals.append(("Frame", (M.MessageHeader(1, 2, 3, 4), netmsg.hello(nonce=0xffffffff, my_port=65535, agent=b"a" * 255))))
    vals.append(("Frame", (M.MessageHeader(1, 2, 3, 4), M.PeersMessage([]))))
    # a peer record carries a full 16-byte address: native IPv6, unspecified, loopback, mapped and unmapped forms side by side
    from ipaddress import IPv6Address
    addrs = ["2001:db8::1", "::", "::1", "::ffff:10.0.0.1", "fe80::1", "::10.0.0.1", "ffff:ffff:ffff:ffff:ffff:ffff:ffff:ffff"]
    vals.append(("Frame", (M.MessageHeader(1, 2, 3, 4), M.PeersMessage([M.Peer(i, IPv6Address(a), 1000 + i) for i, a in enumerate(addrs)]))))
    for a in addrs:
        vals.append(("Frame", (M.MessageHeader(1, 2, 3, 4), M.PeersMessage([M.Peer(0, IPv6Address(a), 2412)]))))
    return vals


def run(pid, tier, replay=None):
    chk = Check(pid, tier)
    quick = tier != "thorough"
    rng = random.Random(seed() + 7)
    sk.setup()
    CLS = classes()
    # which VLQ decoder does the tree have?  (M-layer constant; the P-layer does not depend on it)
    probe = real_decode("VlqOnly", b"\x80\x01", CLS)
    strict = not probe[0]
    chk.notes.append("tree's VLQ decoder is %s" % ("strict (encoder's form only)" if strict else "lenient (leading 0x80 octets accepted)"))

    # (a) design level, scaled grammar, exhaustive
    sc = {"StrictVLQ": True, "Scaled": True, "Alphabet": {0, 1, 2, 127, 128, 129}, "MaxLen": 7 if quick else 8,
          "Types": {"Transaction", "BlockSummary", "Signature", "Input", "Output"}}
    r = tracecheck.model("MC_Wire", "Spec", sc, workers=16, timeout=1500,
                         invariants=["I_C07_OneEncodingPerValue", "I_ReencodeDecodesSame", "I_VlqRoundTrip"])
    tlc.require_clean(r, "MC_Wire strict")
    chk.add_tlc("MC_Wire scaled grammar, strict VLQ: every byte string over 6 symbols up to length %d" % sc["MaxLen"], r, constants=str(sc))
    if r.violated:
        return machinery_failure(pid, "MC_Wire (strict) violates %s" % r.violated)
    rn = tracecheck.model("MC_Wire", "Spec", dict(sc, StrictVLQ=False, MaxLen=5), workers=4, timeout=600,
                          invariants=["I_C07_OneEncodingPerValue"])
    chk.add_tlc("MC_Wire with the lenient VLQ decoder (must produce the non-canonical counterexample)", rn,
                expect_violation="I_C07_OneEncodingPerValue")
    if not rn.violated:
        return machinery_failure(pid, "vacuity: lenient VLQ did not violate one-encoding-per-value in the model")
    rv = tracecheck.model("MC_Wire", "Spec", dict(sc, MaxLen=4), workers=4, timeout=600, invariants=["SomeDecodes"])
    if not rv.violated:
        return machinery_failure(pid, "vacuity: no string decodes in the scaled model")

    # (b) code level
    vals = values(rng, quick)
    events, meta = [], []
    budget = 40 if quick else 200
    for (t, obj) in vals:
        b = real_encode(t, obj)
        e = event(t, b, "value", CLS, original=obj, name="value")
        if e:
            events.append(e)
            chk.case((t, b), nontrivial=True)
        # the same object followed by other data in the stream (a second object, padding): the decoder must account for its own bytes only
        for name, tail in (("followed_by_zero", b"\x00"), ("followed_by_itself", b), ("followed_by_ff", b"\xff" * 7)):
            e = event(t, b + tail, "bytes", CLS, name=name)
            if e:
                events.append(e)
                chk.case((t, b + tail), nontrivial=True)
        if len(b) > 3000 and (quick or len(b) > 20000):      # (encodings of tens of kilobytes: the value and its followed_by forms only)
            continue
        try:
            muts = wiregen.mutations(t, b, rng, budget=budget)
        except (KeyError, IndexError, ValueError):
            # the tree's own encoding of this value does not follow the format description, so there are no fields to alter; the "value" event
            # above carries the bytes and TLC judges them (same_enc / round trip)
            chk.notes.append("the encoder's output for a %s could not be laid out by the format description" % t)
            muts = []
        for name, mb in muts:
            e = event(t, mb, "bytes", CLS, name=name)
            if e:
                events.append(e)
                chk.case((t, mb), nontrivial=True)
    # VLQ: every 1- and 2-byte string, a sample of 3-byte strings; every value below 2^14 and boundary values
    for x in range(256):
        events.append(event("VlqOnly", bytes([x]) + b"\x55", "bytes", CLS, name="vlq1"))
    firsts = range(0x80, 0x100) if not quick else [0x80, 0x81, 0x82, 0xbf, 0xfe, 0xff]
    for a in firsts:
        for bb in range(256):
            events.append(event("VlqOnly", bytes([a, bb]), "bytes", CLS, name="vlq2"))
    for _ in range(300 if quick else 5000):
        s = bytes([rng.choice([0x80, 0x81, 0xff, rng.randrange(128, 256)]), rng.choice([0x80, 0x80, 0xff, rng.randrange(256)]), rng.randrange(256), rng.randrange(128)])
        events.append(event("VlqOnly", s, "bytes", CLS, name="vlq4"))
    from skepticoin.serialization import stream_serialize_vlq, stream_deserialize_vlq
    bad = None
    top = (1 << 14) if quick else (1 << 21)
    for v in list(range(top)) + [(1 << k) + d for k in range(14, 60) for d in (-1, 0, 1)]:
        f = io.BytesIO()
        stream_serialize_vlq(f, v)
        enc = f.getvalue()
        if enc != indep.vlq(v) or stream_deserialize_vlq(io.BytesIO(enc)) != v:
            bad = v
            break
        chk.evaluations += 1
    if bad is not None:
        chk.violation("C07:vlq_value_changed_by_encode_then_decode", {"value": bad})
    # objects obtained from the block store: blocks with multi-input / multi-output transactions (referenced output indexes ascending,
    # descending and equal) are written, flushed and read back through a fresh connection; the ids they carry must be the double
    # SHA-256 of the canonical encoding of what was read, and equal the ids of the same content decoded from bytes
    from harness import store_drv, ledger_drv
    from checks.ledger import RandomTree
    from checks import store as storechk
    cfg_s = sk.Cfg(**storechk.MODEL_CFG)
    sk.apply_cfg(cfg_s)
    nstored = 0
    try:
        trees = []
        for name_, descs in storechk.universes().items():
            w_, g_, blocks_ = storechk.build(cfg_s, sk.Keys(3), descs)
            trees.append((w_, g_, [blocks_[i] for i in sorted(blocks_) if i != 0]))
        for i in range(2 if quick else 12):
            w_ = sk.World(cfg_s, sk.Keys(3), tag=b"ws%d" % i)
            rec_ = ledger_drv.Recorder(w_, 1, full=False, snapshots=False)
            g_ = w_.make_genesis()
            rec_.start(g_)
            rt_ = RandomTree(w_, rec_, rng, p_mut=0.0)
            for _ in range(12):
                rt_.step()
            trees.append((w_, g_, [w_.by_abs[a] for a in rt_.stored[1:]]))
        for (w_, g_, order_) in trees:
            run_ = store_drv.StoreRun(w_, g_)
            try:
                for b_ in order_:
                    run_.buffer(b_)
                run_.flush()
                for b_ in run_.read_back():
                    for (t_, o_) in [("Block", b_)] + [("Transaction", x) for x in b_.transactions]:
                        canon = indep.enc_block(o_) if t_ == "Block" else indep.enc_tx(o_)
                        try:
                            same = o_.serialize() == canon
                        except Exception:
                            same = False
                        fresh = real_decode(t_, canon, CLS)
                        events.append({"t": t_, "b": list(canon), "kind": "stored", "dec": True, "consumed": len(canon), "reenc_equal": same, "same_enc": True,
                                       "id_equal": ids_ok(o_) and bool(fresh and fresh[0] and fresh[2].hash() == o_.hash()),
                                       "roundtrip": True, "name": "from_store"})
                        nstored += 1
            finally:
                run_.close()
    finally:
        sk.restore_cfg()
    chk.extra["objects_read_from_store"] = nstored
    # random bytes
    for _ in range(200 if quick else 3000):
        t = rng.choice(["Transaction", "Block", "BlockHeader", "Input", "Output", "Signature", "Frame"])
        s = bytes(rng.choice([0, 0, 1, 2, 128, rng.randrange(256)]) for _ in range(rng.randint(1, 120)))
        events.append(event(t, s, "bytes", CLS, name="random"))
    events = [e for e in events if e]
    chk.sample({k: (v if k != "b" else bytes(v).hex()) for k, v in events[0].items()})
    nm = [e for e in events if e["name"].startswith("nonminimal")]
    if nm:
        chk.sample({k: (v if k != "b" else bytes(v).hex()[:200]) for k, v in nm[0].items()})
    B = 1500
    findings = []
    for k in range(0, len(events), B):
        verdicts, r2 = tracecheck.run("TraceWire", [{kk: vv for kk, vv in e.items() if kk != "name"} for e in events[k:k + B]],
                                      {"StrictVLQ": strict, "Scaled": False}, ids=[1], workers=1, timeout=3000)
        chk.states += r2.distinct
        chk.transitions += r2.generated
        chk.traces_validated += len(events[k:k + B])
        for (line, clause) in tlc.tagged(r2, "FINDING"):
            findings.append((k + line - 1, clause))
        for (line, m) in tlc.tagged(r2, "DRIFT"):
            e = events[k + line - 1]
            chk.model_drift("%s on %s (%s, %d bytes): %s" % (m, e["t"], e["name"], len(e["b"]), bytes(e["b"]).hex()[:80]))
    for idx, clause in findings:
        e = events[idx]
        sig = {"clause": clause, "cause": "nonminimal_vlq" if (e["name"].startswith("nonminimal") or e["name"] in ("vlq2", "vlq4", "vlq1", "random", "flip_byte", "stripped_leading_80") and not e["reenc_equal"]) else e["name"]}
        chk.violation(clause, {"type": e["t"], "bytes_hex": bytes(e["b"]).hex(), "how": e["name"],
                               "observed": {k: e[k] for k in ("dec", "consumed", "reenc_equal", "id_equal", "roundtrip", "same_enc")}}, sig)
    chk.extra["rule"] = ("calls of the real codecs: every generated value of the 10 consensus types and 9 message types encoded and decoded; for each valid "
                         "encoding, mutations placed by the grammar (1-3 extra leading 0x80 at every VLQ/count, counts +-1, every other tag value, length bytes, "
                         "truncation at every field boundary, trailing data, bit flips); VLQ strings of 1-2 bytes exhaustively (quick: a sample of first bytes); random bytes")
    chk.assumptions.append("ids and canonical encodings are computed by harness/indep.py with hashlib; SHA-256 is not modelled in TLA+")
    # ---- "id = hash of the canonical encoding" for the objects a running node holds: blocks found by its own miner processes (two of them,
    #      interleaved), filed, served and broadcast under their ids
    from checks import minedblocks
    rc_ = minedblocks.stage(chk, quick, rng, pid)
    if rc_:
        return rc_
    return chk.finish()
