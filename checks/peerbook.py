"""C19: PeerBook.tla -- TLC over every interleaving of connects, disconnects, greetings (incl. self), announcements and clock
ticks on a few addresses; randomized event sequences on a real NetworkManager (in-memory sockets, virtual clock, real
peers.json) judged by TLC (TracePeerBook); the peers file replacement under strace (TraceAtomicFile) and with every crash point."""
import json
import os
import random
import shutil
import subprocess
import tempfile

from harness import tlc, sk, tracecheck, peer_drv, strace_fs
from harness.common import Check, seed, machinery_failure, ROOT


RESTART_SNIPPET = """
import sys, threading
sys.dont_write_bytecode = True
sys.path.insert(0, %r)
threading.Thread.start = lambda self: None
import skepticoin.scripts.utils as u
from skepticoin.coinstate import CoinState
from skepticoin.datatypes import Block
from skepticoin.genesis import genesis_block_data
import skepticoin.networking.disk_interface as D
def offline():
    raise RuntimeError('no network')
D.load_peers_from_network = offline
class A:
    dont_listen = True
    listening_port = 2412
cs = CoinState.empty().add_block_no_validation(Block.deserialize(genesis_block_data))
t = u.start_networking_peer_in_background(A(), cs)
print('BOOK %%d' %% len(t.local_peer.network_manager.disconnected_peers))
"""


def run(pid, tier, replay=None):
    chk = Check(pid, tier)
    quick = tier != "thorough"
    rng = random.Random(seed() * 3 + 19)
    sk.setup()
    # (a) design level
    defs = 'InitDef == {[h |-> 1, p |-> 1, d |-> "OUTGOING"], [h |-> 2, p |-> 1, d |-> "OUTGOING"]}'
    c = {"MaxAttempts": 2, "FirstWait": 10, "MaxWait": 40, "FileMax": 2, "Hosts": {1, 2}, "Ports": {1, 2}, "Ticks": {5, 10, 20, 40},
         "MaxSteps": 7 if quick else 8, "InitialPeers": ("<-", "InitDef")}
    r = tracecheck.model("MC_PeerBook", "Spec", c, invariants=["I_NeverBoth", "I_FileBounded"], properties=["A_Backoff"], workers=16,
                         timeout=2400, extra_defs=defs)
    tlc.require_clean(r, "MC_PeerBook")
    chk.add_tlc("MC_PeerBook (2 hosts x 2 ports, give-up after 2, waits 10/20/40, every interleaving of <= %d events)" % c["MaxSteps"], r, constants=str(c))
    if r.violated or getattr(r, "timed_out", False):
        return machinery_failure(pid, "MC_PeerBook: %s" % (r.violated or "timed out"))

    # (b) real NetworkManager
    import skepticoin.networking.remote_peer as rp
    real = dict(MaxAttempts=rp.MAX_CONNECTION_ATTEMPTS, FirstWait=rp.TIME_TO_SECOND_CONNECTION_ATTEMPT, MaxWait=rp.MAX_TIME_BETWEEN_CONNECTION_ATTEMPTS)
    if (real["FirstWait"], real["MaxWait"]) != (10, 1800):
        chk.violation("C19:backoff_constants_differ_from_10s_and_30min", real)
    import skepticoin.networking.disk_interface as di
    filemax = di.PEERS_JSON_MAX_LEN
    if filemax != 100:
        chk.violation("C19:peers_file_limit_is_not_100", {"limit": filemax})
    cfg = sk.Cfg(period=1000, timespan=4, initial_subsidy=8, halving=2, max_money=30)
    sk.apply_cfg(cfg)
    keys = sk.Keys(2)
    w = sk.World(cfg, keys)
    g = w.make_genesis()
    for (label, max_attempts, ntr, nev) in (("real_limit", real["MaxAttempts"], 25 if quick else 250, 45),
                                            ("limit_3", 3, 25 if quick else 250, 60)):
        rp.MAX_CONNECTION_ATTEMPTS = max_attempts
        traces = []
        try:
            for i in range(ntr):
                init = [(1, 2412), (2, 2412)] + ([(3, 2412)] if rng.random() < 0.5 else [])
                run_ = peer_drv.PeerRun(w, g, init, tid=i + 1)
                if i % 3 == 0:
                    run_.unreachable = {rng.choice([1, 2, 3])}       # connect() to this host fails on the spot (no route)
                lab = [("unreachable", sorted(run_.unreachable))]
                try:
                    for _ in range(nev):
                        nm = run_.node.local.network_manager
                        conn = [run_.key_of(p) for p in nm.connected_peers.values()]
                        x = rng.random()
                        if x < 0.25:
                            dt = rng.choice([1, 5, 9, 10, 11, 19, 20, 21, 40, 79, 80, 81, 160, 320, 640, 1280, 1799, 1800, 1801, 3600])
                            run_.tick(dt)
                            lab.append(("tick", dt))
                        elif x < 0.5:
                            a = run_.step()
                            lab.append(("step", len(a)))
                        elif x < 0.58:
                            h, p = rng.choice([1, 2, 3, 4]), rng.choice([40001, 40002])
                            run_.incoming(h, p)
                            lab.append(("incoming", h, p))
                        elif x < 0.75 and conn:
                            k = rng.choice(conn)
                            run_.close(k)
                            lab.append(("close", k["h"], k["d"]))
                        elif x < 0.92 and conn:
                            k = rng.choice(conn)
                            is_self = k["d"] == "OUTGOING" and rng.random() < 0.25
                            run_.hello(k, rng.choice([2412, 2412, 2413]), is_self)
                            lab.append(("hello", k["h"], k["d"], is_self))
                        elif conn:
                            k = rng.choice(conn)
                            addrs = [(rng.choice([1, 2, 3, 4, 5]), rng.choice([2412, 2413])) for _ in range(rng.randint(1, 3))]
                            run_.peers(k, addrs)
                            lab.append(("peers", k["h"], addrs))
                    traces.append(run_.trace())
                    chk.case(json.dumps(lab), nontrivial=any(x_[0] == "close" for x_ in lab) and any(x_[0] == "step" and x_[1] > 0 for x_ in lab))
                finally:
                    run_.finish()
            # start-up: a listed peer connects in, greets and is dialled back right after the node came up (played while the start-up path
            # reads the peer list, if the networking thread is already running by then), then ordinary traffic
            if label == "limit_3":
                def early(run__):
                    run__.incoming(1, 40001)
                    k_in = [run__.key_of(p_) for p_ in run__.node.local.network_manager.connected_peers.values()]
                    if k_in:
                        run__.hello(k_in[0], 2412, False)
                    run__.step()
                    for p_ in list(run__.node.local.network_manager.connected_peers.values()):
                        k__ = run__.key_of(p_)
                        if k__["d"] == "OUTGOING" and not p_.hello_received:
                            run__.hello(k__, 2412, False)
                for variant in range(3):
                    run_ = peer_drv.PeerRun(w, g, [(1, 2412), (2, 2412)][:1 + variant % 2], tid=len(traces) + 1, early_traffic=early)
                    lab = ["start-up traffic", variant]
                    try:
                        for dt_ in (1, 10, 20, 1800):
                            run_.step()
                            run_.tick(dt_)
                        run_.step()
                        traces.append(run_.trace())
                        chk.case(json.dumps(lab), nontrivial=True)
                    finally:
                        run_.finish()
            # directed histories: an address is given up on (limit exceeded), then comes back through every door -- announced by a greeted
            # peer, greeting from the same host with that listening port, announced again after a long time -- and the node keeps stepping
            if label == "limit_3":
                for variant in range(4 if quick else 12):
                    run_ = peer_drv.PeerRun(w, g, [(1, 2412), (2, 2412)], tid=len(traces) + 1)
                    lab = ["directed give-up", variant]
                    try:
                        nm = run_.node.local.network_manager
                        for _ in range(max_attempts + 3):          # host 1 never greets: every attempt ends without a greeting
                            run_.tick(rng.choice([1800, 1801, 3600]))
                            run_.step()
                            for p_ in list(nm.connected_peers.values()):
                                k_ = run_.key_of(p_)
                                if k_["h"] == 1:
                                    run_.close(k_)
                                elif not p_.hello_received:
                                    run_.hello(k_, 2412, False)         # host 2 greets and stays
                        for _ in range(2):
                            run_.tick(3600)
                            run_.step()
                        greeted = [run_.key_of(p_) for p_ in nm.connected_peers.values() if p_.hello_received]
                        if variant % 4 in (0, 2) and greeted:
                            run_.peers(greeted[0], [(1, 2412), (5, 2412)])
                        if variant % 4 in (1, 2):
                            run_.incoming(1, 40001)
                            inc = [run_.key_of(p_) for p_ in nm.connected_peers.values() if run_.key_of(p_)["h"] == 1]
                            if inc:
                                run_.hello(inc[0], 2412, False)
                        if variant % 4 == 3 and greeted:
                            run_.peers(greeted[0], [(1, 2412)])
                            run_.tick(7200)
                            run_.peers(greeted[0], [(1, 2412)])
                        for dt_ in (1, 10, 1800, 3600):
                            run_.step()
                            run_.tick(dt_)
                            for p_ in list(nm.connected_peers.values()):
                                k_ = run_.key_of(p_)
                                if k_["h"] == 1 and k_["d"] == "OUTGOING":
                                    run_.close(k_)
                        run_.step()
                        traces.append(run_.trace())
                        chk.case(json.dumps(lab), nontrivial=True)
                    finally:
                        run_.finish()
        finally:
            rp.MAX_CONNECTION_ATTEMPTS = real["MaxAttempts"]
        chk.sample({"source": "randomized peer-book events (%s)" % label, "events": lab[:12]})
        tc = {"MaxAttempts": max_attempts, "FirstWait": 10, "MaxWait": 1800, "FileMax": 100}
        verdicts, r2 = tracecheck.run("TracePeerBook", traces, tc, ids=[t["id"] for t in traces], workers=4, timeout=3000)
        chk.states += r2.distinct
        chk.transitions += r2.generated
        chk.traces_validated += len(traces)
        by = {t["id"]: t for t in traces}
        for t_id, (clause, line) in verdicts.items():
            if clause != "ok":
                ev = by[t_id]["events"]
                chk.violation(clause, {"config": label, "events": [{k: v for k, v in e.items() if k != "post"} for e in ev[:line]],
                                       "post": ev[line - 1].get("post")}, {"clause": clause})
        for dft in tlc.tagged(r2, "DRIFT"):
            chk.model_drift("%s trace %s event %s: %s" % (label, dft[0], dft[1], dft[2]))

    # (c) a long deterministic run to the real give-up limit: one unreachable peer, clock jumps of 30 min
    rp_limit = real["MaxAttempts"]
    run_ = peer_drv.PeerRun(w, g, [(1, 2412)], tid=1)
    run_.unreachable = {1} if seed() % 2 else set()      # odd seeds: the connect() itself fails; even seeds: it is accepted and closed
    try:
        n_att = 0
        for i in range(rp_limit + 40 if not quick else 400):
            run_.tick(1800)
            a = run_.step()
            n_att += len(a)
            nm = run_.node.local.network_manager
            for p in list(nm.connected_peers.values()):
                run_.close(run_.key_of(p))
        tr = run_.trace()
    finally:
        run_.finish()
    verdicts, r3 = tracecheck.run("TracePeerBook", [tr], {"MaxAttempts": rp_limit, "FirstWait": 10, "MaxWait": 1800, "FileMax": 100}, ids=[1], workers=1, timeout=3000)
    chk.states += r3.distinct
    chk.transitions += r3.generated
    chk.traces_validated += 1
    chk.extra["attempts_in_long_run"] = n_att
    clause, line = verdicts[1]
    if clause != "ok":
        chk.violation(clause, {"config": "long run", "event": {k: v for k, v in tr["events"][line - 1].items() if k != "post"}}, {"clause": clause})
    if not quick and n_att > rp_limit + 1:
        chk.violation("C19:retried_beyond_the_configured_number_of_failures", {"attempts": n_att, "limit": rp_limit})

    # (c2) the back-off boundary of every failure count: one second before min(10 s x 2^k, 30 min) has passed since the previous attempt the peer
    #      is not retried, at the boundary it may be; k = 0 .. 14 consecutive attempts that end without a greeting
    run_ = peer_drv.PeerRun(w, g, [(1, 2412)], tid=2)
    try:
        run_.tick(1)
        run_.step()
        nm = run_.node.local.network_manager
        for k in range(1, 15):
            for p in list(nm.connected_peers.values()):
                run_.close(run_.key_of(p))
            wait_k = min(10 * 2 ** k, 1800)
            run_.tick(wait_k - 1)
            run_.step()                      # one second early: must not dial
            run_.tick(2)
            run_.step()
        tr2 = run_.trace()
    finally:
        run_.finish()
    verdicts, r3b = tracecheck.run("TracePeerBook", [tr2], {"MaxAttempts": rp_limit, "FirstWait": 10, "MaxWait": 1800, "FileMax": 100}, ids=[2], workers=1, timeout=3000)
    chk.states += r3b.distinct
    chk.traces_validated += 1
    chk.case(("backoff_boundaries",), nontrivial=True)
    clause, line = verdicts[2]
    if clause != "ok":
        chk.violation(clause, {"config": "back-off boundaries", "event": {k_: v_ for k_, v_ in tr2["events"][line - 1].items() if k_ != "post"},
                               "events_before": [[e_["op"], e_.get("dt", len(e_.get("attempts", [])))] for e_ in tr2["events"][max(0, line - 6):line]]}, {"clause": clause})
    for dft in tlc.tagged(r3b, "DRIFT"):
        chk.model_drift("back-off boundaries trace event %s: %s" % (dft[1], dft[2]))

    # (d) atomic replacement of peers.json
    d = tempfile.mkdtemp(prefix="pj_", dir=sk.scratch())
    old = [["10.0.0.%d" % i, 2412, "OUTGOING", "2020-01-01T00:00:00Z"] for i in range(1, 120)]
    with open(os.path.join(d, "peers.json"), "w") as f:
        json.dump(old[:100], f, indent=4)
    code = ("import skepticoin.networking.disk_interface as D\n"
            "class P:\n    host, port, direction = '10.9.9.9', 2412, 'OUTGOING'\n"
            "D.DiskInterface().write_peers(P())\n")
    ev = strace_fs.run(code, d, {"peers.json", "peers.json.new"})
    newsize = os.path.getsize(os.path.join(d, "peers.json"))
    newc = json.load(open(os.path.join(d, "peers.json")))
    if len(newc) > 100 or newc[0][:3] != ["10.9.9.9", 2412, "OUTGOING"]:
        chk.violation("C19:peers_file_not_truncated_or_not_most_recent_first", {"len": len(newc), "first": newc[0]})
    verdicts, r4 = tracecheck.run("TraceAtomicFile", [{"id": 1, "prop": "C19", "newsize": newsize, "events": ev}],
                                  {"Target": "peers.json", "NewSize": newsize}, ids=[1], workers=1)
    chk.states += r4.distinct
    chk.traces_validated += 1
    chk.sample({"source": "strace of write_peers", "syscalls": ev[:8]})
    clause, line = verdicts[1]
    if clause != "ok":
        chk.violation(clause, {"syscalls": ev, "failing_call": line}, {"clause": clause})
    p = subprocess.run(["/venv/bin/python", os.path.join(ROOT, "harness/crashrun.py"), sk.REPO, "peers", "0"], cwd=d, capture_output=True, text=True)
    m = [l for l in p.stdout.splitlines() if l.startswith("BOUNDARIES")]
    if p.returncode != 0 or not m:
        return machinery_failure(pid, "crashrun failed: %s %s" % (p.returncode, p.stderr[-800:]))
    nb = int(m[0].split()[1])
    for k in range(1, nb + 1):
        with open(os.path.join(d, "peers.json"), "w") as f:
            json.dump(old[:100], f, indent=4)
        if os.path.exists(os.path.join(d, "peers.json.new")):
            os.remove(os.path.join(d, "peers.json.new"))
        subprocess.run(["/venv/bin/python", os.path.join(ROOT, "harness/crashrun.py"), sk.REPO, "peers", str(k)], cwd=d, capture_output=True, text=True)
        chk.case(("crash", k), nontrivial=True)
        try:
            got = json.load(open(os.path.join(d, "peers.json")))
            ok = got == old[:100] or (got[0][:3] == ["10.9.9.9", 2412, "OUTGOING"] and len(got) == 100)
        except Exception:
            ok = False
        if not ok:
            chk.violation("C19:peers_file_neither_complete_old_nor_complete_new_after_crash", {"crash_before_boundary": k, "of": nb}, {"clause": "crash"})
        # restart: the scripts' start-up path (start_networking_peer_in_background -> NetworkingThread -> load_peers) on what the crash left
        # behind, without the operating-system thread; afterwards the file is still whole and the peer book holds the listed peers
        rs = subprocess.run(["/venv/bin/python", "-c", RESTART_SNIPPET % sk.REPO], cwd=d, capture_output=True, text=True)
        try:
            got2 = json.load(open(os.path.join(d, "peers.json")))
            ok2 = got2 == old[:100] or (got2[0][:3] == ["10.9.9.9", 2412, "OUTGOING"] and len(got2) == 100)
        except Exception:
            ok2 = False
        m2 = [l_ for l_ in rs.stdout.splitlines() if l_.startswith("BOOK ")]
        nbook = int(m2[0].split()[1]) if m2 else -1
        if ok and (not ok2 or rs.returncode != 0 or nbook != 100):
            chk.violation("C19:peers_file_neither_complete_old_nor_complete_new_after_crash_and_restart",
                          {"crash_before_boundary": k, "of": nb, "file_whole_after_restart": ok2, "restart_exit": rs.returncode, "peers_loaded": nbook,
                           "restart_stderr": rs.stderr[-300:]}, {"clause": "crash_restart"})
    # an operating-system fault instead of a crash: the file system accepts only L bytes of the new file
    newsize_p = os.path.getsize(os.path.join(d, "peers.json")) if os.path.exists(os.path.join(d, "peers.json")) else 9000
    for L in sorted({1, 4096, newsize_p // 2, max(newsize_p - 10, 2)}):
        with open(os.path.join(d, "peers.json"), "w") as f:
            json.dump(old[:100], f, indent=4)
        if os.path.exists(os.path.join(d, "peers.json.new")):
            os.remove(os.path.join(d, "peers.json.new"))
        subprocess.run(["/venv/bin/python", os.path.join(ROOT, "harness/crashrun.py"), sk.REPO, "peers_limit", str(L)], cwd=d, capture_output=True, text=True)
        chk.case(("file_size_limit", L), nontrivial=True)
        try:
            got = json.load(open(os.path.join(d, "peers.json")))
            ok = got == old[:100] or (got[0][:3] == ["10.9.9.9", 2412, "OUTGOING"] and len(got) == 100)
        except Exception:
            ok = False
        if not ok:
            chk.violation("C19:peers_file_neither_complete_old_nor_complete_new_after_a_save_on_a_full_file_system", {"bytes_the_file_system_accepts": L}, {"clause": "short_write"})
    chk.extra["crash_points_materialised"] = nb
    shutil.rmtree(d, ignore_errors=True)
    chk.extra["rule"] = ("randomized sequences of 45-60 network-manager events (ticks from 1 s to 1 h around every back-off boundary, steps, incoming, remote close, greeting incl. own nonce, "
                         "announcements) over 5 hosts with the real limit and with give-up after 3; one long run of 30-minute ticks against an unreachable peer; peers.json replaced under strace "
                         "and with a crash at every boundary; non-trivial = has a close and a step that attempts")
    chk.assumptions.append("outgoing connections are in-memory sockets created through a shim for socket.socket in networking.local_peer; the clock is virtual")
    return chk.finish()
