"""C03 on a long chain: more than a thousand blocks with spends placed around round heights (100, 128, 256, 500, 512, 1000, 1024, ...), a
start-up style first query at the head, a reorganisation, then queries at the new head, the old head, side-branch blocks and older blocks
in no particular order: the node's unspent outputs and per-key balances at each of them against an independent replay from genesis."""
import time

from harness import sk, tlc, tracecheck, indep


def _replay(chain):
    """Independent ledger: {(txid, idx): (value, pub)} and per-key (sum, set of refs) after the given list of blocks."""
    utxo = {}
    for b in chain:
        for t in b.transactions:
            tid = indep.txid(t)
            for i in t.inputs:
                r = i.output_reference
                if r.hash != b"\x00" * 32:
                    del utxo[(r.hash, r.index)]
            for n, o in enumerate(t.outputs):
                utxo[(tid, n)] = (o.value, o.public_key.public_key)
    bal = {}
    for (ref, (v, pk)) in utxo.items():
        s, refs = bal.get(pk, (0, set()))
        bal[pk] = (s + v, refs | {ref})
    return utxo, bal


def stage(chk, quick, rng, pid):
    t0 = time.time()
    sk.restore_cfg()
    cfg = sk.Cfg(**sk.read_real_constants())
    sk.apply_cfg(cfg)
    try:
        import skepticoin.consensus as c
        from skepticoin.coinstate import CoinState
        from skepticoin.datatypes import Block, BlockHeader, BlockSummary, PowEvidence, Transaction, Input, Output, OutputReference
        from skepticoin.signing import SECP256k1PublicKey, SECP256k1Signature
        keys = sk.Keys(4)
        w = sk.World(cfg, keys, tag=b"long")
        g = w.make_genesis(ts=1_600_000_000)
        pks = {k: SECP256k1PublicKey(keys.pub[k]) for k in keys.pub}
        L = 1030 if quick else 2100
        round_heights = sorted({h + d for h in (100, 128, 256, 500, 512, 1000, 1024, 2000, 2048) for d in (-1, 0, 1) if h + d < L})

        def build(cs, parent, h, key, spend=None, tag=b""):
            txs = []
            if spend is not None:
                (ref, out, owner, to) = spend
                unsigned = Transaction([Input(OutputReference(ref[0], ref[1]), SECP256k1Signature(b"\x00" * 64))], [Output(out.value - 1, pks[to]), Output(1, pks[owner])])
                msg = unsigned.signable_equivalent().serialize()
                txs.append(Transaction([Input(OutputReference(ref[0], ref[1]), SECP256k1Signature(keys.sign(owner, msg)))], unsigned.outputs))
            cb = c.construct_coinbase_transaction(h, txs, cs.unspent_transaction_outs_by_hash[parent.hash()], b"l" + tag, pks[key])
            summ = BlockSummary(h, parent.hash(), c.calc_merkle_root_hash([cb] + txs), parent.timestamp + 60, parent.target, 0)
            return Block(BlockHeader(summ, PowEvidence(b"\x00" * 32, b"\x00" * 32, b"\x00" * 32)), [cb] + txs)
        cs = CoinState.empty().add_block_no_validation(g)
        main = [g]
        rewards = []                     # (height, (txid, 0), Output, owner key)
        for h in range(1, L + 1):
            key = 1 + h % 3
            spend = None
            if h in round_heights and rewards:
                hh, ref, out, owner = rewards.pop(0)
                spend = (ref, out, owner, 4)
            b = build(cs, main[-1], h, key, spend)
            cs = cs.add_block_no_validation(b)
            main.append(b)
            if h < 40:
                rewards.append((h, (indep.txid(b.transactions[0]), 0), b.transactions[0].outputs[0], key))
        events = []

        def compare(state, chain, what):
            tip = chain[-1]
            u_ref, b_ref = _replay(chain)
            u = {(r.hash, r.index): (o.value, o.public_key.public_key) for r, o in state.unspent_transaction_outs_by_hash[tip.hash()].items()}
            events.append({"clause": "C03:ledger_at_block_differs_from_replay", "holds": u == u_ref, "what": what})
            try:
                pkb = state.public_key_balances_by_hash[tip.hash()]
                got = {pk.public_key: (bal.value, {(r.hash, r.index) for r in bal.output_references}) for pk, bal in pkb.items() if bal.value or bal.output_references}
                want = {pk: v for pk, v in b_ref.items()}
                ok = got == want
            except Exception as e:
                ok = False
                what = what + " (%r)" % e
            events.append({"clause": "C03:per_key_balance_differs_from_unspent_outputs", "holds": ok, "what": what})
            chk.case(("long", what), nontrivial=True)
        # start-up: the first query is at the head of a long chain
        compare(cs, main, "start-up query at the head (height %d)" % L)
        # a fork two below the head overtakes it
        f = L - 2
        side = list(main[:f + 1])
        cs2 = cs
        for h in range(f + 1, L + 2):
            b = build(cs2, side[-1], h, 4, None, tag=b"s")
            cs2 = cs2.add_block_no_validation(b)
            side.append(b)
        compare(cs2, side, "new head after the reorganisation (height %d)" % (L + 1))
        compare(cs2, main, "old head, now a side branch")
        order = [L - 1, f, f + 1] + [h for h in round_heights if h <= L] + [999, 500, 1, 0]
        rng.shuffle(order)
        for h in order[:14 if quick else 60]:
            if 0 <= h <= L:
                compare(cs2, main[:h + 1], "main-chain block at height %d" % h)
        compare(cs2, side[:f + 2], "first side-branch block")
        compare(cs, main[:L // 2 + 1], "an earlier snapshot of the state asked about height %d" % (L // 2))
        chk.extra["long_chain"] = {"blocks": L, "spends_at_heights": [h for h in round_heights], "queries": len(events) // 2, "wall_s": round(time.time() - t0, 1)}
        v, r = tracecheck.run("TraceFacts", events, {}, ids=[1], workers=1, timeout=600)
        chk.traces_validated += 1
        chk.states += r.distinct
        for (line, clause) in tlc.tagged(r, "FINDING"):
            chk.violation(clause, {"long_chain_query": events[line - 1]["what"], "blocks": L}, {"clause": clause})
    finally:
        sk.restore_cfg()
