"""C08 on a large store: more than a thousand blocks -- a main chain with a competing sibling at every height, a side branch that overtook the
head and was overtaken again, a few spends -- written to a real BlockStore in batches of many sizes; read back by a fresh connection and
rebuilt by the real start-up path at several sizes of the store (just below / at / above round numbers of rows).  Judged by TLC
(TraceBigStore)."""
import contextlib
import io
import os
import tempfile
import time

from harness import sk, tlc, tracecheck, indep


def stage(chk, quick, rng, pid):
    t0 = time.time()
    sk.restore_cfg()
    cfg = sk.Cfg(**sk.read_real_constants())
    sk.apply_cfg(cfg)
    try:
        import skepticoin.consensus as c
        import skepticoin.blockstore as bs
        import skepticoin.networking.local_peer      # noqa: F401
        import skepticoin.scripts.utils as su
        from skepticoin.coinstate import CoinState
        from skepticoin.datatypes import Block, BlockHeader, BlockSummary, PowEvidence, Transaction, Input, Output, OutputReference
        from skepticoin.signing import SECP256k1PublicKey, SECP256k1Signature
        keys = sk.Keys(4)
        w = sk.World(cfg, keys, tag=b"big")
        g = w.make_genesis(ts=1_600_000_000)
        pks = {k: SECP256k1PublicKey(keys.pub[k]) for k in keys.pub}
        L = 520 if quick else 1100

        def build(cs, parent, h, key, spend=None, tag=b""):
            txs = []
            if spend is not None:
                (ref, out, owner, to) = spend
                unsigned = Transaction([Input(OutputReference(ref[0], ref[1]), SECP256k1Signature(b"\x00" * 64))], [Output(out.value - 1, pks[to]), Output(1, pks[owner])])
                msg = unsigned.signable_equivalent().serialize()
                txs.append(Transaction([Input(OutputReference(ref[0], ref[1]), SECP256k1Signature(keys.sign(owner, msg)))], unsigned.outputs))
            cb = c.construct_coinbase_transaction(h, txs, cs.unspent_transaction_outs_by_hash[parent.hash()], b"b" + tag, pks[key])
            summ = BlockSummary(h, parent.hash(), c.calc_merkle_root_hash([cb] + txs), parent.timestamp + 60, parent.target, 0)
            return Block(BlockHeader(summ, PowEvidence(b"\x00" * 32, b"\x00" * 32, b"\x00" * 32)), [cb] + txs)
        cs = CoinState.empty().add_block_no_validation(g)
        order = []                        # arrival order, parents first
        main = [g]
        rewards = []
        for h in range(1, L + 1):
            spend = None
            if h % 97 == 0 and rewards:
                hh, ref, out, owner = rewards.pop(0)
                spend = (ref, out, owner, 4)
            b = build(cs, main[-1], h, 1 + h % 3, spend)
            sib = build(cs, main[-1], h, 4, None, tag=b"x%d" % h)         # a competing block of the same height that nobody builds on
            first, second = (b, sib) if rng.random() < 0.5 else (sib, b)
            cs = cs.add_block_no_validation(first).add_block_no_validation(second)
            order += [first, second]
            main.append(b)
            if h < 30:
                rewards.append((h, (indep.txid(b.transactions[0]), 0), b.transactions[0].outputs[0], 1 + h % 3))
            if h == L // 2:                                               # a side branch overtakes the head, the main chain takes over again
                side = [main[-4]]
                for hs in range(h - 2, h + 2):
                    sb = build(cs, side[-1], hs, 2, None, tag=b"s")
                    cs = cs.add_block_no_validation(sb)
                    side.append(sb)
                    order.append(sb)
        d = tempfile.mkdtemp(prefix="big_", dir=sk.scratch())
        path = os.path.join(d, "chain.db")
        orig = bs.genesis_block_data
        bs.genesis_block_data = g.serialize()
        try:
            with contextlib.redirect_stdout(io.StringIO()):
                store = bs.BlockStore(path)
        finally:
            bs.genesis_block_data = orig
        alias = {g.hash(): 0}
        for i, b in enumerate(order):
            alias[b.hash()] = i + 1
        # read back when the number of rows in the chain table is around round numbers
        stops = sorted({n + dd for n in (100, 128, 256, 500, 512, 1000, 1024, 2000, 2048) for dd in (-1, 0, 1, 2) if n + dd <= len(order)} | {len(order)})
        if quick:
            stops = [s for s in stops if s >= 998 or s in (256, 257)] or stops[-3:]
        traces = []
        written = {g.hash(): g}
        k = 0
        mem = CoinState.empty().add_block_no_validation(g)
        try:
            while k < len(order):
                nxt = min([s for s in stops if s > k + 1] + [len(order) + 1]) - 1        # rows = blocks + genesis
                step = min(rng.choice([1, 2, 3, 7, 20, 50]), nxt - k) or 1
                for b in order[k:k + step]:
                    store.add_block_to_buffer(b)
                    written[b.hash()] = b
                    mem = mem.add_block_no_validation(b)
                store.flush_blocks_to_disk()
                k += step
                if (k + 1) in stops:
                    with contextlib.redirect_stdout(io.StringIO()):
                        s2 = bs.BlockStore(path)
                    prev = bs.DefaultBlockStore.instance
                    try:
                        blocks = list(s2.read_blocks_from_disk())
                        bs.DefaultBlockStore.instance = s2
                        try:
                            with contextlib.redirect_stdout(io.StringIO()):
                                rebuilt = su.read_chain_from_disk()
                        except Exception as e:
                            rebuilt = None
                            chk.notes.append("large store: read_chain_from_disk raised %r" % e)
                    finally:
                        bs.DefaultBlockStore.instance = prev
                        s2.close()
                    rd = []
                    for b in blocks:
                        wb = written.get(b.hash())
                        rd.append([alias.get(b.hash(), -1), wb is not None and indep.enc_block(b) == indep.enc_block(wb) and indep.blockid(b) == b.hash()])
                    leq = rebuilt is not None and set(rebuilt.block_by_hash.keys()) == set(written.keys())
                    if leq:
                        for hsh in list(written.keys())[-40:] + list(written.keys())[:5]:
                            if dict(rebuilt.unspent_transaction_outs_by_hash[hsh].items()) != dict(mem.unspent_transaction_outs_by_hash[hsh].items()):
                                leq = False
                    try:
                        hh = rebuilt.head().height == max(b.height for b in written.values())
                    except Exception:
                        hh = False
                    traces.append({"id": len(traces) + 1, "rows": k + 1,
                                   "written": [[alias[b.hash()], alias.get(b.header.summary.previous_block_hash, -1)] for b in written.values()],
                                   "read": rd, "ledger_equal": leq, "head_height_equal": hh})
                    chk.case(("bigstore", k + 1), nontrivial=True)
        finally:
            store.close()
        v, r = tracecheck.run("TraceBigStore", traces, {}, ids=[t["id"] for t in traces], workers=4, timeout=1800)
        chk.traces_validated += len(traces)
        chk.states += r.distinct
        for t_id, (clause, line) in v.items():
            if clause != "ok":
                chk.violation(clause, {"large_store_rows": traces[t_id - 1]["rows"], "blocks_written": len(traces[t_id - 1]["written"]), "blocks_read": len(traces[t_id - 1]["read"])},
                              {"clause": clause})
        chk.extra["large_store"] = {"blocks": len(order) + 1, "read_back_at_rows": [t["rows"] for t in traces], "wall_s": round(time.time() - t0, 1)}
    finally:
        sk.restore_cfg()
