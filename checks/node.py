"""C09, C12, C13: Node.tla / MC_Node.tla / TraceNode.tla.

(a) TLC explores every delivery sequence over a universe of candidate blocks and transactions (MC_Node), checking the
    P predicates; with the pinned ordering switches (SaveBeforeApply) it produces the counterexamples of F-C09.
(b) Behaviours of MC_Node are replayed into a real LocalPeer through the production entry point with the real store;
(c) randomized delivery mixes (valid blocks on any fork, duplicates, orphans, every rejection class) and, for C12, a real
    MinerWatcher driven through its two handlers with the network thread's deliveries interleaved;
(d) TLC judges every recorded step (TraceNode).
"""
import json
import random

from harness import tlc, sk, tracecheck, node_drv, store_drv, indep, ledger_drv
from harness.common import Check, seed, machinery_failure
from checks.store import cb, tx, blk
from checks.ledger import RandomTree, TX_MUTS, HDR_MUTS

MODEL_CFG = dict(period=1000, timespan=4, initial_subsidy=8, halving=2, max_money=30)
PEERS = ["p", "q", "r"]


def ledger_consts(cfg, focus, save_before_apply, handover_before_add):
    return {"Period": cfg.period, "Timespan": cfg.timespan, "W": 32, "MaxFuture": cfg.max_future,
            "InitialSubsidy": cfg.initial_subsidy, "HalvingInterval": cfg.halving, "MaxMoney": min(cfg.max_money, 2 ** 31 - 1), "RulesOff": set(),
            "Horizon": ("<-", "HorizonT"), "Known": ("<-", "KnownT0"), "Peers": set(PEERS), "IbdSkip": 10000,
            "SaveBeforeApply": save_before_apply, "HandOverBeforeAdd": handover_before_add}


EXTRA = "HorizonT == 0 - 1\nKnownT0 == [h \\in {} |-> 0]\n"


def universe_descs():
    """Candidate blocks (MC_Ledger descriptor format) and transactions for MC_Node."""
    B = [
        blk(1, 0, 1, [cb(1, 1, 8)]),                                                   # a1
        blk(2, 1, 2, [cb(2, 2, 4), tx(21, [(0, 0, 1)], [(3, 2), (5, 1)])]),            # a2 spends the genesis reward
        blk(3, 0, 1, [cb(3, 1, 8, k=2)]),                                              # b1 (fork)
        blk(4, 3, 2, [cb(4, 2, 4, k=2)]),                                              # b2
        blk(5, 4, 3, [cb(5, 3, 4, k=2), tx(51, [(30, 0, 2)], [(8, 1)])]),              # b3: reorganisation when it arrives
        dict(blk(6, 1, 2, [cb(6, 2, 4)]), merkleok=False, mut="merkle"),               # fails a by-itself rule
        blk(7, 1, 2, [cb(7, 2, 5)]),                                                   # reward + 1: fails in state
        blk(8, 1, 2, [cb(8, 2, 4), dict(tx(81, [(9001, 0, -1)], [(3, 1)]), mut="ghost")]),      # passes by itself, cannot be applied
        blk(9, 2, 3, [cb(9, 3, 4), dict(tx(91, [(0, 0, -1)], [(8, 1)]), mut="spent")]),          # spends an output already spent on its chain
        dict(blk(10, 7777, 5, [cb(10, 5, 2)]), mut="orphan"),                          # unknown parent
    ]
    T = [tx(1001, [(0, 0, 1)], [(8, 2)]),                 # valid while the genesis reward is unspent; conflicts with a2's transaction
         tx(1002, [(10, 0, 1)], [(7, 1)]),                # spends a1's reward (valid once a1 is on the active chain), fee 1
         dict(tx(1003, [(0, 0, 2)], [(8, 2)]), mut="wrongkey"),   # signed by the wrong key
         tx(1004, [(0, 0, 1)], [(4, 1), (4, 2)])]         # conflicts with 1001
    return B, T


def build_universe(cfg, keys):
    w = sk.World(cfg, keys)
    g = w.make_genesis()
    B, T = universe_descs()
    blocks = {}
    for d in B:
        owners = {pos: {0: 1} for pos in range(len(d["txs"]))}
        blocks[d["id"]] = w.concretise(d, owners=owners)
    txs = {}
    for t in T:
        td = dict(t, _owner={0: 1})
        txs[t["id"]] = w.concretise_tx(td)
    return w, g, blocks, txs


def netmsg_frame_block(block, mid, ts):
    from harness import netmsg
    from skepticoin.networking.messages import DataMessage, DATA_BLOCK
    return netmsg.frame(netmsg.body(DataMessage(DATA_BLOCK, block), mid, 0, ts=ts))


def to_ledger_blk(obs):
    """Observed block (TraceLedger JSON form) -> Ledger.tla record literal (powok precomputed)."""
    d = dict(obs)
    d["powok"] = bytes(obs["idb"]) < bytes(obs["target"])
    d.pop("idb")
    return d


class NodeRec:
    """Adapter so that checks.ledger.RandomTree drives a node instead of a bare CoinState."""

    def __init__(self, run, rng, ibd_p=0.0, fetch_p=0.0):
        self.run = run
        self.rng = rng
        self.ibd_p = ibd_p          # probability that a block arrives as the answer to a request (bulk download: in_response_to != 0)
        self.fetch_p = fetch_p      # probability that the node has just asked its peers for blocks (GetBlocks outstanding) when a block is pushed
        self.force_irt = None

    @property
    def cs(self):
        return self.run.node.chain()

    def add(self, block, now, validated=True, label=None):
        run = self.run
        openp = [p for p in run.peers if run.node.is_open(p)]
        if not openp:
            return "rej"
        run.clock.t = now
        before = set(run.node.chain().block_by_hash.keys())
        irt = self.force_irt if self.force_irt is not None else (77 if self.rng.random() < self.ibd_p else 0)
        if self.fetch_p and self.rng.random() < self.fetch_p:
            # the chain manager's periodic resync: GetBlocks to some peer, whose answer is still outstanding when the next block is pushed
            cm = run.node.local.chain_manager
            for _ in range(3):
                try:
                    cm.step((int(now) // 60 + 1) * 60)
                except Exception as e:
                    run.node.escaped.append(("chain_manager.step", repr(e)))
            run.node.pump_writes()
            for p_ in openp:
                run.node.take_sent(p_)
        peer_ = self.rng.choice(openp)
        if getattr(self, "advertise_p", 0) and irt == 0 and self.rng.random() < self.advertise_p:
            run.advertise(peer_, block)          # the peer lists the hash first, the node asks for it, then the block is pushed
        run.deliver_block(peer_, block, irt=irt, label=label)
        after = run.node.chain().block_by_hash
        if getattr(self, "assume_valid", False) and block.hash() not in before and isinstance(label, dict) and label.get("mut", "x") == "":
            return "ok"             # every offered block is valid by construction: later blocks are built on it whatever the node did with it
        return "ok" if block.hash() in after and block.hash() not in before else "rej"


def probe_switches(cfg, keys):
    """Which statement order does the tree have? (M-layer constants only.)"""
    w, g, blocks, txs = build_universe(cfg, keys)
    run = node_drv.NodeRun(w, g, peers=PEERS)
    try:
        run.deliver_block("p", blocks[1])
        run.deliver_block("q", blocks[8])
        save_before_apply = len(run.node.buffer_ids()) > 0
    finally:
        run.close()
    w, g, blocks, txs = build_universe(cfg, keys)
    run = node_drv.NodeRun(w, g, peers=PEERS)
    try:
        run.miner()
        handover = None
        for nonce in range(400):
            run.mine_request(nonce)
            if run.mine_output():
                handover = run.found.hash() not in run.node.chain().block_by_hash
                break
    finally:
        run.close()
    return save_before_apply, bool(handover)


def judge(chk, traces, runs, consts, workers=4):
    if not traces:
        return
    ids = [t["id"] for t in traces]
    verdicts, r = tracecheck.run("TraceNode", traces, consts, ids=ids, workers=workers, timeout=3000, extra_defs=EXTRA)
    chk.states += r.distinct
    chk.transitions += r.generated
    chk.traces_validated += len(traces)
    by = {t["id"]: (t, run) for t, run in zip(traces, runs)}
    foreign = chk.extra.setdefault("verdicts_of_other_properties", {})

    def report(tid, line, clause):
        t, labels = by[tid]
        if clause.startswith("machinery"):
            raise tlc.MachineryError("trace %s event %s: %s" % (tid, line, clause))
        if not clause.startswith(chk.pid + ":"):
            foreign[clause] = foreign.get(clause, 0) + 1
            return
        ev = t["events"][line - 1]
        small = {k: v for k, v in ev.items() if k != "blk"}
        chk.violation(clause, {"trace_id": tid, "failing_event": line, "labels": labels, "event": small,
                               "block": ev.get("blk")}, {"clause": clause})
    for (tid, line, clause) in tlc.tagged(r, "FINDING"):
        report(tid, line, clause)
    for tid, (clause, line) in verdicts.items():
        if clause not in ("ok", "inconclusive"):
            report(tid, line, clause)
    for dft in tlc.tagged(r, "DRIFT"):
        chk.model_drift("trace %s event %s: %s" % tuple(dft[:3]))


def run(pid, tier, replay=None):
    chk = Check(pid, tier)
    quick = tier != "thorough"
    rng = random.Random(seed() * 31 + int(pid[1:]))
    sk.setup()
    cfg = sk.Cfg(**MODEL_CFG)
    sk.apply_cfg(cfg)
    keys = sk.Keys(3)
    sba, hba = probe_switches(cfg, keys)
    chk.notes.append("tree: block is buffered for the store %s it is applied; miner hands over its state %s adding the found block"
                     % ("before" if sba else "after", "before" if hba else "after"))
    consts = ledger_consts(cfg, {pid}, sba, hba)
    consts["Focus"] = {pid}
    traces, labels = [], []
    tid = 0

    if pid in ("C09", "C13"):
        # ---- (a) design level on the universe
        w, g, blocks, txs = build_universe(cfg, keys)
        ub = {i: to_ledger_blk(w.observe(blocks[i])) for i in blocks}
        ut = {i: w.observe_tx(txs[i]) for i in txs}
        gen = to_ledger_blk(w.observe(g))
        defs = EXTRA + "UBlocksDef == %s\nUTxsDef == %s\nGenesisDef == %s\n" % (store_drv.tla(ub), store_drv.tla(ut), store_drv.tla(gen))
        mcc = {k: v for k, v in consts.items() if k != "Focus"}
        mcc.update({"UBlocks": ("<-", "UBlocksDef"), "UTxs": ("<-", "UTxsDef"), "GenesisB": ("<-", "GenesisDef"),
                    "Now": 1000, "MaxSteps": 4 if quick else 5, "EmitHist": False, "Peers": {"p", "q"}, "Irts": {0}})
        invs = ["I_C13_PoolValid", "I_C13_PoolCompatible", "I_C09_StoreNotImpaired", "I_C09_BufferOnlyServed", "I_C09_RowsOnlyServed",
                "I_C09_RelayAtMostOnce", "I_C09_AcceptedStored", "I_C09_ServedValid"]
        fixed = dict(mcc, SaveBeforeApply=False)
        r = tracecheck.model("MC_Node", "Spec", fixed, workers=16, timeout=2400, extra_defs=defs, view="View", invariants=invs)
        tlc.require_clean(r, "MC_Node")
        chk.add_tlc("MC_Node (10 candidate blocks x 4 transactions x 2 peers, every delivery sequence of length <= %d), buffer-after-apply" % mcc["MaxSteps"],
                    r, constants="universe: " + json.dumps([d["mut"] or "valid" for d in universe_descs()[0]]))
        if r.violated:
            return machinery_failure(pid, "MC_Node violates %s" % r.violated)
        rw = tracecheck.model("MC_Node", "Spec", dict(mcc, SaveBeforeApply=True, MaxSteps=4), workers=16, timeout=1200, extra_defs=defs,
                              view="View", invariants=["I_C09_StoreNotImpaired", "I_C09_BufferOnlyServed"])
        chk.add_tlc("MC_Node witness run: buffer-before-apply ordering (F-C09) must break the store invariants", rw,
                    expect_violation="I_C09_BufferOnlyServed / I_C09_StoreNotImpaired")
        if not rw.violated:
            return machinery_failure(pid, "vacuity: the buffer-before-apply ordering does not violate the store invariants in the model")
        # bulk download at design level: blocks also arrive as answers to requests and are then validated only at even heights; a
        # validated block that fails rolls back to the last validated state.  (Unvalidated blocks may be invalid -- by design -- so
        # only the pool and store invariants are claimed here.)
        ri = tracecheck.model("MC_Node", "Spec", dict(fixed, Irts={0, 1}, IbdSkip=2, Peers={"p"}, MaxSteps=4), workers=16, timeout=1500,
                              extra_defs=defs, view="View", invariants=["I_C13_PoolValid", "I_C13_PoolCompatible", "I_C09_StoreNotImpaired", "I_C09_RowsOnlyServed"])
        if getattr(ri, "timed_out", False):
            chk.notes.append("MC_Node bulk-download run: time box reached without a violation")
        else:
            tlc.require_clean(ri, "MC_Node bulk download")
            chk.add_tlc("MC_Node with bulk-download deliveries (in_response_to in {0,1}, validation at even heights only, 1 peer, <= 4 deliveries)", ri)
            if ri.violated:
                return machinery_failure(pid, "MC_Node (bulk download) violates %s" % ri.violated)
        # ---- (b) spec -> code
        rg = tracecheck.model("MC_Node", "Spec", dict(fixed, EmitHist=True, MaxSteps=4), workers=1, timeout=1200, extra_defs=defs,
                              view="View", invariants=["I_Emit"])
        tlc.require_clean(rg, "MC_Node gen")
        hists = [h for h in tlc.tagged_json(rg, "HIST") if h]
        if len(hists) < 100:
            return machinery_failure(pid, "only %d behaviours from MC_Node" % len(hists))
        chk.states += rg.distinct
        nrep = 150 if quick else 1500
        if len(hists) > nrep:
            hists = rng.sample(hists, nrep)
        for h in hists:
            w2, g2, blocks2, txs2 = build_universe(cfg, keys)
            tid += 1
            run_ = node_drv.NodeRun(w2, g2, peers=PEERS, tid=tid)
            try:
                for s in h:
                    if s["op"] == "block":
                        run_.deliver_block(s["peer"], blocks2[s["i"]], label=s)
                    else:
                        run_.deliver_tx(s["peer"], txs2[s["i"]], label=s)
                if run_.events:
                    traces.append(run_.trace())
                    labels.append(h)
                chk.case(json.dumps(h), nontrivial=len(h) >= 2)
            finally:
                run_.close()
        chk.sample({"source": "MC_Node behaviour", "deliveries": hists[0]})

        # ---- (c) randomized mixes
        n, steps = (25, 14) if quick else (300, 30)
        # every third run is a bulk download: blocks also arrive as answers to requests (in_response_to != 0) and are then validated only
        # at every 3rd height (IBD_VALIDATION_SKIP patched to 3); a validated block that fails rolls the node back to its last validated state
        import skepticoin.networking.remote_peer as rp_
        real_skip = rp_.IBD_VALIDATION_SKIP
        traces_i, labels_i = [], []
        for i in range(n):
            ibd = i % 3 == 2
            rp_.IBD_VALIDATION_SKIP = 3 if ibd else real_skip
            w3 = sk.World(cfg, keys, tag=b"n%d" % i)
            g3 = w3.make_genesis(ts=5000)
            tid += 1
            run_ = node_drv.NodeRun(w3, g3, peers=PEERS, tid=tid, clock0=5000)
            try:
                rec = NodeRec(run_, rng, ibd_p=0.5 if ibd else 0.0)
                rt = RandomTree(w3, rec, rng, nkeys=3, p_mut=0.45 if pid == "C09" else (0.3 if ibd else 0.15))
                lab = []
                held = []
                pend_desc = []
                if ibd and i % 2 == 1:
                    # scripted opening: a requested block is applied unvalidated, a transaction spends an output it created, then a
                    # broadcast block that passes the by-itself rules but not the in-state rules rolls the head back
                    head_abs = rt.stored[-1]
                    rec.force_irt = 77
                    res, m = rt.step(force="", parent=head_abs)
                    rec.force_irt = None
                    lab.append(["block_ibd", m, res])
                    if res == "ok":
                        new_abs = rt.stored[-1]
                        before_rows = set(map(tuple, rt.utxo_of(head_abs)))
                        rows = [r for r in rt.utxo_of(new_abs) if tuple(r) not in before_rows]
                        t = rt.valid_tx(rows, 40000 + i * 100, set())
                        openp = [p for p in run_.peers if run_.node.is_open(p)]
                        if t is not None and openp:
                            td = {k_: v for k_, v in t.items() if k_ not in ("_pick", "_fee")}
                            td.setdefault("_owner", {0: t["ins"][0]["signer"] if t["ins"] else 1})
                            ctx = w3.concretise_tx(td)
                            run_.deliver_tx(rng.choice(openp), ctx, label="spends_unvalidated_output")
                            lab.append(["tx", "spends_unvalidated_output"])
                            held.append(ctx)
                        res, m = rt.step(force=rng.choice(["reward+1", "ts_equal", "badtarget"]), parent=new_abs)
                        lab.append(["block", m, res])
                for k in range(steps):
                    # after a roll-back the node no longer holds the unvalidated blocks: build only on what it serves
                    rt.stored = [a for a in rt.stored if w3.by_abs[a].hash() in run_.node.chain().block_by_hash]
                    def shared_tx():
                        # a transaction contained in two stored blocks is read back in the first one only (F-C08, C08's recorded finding):
                        # histories that contain one are not restarted here
                        seen_ = set()
                        for b_ in run_.node.chain().block_by_hash.values():
                            for t_ in b_.transactions:
                                h_ = t_.hash()
                                if h_ in seen_:
                                    return True
                                seen_.add(h_)
                        return False
                    if k > 2 and rng.random() < 0.07 and not shared_tx():
                        # the node process dies and is started again on its store (read_chain_from_disk, NetworkingThread start-up)
                        run_.restart()
                        lab.append(["restart"])
                        pend_desc = []
                        rt.stored = [a for a in rt.stored if w3.by_abs[a].hash() in run_.node.chain().block_by_hash]
                        continue
                    act = rng.random()
                    if held and rng.random() < 0.15:          # an earlier transaction is submitted again (a lagging peer re-broadcasts it)
                        openp = [p for p in run_.peers if run_.node.is_open(p)]
                        if openp:
                            run_.deliver_tx(rng.choice(openp), rng.choice(held), label="resubmitted")
                            lab.append(["tx", "resubmitted"])
                        continue
                    if pend_desc and rng.random() < 0.18:
                        # a block that contains a transaction which is pending right now -- valid, or failing a rule in state (the pending
                        # pool must be as it was after a rejection), delivered on the head
                        head_abs = [a for a in rt.stored if w3.by_abs[a].hash() == run_.node.chain().current_chain_hash]
                        live = [(ctx_, t_) for (ctx_, t_, base_) in pend_desc if ctx_ in run_.node.pool() and head_abs and base_ == head_abs[0]]
                        if live:
                            ctx_, t_ = rng.choice(live)
                            force = rng.choice(["", "reward+1", "reward+5", "ts_equal", "badtarget"])
                            res, m = rt.step(force=force, parent=head_abs[0], include=[t_])
                            lab.append(["block_with_pending_tx", force or "valid", res])
                            continue
                    if act < 0.55 or pid == "C09" and act < 0.8:
                        res, m = rt.step()
                        lab.append(["block", m, res])
                        if res == "ok" and rng.random() < 0.3:          # duplicate delivery by another peer
                            b = w3.by_abs[rt.stored[-1]]
                            openp = [p for p in run_.peers if run_.node.is_open(p)]
                            if openp:
                                run_.deliver_block(rng.choice(openp), b, label="dup")
                                lab.append(["dup"])
                    else:
                        # a transaction on the current head (valid, conflicting, malformed) or on another fork
                        head_abs = [a for a in rt.stored if w3.by_abs[a].hash() == run_.node.chain().current_chain_hash]
                        base = head_abs[0] if head_abs and rng.random() < 0.8 else rng.choice(rt.stored)
                        rows = rt.utxo_of(base)
                        sweep = rng.random() < 0.2
                        t = rt.valid_tx(rows, 50000 + i * 100 + k, set(), sweep=sweep) or (rt.valid_tx(rows, 50000 + i * 100 + k, set()) if sweep else None)
                        if t is None:
                            continue
                        mname = ""
                        if sweep and rng.random() < 0.7 and rt.mutate_tx(t, "sig_later", base, 0) is not None:
                            mname = "sig_later"
                            t = rt.mutate_tx(t, "sig_later", base, 0)
                        elif rng.random() < 0.35:
                            mname = rng.choice(["wrongkey", "sig_outs", "overspend", "zeroout", "overmax", "dupin", "blank", "ghost", "noouts", "nullref"])
                            t2 = rt.mutate_tx(t, mname, base, 0)
                            t = t2 or t
                        td = {k_: v for k_, v in t.items() if k_ not in ("_pick", "_fee")}
                        td.setdefault("_owner", {0: t["ins"][0]["signer"] if t["ins"] else 1})
                        ctx = w3.concretise_tx(td)
                        openp = [p for p in run_.peers if run_.node.is_open(p)]
                        if openp:
                            run_.deliver_tx(rng.choice(openp), ctx, label=mname or "valid")
                            lab.append(["tx", mname or "valid"])
                            held.append(ctx)
                            if not mname:
                                pend_desc.append((ctx, t, base))
                            if rng.random() < 0.2 and [p for p in run_.peers if run_.node.is_open(p)]:
                                run_.deliver_tx(rng.choice([p for p in run_.peers if run_.node.is_open(p)]), ctx, label="dup")
                if run_.events:
                    (traces_i if ibd else traces).append(run_.trace())
                    (labels_i if ibd else labels).append(lab)
                chk.case(json.dumps([ibd, lab]), nontrivial=True)
            finally:
                run_.close()
                rp_.IBD_VALIDATION_SKIP = real_skip
        for k in range(0, len(traces_i), 120):
            judge(chk, traces_i[k:k + 120], labels_i[k:k + 120], dict(consts, IbdSkip=3))
        chk.sample({"source": "randomized delivery mix", "steps": labels[-1][:10]})
        chk.sample({"source": "randomized delivery mix, bulk download", "steps": labels_i[-1][:10]})
        chk.extra["rule"] = ("behaviour = sequence of block/transaction deliveries to one node with the real store: MC_Node behaviours (path cover of the "
                             "state graph, sampled) and randomized mixes (valid blocks on any fork, duplicates, orphans, every rejection class incl. blocks "
                             "that cannot be applied; valid/conflicting/malformed transactions interleaved with head changes); non-trivial = at least 2 deliveries")

    elif pid == "C12":
        # ---- (a) design level: the miner interleaved with the network thread and the clock (MC_Miner)
        w, g, blocks, txs = build_universe(cfg, keys)
        ub = {i: to_ledger_blk(w.observe(blocks[i])) for i in (1, 2, 3, 4)}
        ut = {i: w.observe_tx(txs[i]) for i in (1001, 1002)}
        defs = EXTRA + "UBlocksDef == %s\nUTxsDef == %s\nGenesisDef == %s\n" % (store_drv.tla(ub), store_drv.tla(ut), store_drv.tla(to_ledger_blk(w.observe(g))))
        mcc = {k: v for k, v in consts.items() if k != "Focus"}
        mcc.update({"UBlocks": ("<-", "UBlocksDef"), "UTxs": ("<-", "UTxsDef"), "GenesisB": ("<-", "GenesisDef"), "Ticks": {1, 5},
                    "MaxSteps": 5 if quick else 6, "MinerKey": 3, "Peers": {"p", "q"}, "SaveBeforeApply": False, "HandOverBeforeAdd": False,
                    "ClockOffsets": ("<-", "OffsDef")})
        invs = ["I_C12_FoundBlockValid", "I_C12_RewardExact", "I_C13_PoolValid", "I_C09_StoreNotImpaired"]
        r = tracecheck.model("MC_Miner", "Spec", mcc, invariants=invs, properties=["A_C12_AdoptedStep"], workers=16, timeout=2400, view="View",
                             extra_defs=defs + "OffsDef == {5, 0 - 20}\n")
        tlc.require_clean(r, "MC_Miner")
        chk.add_tlc("MC_Miner (miner request/found interleaved with deliveries of 4 blocks + 2 transactions and clock ticks, <= %d steps, clock 20 s behind .. 5 s ahead of genesis)" % mcc["MaxSteps"], r)
        if r.violated or getattr(r, "timed_out", False):
            return machinery_failure(pid, "MC_Miner: %s" % (r.violated or "timed out"))
        rw = tracecheck.model("MC_Miner", "Spec", mcc, invariants=["I_C12_FoundBlockValid"], workers=8, timeout=900, view="View",
                              extra_defs=defs + "OffsDef == {0 - 30}\n")
        chk.add_tlc("MC_Miner witness run for known finding F-C12b: clock 30 s behind the head's timestamp", rw, expect_violation="I_C12_FoundBlockValid")
        if not rw.violated:
            chk.notes.append("the model no longer exhibits F-C12b (head at the future limit)")
        rh = tracecheck.model("MC_Miner", "Spec", dict(mcc, HandOverBeforeAdd=True, MaxSteps=4), properties=["A_C12_AdoptedStep"], workers=8, timeout=900, view="View",
                              extra_defs=defs + "OffsDef == {5}\n")
        chk.add_tlc("MC_Miner witness run: hand-over-before-add ordering (F-C12a, fixed in the tree) must violate adoption", rh, expect_violation="A_C12_AdoptedStep")
        if not rh.violated:
            return machinery_failure(pid, "vacuity: the hand-over-before-add ordering does not violate adoption in the model")
        n = 40 if quick else 500
        # every third run uses a 3-block retarget period, so that candidates are assembled on retarget boundaries (on either side of forks)
        cfg_b = sk.Cfg(**dict(MODEL_CFG, period=3))
        traces_b, labels_b = [], []
        for i in range(n):
            cfg_i = cfg_b if i % 3 == 2 else cfg
            sk.apply_cfg(cfg_i)
            w3 = sk.World(cfg_i, keys, tag=b"m%d" % i)
            g3 = w3.make_genesis(ts=5000)
            tid += 1
            run_ = node_drv.NodeRun(w3, g3, peers=PEERS, tid=tid, clock0=5000)
            try:
                rec = NodeRec(run_, rng)
                rt = RandomTree(w3, rec, rng, nkeys=3, p_mut=0.0)
                lab = []
                for _ in range(rng.randint(0, 4)):          # some chain first (forks possible)
                    rt.step()
                run_.miner()
                for round_ in range(3 if quick else 5):
                    # the miner's hand-over replaces the served state with its own copy plus the found block: a block the network
                    # thread added in between is no longer in memory (TraceNode follows that replacement) -- build only on what is there
                    rt.stored = [a for a in rt.stored if w3.by_abs[a].hash() in run_.node.chain().block_by_hash]
                    # pool content: 0..3 admissible transactions with arbitrary fees
                    head_abs = [a for a in rt.stored if w3.by_abs[a].hash() == run_.node.chain().current_chain_hash][0]
                    used = set()
                    pending = []
                    for k in range(rng.randint(0, 3)):
                        t = rt.valid_tx(rt.utxo_of(head_abs), 60000 + i * 100 + round_ * 10 + k, used)
                        if t is None:
                            break
                        td = {k_: v for k_, v in t.items() if k_ not in ("_pick", "_fee")}
                        openp = [p for p in run_.peers if run_.node.is_open(p)]
                        if openp:
                            run_.deliver_tx(rng.choice(openp), w3.concretise_tx(td), label="pool")
                            pending.append(t)
                    # a block that already contains one of the pending transactions extends the head -- as a relayed block or as the answer
                    # to a request during a re-synchronisation (bulk download, not validated individually): the miner's next candidate is
                    # assembled from the new head and whatever is pending then
                    if pending and rng.random() < 0.4:
                        rec.force_irt = rng.choice([0, 77, 77])
                        try:
                            res, m = rt.step(force="", parent=head_abs, include=[rng.choice(pending)])
                        finally:
                            rec.force_irt = None
                        lab.append(["head_extended_by_a_block_with_a_pending_tx", res])
                        heads_ = [a for a in rt.stored if w3.by_abs[a].hash() == run_.node.chain().current_chain_hash]
                        if heads_:
                            head_abs = heads_[0]
                    # fault: one connection's descriptor dies while it is still registered (the broadcast must survive it)
                    if rng.random() < 0.25:
                        alive = [p for p in run_.peers if run_.node.is_open(p)]
                        if len(alive) >= 2:
                            victim = rng.choice(alive[:-1])
                            run_.node.take_sent(victim)
                            run_.node.hard_close(victim)
                            lab.append(["peer_descriptor_dies", victim])
                    head_ts = run_.node.chain().head().timestamp
                    # clock relative to the head's timestamp: far behind ... ahead
                    off = rng.choice([-31, -30, -29, -5, -1, 0, 1, 2, 50])
                    run_.clock.t = head_ts + off
                    found = False
                    interleave = rng.random() < 0.3
                    if round_ == 0 and i % 2 == 0:
                        # stale view, deterministically: the miner has asked once (its own copy of the chain state is the old head), the
                        # network thread then extends the head, and the clock is not ahead of the new head's timestamp
                        run_.clock.t = max(head_ts - 20, 1)
                        if run_.mine_request(rng.randrange(1 << 20)) is None:
                            lab.append(["request_raised", 0])
                            break
                        res, m = rt.step(force="", parent=head_abs)
                        lab.append(["net_extends_head_after_a_request", res])
                        head_ts = run_.node.chain().head().timestamp
                        off = rng.choice([-5, -1, 0])
                        run_.clock.t = head_ts + off
                        interleave = False
                    for nonce in range(rng.randrange(1 << 20), (1 << 20) + 4000):
                        if run_.mine_request(nonce) is None:
                            lab.append(["request_raised", off])
                            break
                        if interleave and not found and rng.random() < 0.5:
                            # the network thread advances the served state between request and result
                            res, m = rt.step()
                            lab.append(["net_advance", res])
                            interleave = False
                            run_.clock.t = max(run_.clock.t, head_ts + off)
                        if run_.mine_output(label={"clock_minus_head_ts": off}):
                            found = True
                            lab.append(["found", off])
                            cand = run_.found
                            if cand.hash() in run_.node.chain().block_by_hash:
                                rt.stored.append(rt.next_id)
                                w3.by_abs[rt.next_id] = cand
                                rt.ts[rt.next_id] = cand.timestamp
                                rt.height[rt.next_id] = cand.height
                                for pos, t_ in enumerate(cand.transactions):
                                    rt._index_tx(rt.next_id * 10 + pos, t_)
                                    w3.tx_by_abs[rt.next_id * 10 + pos] = t_
                                rt.next_id += 1
                            break
                    if not found:
                        lab.append(["not_found", off])
                if run_.events:
                    (traces_b if cfg_i is cfg_b else traces).append(run_.trace())
                    (labels_b if cfg_i is cfg_b else labels).append(lab)
                chk.case(json.dumps([cfg_i.period, lab]), nontrivial=any(x[0] == "found" for x in lab))
            finally:
                run_.close()
        sk.apply_cfg(cfg)
        consts_b = dict(consts, Period=cfg_b.period)
        for k in range(0, len(traces_b), 120):
            judge(chk, traces_b[k:k + 120], labels_b[k:k + 120], consts_b)
        chk.sample({"source": "real MinerWatcher driven through its handlers", "steps": labels[0]})
        chk.extra["rule"] = ("behaviour = chain state (forks possible) x pool content (0-3 transactions, fees 0/1) x clock offset relative to the head's timestamp "
                             "{-31..+50 s} x optional delivery between request and result; a real MinerWatcher handles request and scrypt result; "
                             "non-trivial = a block was found")
    else:
        return machinery_failure(pid, "unknown property for the node family")

    B = 120
    for k in range(0, len(traces), B):
        judge(chk, traces[k:k + B], labels[k:k + B], consts)
    if pid == "C13":
        # ---- the wallet's send script runs next to the node's pool: its real main() with a real (unstarted) NetworkingThread; while it waits
        #      for a fresh chain the network thread adopts a block that spends the very output the wallet is about to use (an earlier session's
        #      spend got confirmed) -- or nothing happens.  Whatever the script does, the pending pool of its node holds only transactions that
        #      are valid at the node's head.
        from harness import scripts_drv
        from skepticoin.humans import human
        import json as _json
        import os as _os
        sk.apply_cfg(cfg)
        keys_s = sk.Keys(6)
        facts = []
        for variant in ("chain_moves_on_while_waiting", "nothing_happens"):
            w_s, g_s, blocks_s, txs_s = build_universe(cfg, keys_s)
            cs_s = w_s.T["CoinState"].empty().add_block_no_validation(g_s).add_block_no_validation(blocks_s[1])
            spent_elsewhere = w_s.concretise(blk(60, 1, 2, [cb(60, 2, 4), tx(601, [(0, 0, 1)], [(8, 3)])]), owners={1: {0: 1}})
            cs_next = cs_s.add_block_no_validation(spent_elsewhere)

            def advance(local_peer, cs_next=cs_next):
                local_peer.chain_manager.set_coinstate(cs_next)
            evs, killed, code, raised, nkeys = scripts_drv.run("send", keys_s, cs_s, ["3", "sashimi", "SKE" + human(keys_s.pub[6]) + "PTI"], 0,
                                                               advance=advance if variant == "chain_moves_on_while_waiting" else None)
            try:
                rep = _json.load(open(_os.path.join(scripts_drv.run.last_dir, "pool.json")))
            except Exception:
                rep = None
            if rep is None:
                chk.notes.append("send script (%s): no report of the pool (%s)" % (variant, raised))
                continue
            facts.append({"clause": "C13:pending_transaction_not_valid_at_head", "holds": rep["not_valid_at_head_or_conflicting"] == 0,
                          "what": "send script, %s: %s" % (variant, rep)})
            chk.case(("send_script_pool", variant), nontrivial=True)
        # an operating-system fault at the point where a refused transaction is dumped for debugging (a full /tmp): whatever happens to the
        # connection, the transaction is not admitted
        w_d, g_d, blocks_d, txs_d = build_universe(cfg, keys_s)
        run_d = node_drv.NodeRun(w_d, g_d, peers=PEERS, tid=940000, clock0=5000)
        try:
            run_d.deliver_block("p", blocks_d[1])

            def failing_dump(tx_):
                raise OSError(28, "No space left on device")
            run_d.node.disk.save_transaction_for_debugging = failing_dump
            pool0 = [t_.hash() for t_ in run_d.node.pool()]
            for tname in (1003, 1001, 1004):          # signed by the wrong key; valid; conflicts with the valid one
                peer_ = [p_ for p_ in run_d.peers if run_d.node.is_open(p_)]
                if not peer_:
                    break
                run_d.deliver_tx(peer_[0], txs_d[tname], label="dump_fails_%d" % tname)
            pool1 = run_d.node.pool()
            bad_ = [t_ for t_ in pool1 if t_.hash() in (txs_d[1003].hash(), txs_d[1004].hash())]
            facts.append({"clause": "C13:invalid_or_conflicting_transaction_admitted", "holds": not bad_,
                          "what": "refused transactions while the debugging dump fails with ENOSPC: %d of them pending afterwards" % len(bad_)})
            chk.case(("dump_fails",), nontrivial=True)
        finally:
            run_d.close()
        if facts:
            vf, rf = tracecheck.run("TraceFacts", facts, {}, ids=[1], workers=1, timeout=300)
            chk.traces_validated += 1
            for (line, clause) in tlc.tagged(rf, "FINDING"):
                chk.violation(clause, {"run": facts[line - 1]["what"]}, {"clause": clause})
        # ---- admission of a transaction on one thread while another thread replaces the chain state (PoolLock): design level, then
        #      preemption-point exploration on real threads (A = add_transaction_to_pool stopped before every line of manager.py,
        #      B = set_coinstate with a head that spends the transaction's input)
        sk.apply_cfg(cfg)
        rp_ = tracecheck.model("PoolLock", "Spec", {"LockScope": "whole"}, invariants=["I_C13_PoolValidAtHead"], workers=2, timeout=300)
        tlc.require_clean(rp_, "PoolLock")
        chk.add_tlc("PoolLock (admission vs. state replacement under the chain manager's lock, every interleaving)", rp_)
        if rp_.violated:
            return machinery_failure(pid, "PoolLock violates %s" % rp_.violated)
        rn_ = tracecheck.model("PoolLock", "Spec", {"LockScope": "append"}, invariants=["I_C13_PoolValidAtHead"], workers=2, timeout=300)
        chk.add_tlc("PoolLock necessity run: validation outside the lock (must leave an invalid pending transaction)", rn_, expect_violation="I_C13_PoolValidAtHead")
        if not rn_.violated:
            return machinery_failure(pid, "vacuity: PoolLock with the narrowed lock keeps the pool valid")
        from harness import preempt
        ptraces = []

        def make_pool_race():
            w_, g_, blocks_, txs_ = build_universe(cfg, keys)
            run2 = node_drv.NodeRun(w_, g_, peers=["p"], tid=0)
            run2.deliver_block("p", blocks_[1])
            cm = run2.node.local.chain_manager
            cs_new = cm.coinstate.add_block_no_validation(blocks_[2])       # a2 spends the output that transaction 1001 spends
            tx_ = txs_[1001]
            return {"a": lambda: cm.add_transaction_to_pool(tx_), "b": lambda: cm.set_coinstate(cs_new), "locks": [cm],
                    "observe": lambda: {"pool_has_t": any(t.hash() == tx_.hash() for t in cm.transaction_pool),
                                        "head_is_new": cm.coinstate.current_chain_hash == blocks_[2].hash()},
                    "close": run2.close}
        for (k_, n_, blocked, obs, errs) in preempt.explore(make_pool_race, ("skepticoin/networking/manager.py",)):
            ptraces.append(dict(obs, id=len(ptraces) + 1, k=k_, of=n_, blocked=blocked, errors=errs))
            chk.case(("pool_race", k_), nontrivial=True)
        if len(ptraces) < 5:
            return machinery_failure(pid, "only %d preemption points in add_transaction_to_pool" % len(ptraces))
        pv, rpt = tracecheck.run("TracePoolLock", ptraces, {"LockScope": "whole"}, ids=[t["id"] for t in ptraces], workers=1, timeout=600)
        chk.traces_validated += len(ptraces)
        chk.states += rpt.distinct
        chk.extra["pool_race_preemption_points"] = {"explored": len(ptraces), "where_the_second_thread_had_to_wait_for_the_lock": sum(1 for t in ptraces if t["blocked"])}
        for t_id, (clause, line) in pv.items():
            if clause != "ok":
                t = ptraces[t_id - 1]
                chk.violation(clause, {"state_replaced_before_line_stop": t["k"], "of": t["of"], "second_thread_waited_for_the_lock": t["blocked"],
                                       "observed": {k2: t[k2] for k2 in ("pool_has_t", "head_is_new")}, "errors": t["errors"]}, {"clause": clause})
    if pid == "C09":
        # ---- an operating-system fault on one connection at relay time: its descriptor is dead under the node (closed / not registered any
        #      more, while the peer book still lists it); an accepted new head still reaches every other peer exactly once
        sk.apply_cfg(cfg)
        rfacts = []
        for fault in ("closed_socket", "selector_rejects"):
            w_r, g_r, blocks_r, txs_r = build_universe(cfg, keys)
            run_r = node_drv.NodeRun(w_r, g_r, peers=["p", "q", "r", "s"], tid=950000, clock0=5000)
            try:
                peer_q, sock_q = run_r.node.peers["q"]
                if fault == "closed_socket":
                    sock_q.closed = True                  # closed under the node: send / modify on it fail with EBADF
                sel = run_r.node.local.selector
                o_modify = sel.modify

                def modify(fileobj, events, data=None, o_modify=o_modify, sock_q=sock_q):
                    if fileobj is sock_q:
                        raise ValueError("Invalid file descriptor: -1") if fault == "selector_rejects" else OSError(9, "Bad file descriptor")
                    return o_modify(fileobj, events, data)
                sel.modify = modify
                for name_ in ("p", "r", "s"):
                    run_r.node.take_sent(name_)
                run_r.node.use_store()
                run_r.node.deliver("p", netmsg_frame_block(blocks_r[1], 8801, run_r.clock()))
                run_r.node.pump_writes()
                copies = {}
                for name_ in ("r", "s"):
                    copies[name_] = sum(1 for (h_, m_) in run_r.node.take_sent(name_) if type(m_).__name__ == "DataMessage" and type(m_.data).__name__ == "Block"
                                        and m_.data.hash() == blocks_r[1].hash())
                accepted = blocks_r[1].hash() in run_r.node.chain().block_by_hash
                rfacts.append({"clause": "C09:new_head_not_relayed_exactly_once", "holds": (not accepted) or all(v_ == 1 for v_ in copies.values()),
                               "what": "one connection dead at relay time (%s): copies to the healthy peers %s, accepted %s" % (fault, copies, accepted)})
                chk.case(("dead_peer_at_relay", fault), nontrivial=True)
            finally:
                run_r.close()
        vr, rr = tracecheck.run("TraceFacts", rfacts, {}, ids=[1], workers=1, timeout=300)
        chk.traces_validated += 1
        for (line, clause) in tlc.tagged(rr, "FINDING"):
            chk.violation(clause, {"run": rfacts[line - 1]["what"]}, {"clause": clause, "how": "dead_peer"})
    if pid in ("C09", "C12"):
        # ---- the relay path and the miner are the two writers of the block store's buffer (StoreLock)
        from checks import store as store_check
        sk.apply_cfg(cfg)
        rc = store_check.two_writer_stage(chk, quick, rng, pid, cfg, keys)
        if rc:
            return rc
    if pid in ("C09", "C12"):
        # ---- the network thread's delivery handling interleaved with the miner's found-block handling, line by line (Handover)
        from checks import handover
        sk.apply_cfg(cfg)
        rc = handover.stage(chk, quick, rng, pid, cfg, keys, build_universe)
        if rc:
            return rc
        if pid == "C09":
            handover.stage_adversarial(chk, quick, rng, pid, cfg, keys, build_universe, lambda w_, b_: b_[7], "reward_above_subsidy_plus_fees")
        if pid == "C12":
            handover.stage_stale_snapshot(chk, pid, cfg, keys, build_universe)
            handover.stage_full_block(chk, pid, keys)
            sk.apply_cfg(cfg)
            # ---- the found block sent back by a neighbour while the miner's thread is still handling it (Echo)
            from checks import echo
            sk.apply_cfg(cfg)
            rc = echo.stage(chk, quick, rng, pid, cfg, keys, build_universe)
            if rc:
                return rc
    if pid == "C12":
        # ---- the miner's thread walks the peer book (get_active_peers) while the network thread changes it (ActivePeers): design level,
        #      then the whole found-block handling stopped before every line it executes in manager.py while a peer connects / disconnects
        for (snap, expect) in ((True, None), (False, "I_WalkNeverRaises")):
            ra_ = tracecheck.model("ActivePeers", "Spec", {"Peers": {1, 2, 3}, "Snapshot": snap, "MaxChanges": 2}, invariants=["I_WalkNeverRaises"], workers=2, timeout=300)
            tlc.require_clean(ra_, "ActivePeers")
            chk.add_tlc("ActivePeers Snapshot=%s (a walk over the connected peers against connects / disconnects)" % snap, ra_, expect_violation=expect)
            if (expect is None) != (not ra_.violated):
                return machinery_failure(pid, "ActivePeers Snapshot=%s: unexpected %s" % (snap, ra_.violated))
        from harness import preempt, fakenet
        import selectors as _sel
        atraces = []
        for variant in ("connect", "disconnect"):
            def make_found(variant=variant):
                w_, g_, blocks_, txs_ = build_universe(cfg, keys)
                run2 = node_drv.NodeRun(w_, g_, peers=["p", "q", "r"], tid=0, clock0=5000)
                run2.deliver_block("p", blocks_[1])
                run2.miner()
                import skepticoin.mining as mining_
                mining_.print = lambda *a, **k: None
                import skepticoin.consensus as c_
                from skepticoin.datatypes import Block, BlockHeader
                found = None
                for nonce in range(1, 6000):
                    run2.mine_request(nonce)
                    summary, height, txs2 = run2.mw.mining_args[0]
                    sh = c_.construct_summary_hash(summary, height)
                    cand = Block(BlockHeader(summary, c_.construct_pow_evidence_after_scrypt(sh, run2.mw.coinstate, summary, height, txs2)), txs2)
                    if indep.blockid(cand) < summary.target:
                        found = (cand, sh)
                        break
                for nm_ in run2.peers:
                    run2.node.take_sent(nm_)
                nmgr = run2.node.local.network_manager
                out = {"raised": ""}

                def a():
                    try:
                        run2.mw.handle_scrypt_output_message(0, found[1])
                    except BaseException as e:      # noqa: B902
                        out["raised"] = repr(e)[:160]

                def b():
                    if variant == "connect":
                        sock = fakenet.FakeSocket()
                        peer = run2.node.rp.ConnectedRemotePeer(run2.node.local, "10.0.7.7", 7777, "INCOMING", None, sock, ban_score=0)
                        run2.node.local.selector.register(sock, _sel.EVENT_READ, data=peer)
                        nmgr.handle_peer_connected(peer)
                    else:
                        run2.node.local.disconnect(run2.node.peers["r"][0], "remote side hangs up")

                def observe():
                    run2.node.pump_writes()
                    stay = ["p", "q"] if variant == "disconnect" else ["p", "q", "r"]
                    got = []
                    for nm_ in stay:
                        got.append(sum(1 for (h_, m_) in run2.node.take_sent(nm_) if type(m_).__name__ == "DataMessage" and type(m_.data).__name__ == "Block" and m_.data.hash() == found[0].hash()))
                    try:
                        rows = {b_.hash() for b_ in run2.node.store_rows()}
                    except Exception:
                        rows = set()
                    return {"raised": out["raised"], "stored": found[0].hash() in rows, "served": found[0].hash() in run2.node.chain().block_by_hash, "stayers_got": got}
                return {"a": a, "b": b, "observe": observe, "close": run2.close}
            for (k_, n_, blocked, obs, errs) in preempt.explore(make_found, ("skepticoin/networking/manager.py",)):
                atraces.append(dict(obs, id=len(atraces) + 1, k=k_, of=n_, variant=variant))
                chk.case(("walk_vs_" + variant, k_), nontrivial=True)
        av, rat = tracecheck.run("TraceActivePeers", atraces, {}, ids=[t["id"] for t in atraces], workers=1, timeout=600)
        chk.traces_validated += len(atraces)
        chk.states += rat.distinct
        chk.extra["found_block_vs_peer_book_changes"] = {"preemption_points": len(atraces)}
        for t_id, (clause, line) in av.items():
            if clause != "ok":
                t = atraces[t_id - 1]
                chk.violation(clause, {"peer_book_change": t["variant"], "before_line_stop": t["k"], "of": t["of"], "observed": {k2: t[k2] for k2 in ("raised", "stored", "served", "stayers_got")}},
                              {"clause": clause})
        # ---- the request handler reads the pending pool while the network thread admits a transaction (MinerView): design level, then
        #      the request handler stopped before every line it executes in mining.py / consensus.py with an admission at each stop; the
        #      candidate is then mined and the found block judged by TraceNode like any other (reward = subsidy + fees of what it contains)
        for (cp_, expect) in ((True, None), (False, "I_C12_RewardCountsIncludedFees")):
            rv_ = tracecheck.model("MinerView", "Spec", {"Fee": [1, 2], "CopyOnGet": cp_}, invariants=["I_C12_RewardCountsIncludedFees"], workers=2, timeout=300)
            tlc.require_clean(rv_, "MinerView")
            chk.add_tlc("MinerView CopyOnGet=%s (candidate assembly in two reads of the pool against an admission)" % cp_, rv_, expect_violation=expect)
            if (expect is None) != (not rv_.violated):
                return machinery_failure(pid, "MinerView CopyOnGet=%s: unexpected %s" % (cp_, rv_.violated))
        vtraces, vlabels, nfound = [], [], 0
        for nonce_ in (5, 6, 7) if quick else range(5, 15):
            def make_view(nonce_=nonce_):
                w_, g_, blocks_, txs_ = build_universe(cfg, keys)
                run2 = node_drv.NodeRun(w_, g_, peers=["p"], tid=900000 + len(vtraces) + 1, clock0=5000)
                run2.deliver_block("p", blocks_[1])
                run2.deliver_tx("p", txs_[1001])
                run2.miner()
                import skepticoin.mining as mining_
                mining_.print = lambda *a, **k: None
                return {"a": lambda: run2.mine_request(nonce_), "b": lambda: run2.deliver_tx("p", txs_[1002]),
                        "observe": lambda: (run2.mine_output(label={"admission_during_request": True}), run2.trace())[1], "close": run2.close}
            for (k_, n_, blocked, tr_, errs) in preempt.explore(make_view, ("skepticoin/mining.py", "skepticoin/consensus.py")):
                tr_["id"] = 900000 + len(vtraces) + 1
                if any(e["op"] == "mine" for e in tr_["events"]):
                    nfound += 1
                vtraces.append(tr_)
                vlabels.append([["admission_before_line_stop", k_, n_, "nonce", nonce_]])
                chk.case(("view", nonce_, k_), nontrivial=True)
        chk.extra["request_handler_vs_admission"] = {"preemption_runs": len(vtraces), "of_which_found_a_block": nfound}
        if nfound < 20:
            return machinery_failure(pid, "request-handler exploration found only %d blocks" % nfound)
        for k in range(0, len(vtraces), 120):
            judge(chk, vtraces[k:k + 120], vlabels[k:k + 120], consts)
        # ---- the broadcast of a found block comes from the miner's thread: the connection's send queue under two threads (SendPath)
        from checks import sendpath
        rc = sendpath.stage_threads(chk, quick, rng, pid)
        if rc:
            return rc
        chk.assumptions.append("two-thread schedules of the send path are forced at source-line granularity (sys.settrace) on real threads; "
                               "the transport is an in-memory socket that accepts the dictated number of bytes")
    chk.assumptions += ["deliveries enter through LocalPeer.handle_remote_peer_selector_event on in-memory sockets; the block store is a real SQLite file",
                        "model-sized consensus constants and stub scrypt as for the ledger family; hash functions ideal in the specification"]
    if chk.traces_validated == 0:
        return machinery_failure(pid, "no trace validated")
    return chk.finish()
