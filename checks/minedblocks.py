"""What the node holds after its own miner found blocks stays what it was: a node with two miner processes (the real MinerWatcher handlers,
requests and results of the two interleaved, key rotation after every found block), blocks of a peer in between.  After every handler call:
every block the node holds is filed under the hash of its own encoding and is served under that id with those bytes (C07); the unspent outputs
the node reports at every block equal a replay of the blocks as they went onto the wire, and chain-state snapshots taken earlier still project
to what they projected to when they were taken (C03).  Facts judged by TLC (TraceFacts)."""
import contextlib
import io

from harness import sk, tlc, tracecheck, indep, node_drv, netmsg
from checks import node as nodechk


def _proj(cs, h):
    return {(r.hash, r.index): (o.value, o.public_key.public_key) for r, o in cs.unspent_transaction_outs_by_hash[h].items()}


def _replay(wire, h):
    chain, x = [], h
    while x in wire:
        chain.append(wire[x])
        x = wire[x].header.summary.previous_block_hash
    utxo = {}
    for b in reversed(chain):
        for t in b.transactions:
            for i in t.inputs:
                r = i.output_reference
                if r.hash != b"\x00" * 32:
                    utxo.pop((r.hash, r.index), None)
            tid = indep.txid(t)
            for n, o in enumerate(t.outputs):
                utxo[(tid, n)] = (o.value, o.public_key.public_key)
    return utxo


def stage(chk, quick, rng, pid):
    import skepticoin.consensus as c
    import skepticoin.mining as mining
    from skepticoin.datatypes import Block, BlockHeader
    import skepticoin.networking.messages as M
    cfg = sk.Cfg(**nodechk.MODEL_CFG)
    sk.apply_cfg(cfg)
    facts, raised = [], []
    mining.print = lambda *a, **k: None
    try:
        for trial in range(3 if quick else 20):
            keys = sk.Keys(6)
            w, g, blocks, txs = nodechk.build_universe(cfg, keys)
            run = node_drv.NodeRun(w, g, peers=["p", "q"], tid=1, clock0=5000)
            try:
                run.deliver_block("p", blocks[1])
                mw = run.miner()

                class Q:
                    def __init__(self):
                        self.items = []

                    def put(self, x):
                        self.items.append(x)
                mw.send_queues = [Q(), Q()]
                wire = {g.hash(): Block.deserialize(g.serialize()), blocks[1].hash(): Block.deserialize(blocks[1].serialize())}
                snaps = []
                nfound = 0
                nonce = trial * 100000

                def observe(what):
                    node = run.node
                    node.pump_writes()
                    for name in run.peers:
                        for (h_, m_) in node.take_sent(name):
                            if type(m_).__name__ == "DataMessage" and type(m_.data).__name__ == "Block":
                                fresh = Block.deserialize(m_.data.serialize())
                                wire.setdefault(indep.blockid(fresh), fresh)
                    cs = node.chain()
                    ok_id, ok_ledger = True, True
                    for h, b in cs.block_by_hash.items():
                        if indep.blockid(b) != h or b.hash() != h:
                            ok_id = False
                        if h in wire:
                            try:
                                if _proj(cs, h) != _replay(wire, h):
                                    ok_ledger = False
                            except Exception:
                                ok_ledger = False
                    facts.append({"clause": "C07:block_held_under_an_id_that_is_not_the_hash_of_its_encoding", "holds": ok_id, "what": what})
                    facts.append({"clause": "C03:ledger_at_block_differs_from_replay", "holds": ok_ledger, "what": what})
                    ok_snap = True
                    for (cs_old, h_old, p_old) in snaps:
                        try:
                            if _proj(cs_old, h_old) != p_old:
                                ok_snap = False
                        except Exception:
                            ok_snap = False
                    facts.append({"clause": "C03:chain_state_snapshot_obtained_earlier_changed", "holds": ok_snap, "what": what})
                    head = cs.current_chain_hash
                    snaps.append((cs, head, _proj(cs, head)))
                    # the head is served under its id with bytes that hash to that id
                    ok_served = True
                    if head in wire or True:
                        node.deliver("q", netmsg.frame(netmsg.body(M.GetDataMessage(M.DATA_BLOCK, head), 900 + len(facts))))
                        got = [m_ for (h_, m_) in node.take_sent("q") if type(m_).__name__ == "DataMessage" and type(m_.data).__name__ == "Block"]
                        if not got or indep.blockid(Block.deserialize(got[0].data.serialize())) != head:
                            ok_served = False
                    facts.append({"clause": "C07:bytes_served_for_an_id_do_not_hash_to_that_id", "holds": ok_served, "what": what})
                    chk.case(("minedblocks", trial, what), nontrivial=True)

                def request(mid):
                    nonlocal nonce
                    nonce += 1
                    run.node.use_store()
                    mw.handle_request_scrypt_input_message(mid, nonce)

                def result(mid):
                    nonlocal nfound
                    # what the watcher sent to that miner process is what the process hashes (the interface between the two)
                    kind, payload = mw.send_queues[mid].items[-1]
                    summary, height = payload
                    sh = c.construct_summary_hash(summary, height)
                    n_before = len(run.node.chain().block_by_hash)
                    run.node.use_store()
                    try:
                        mw.handle_scrypt_output_message(mid, sh)
                    except Exception as e:
                        raised.append(repr(e)[:150])          # an observation (C12's checks judge the miner's handlers), not a clause of C03 / C07
                    found = len(run.node.chain().block_by_hash) > n_before
                    nfound += 1 if found else 0
                    return found
                steps = 0
                while nfound < 3 and steps < 400:
                    steps += 1
                    # both miners ask for input on the same head in the same second; their results come back in either order; a winner's
                    # result is followed by the other miner's (now stale) result
                    request(0)
                    request(1)
                    order = [0, 1] if rng.random() < 0.5 else [1, 0]
                    f0 = result(order[0])
                    observe("after the result of miner %d (%s)" % (order[0], "found" if f0 else "not found"))
                    f1 = result(order[1])
                    observe("after the result of miner %d (%s), the other one's came first" % (order[1], "found" if f1 else "not found"))
                    if (f0 or f1) and rng.random() < 0.5:
                        run.clock.t += rng.choice([0, 1, 2])
                    if nfound == 2 and blocks[3].hash() not in run.node.chain().block_by_hash:
                        run.deliver_block("p", blocks[3])          # a competing block of a peer
                        observe("after a peer's competing block")
                if nfound < 2:
                    facts.append({"clause": "%s:machinery_too_few_blocks_found" % pid, "holds": True, "what": "only %d blocks found" % nfound})
            finally:
                run.close()
    finally:
        sk.restore_cfg()
    mine = [f for f in facts if f["clause"].startswith(pid + ":")]
    if len(mine) < 6:
        from harness.common import machinery_failure
        return machinery_failure(pid, "the mined-blocks stage produced %d facts" % len(mine))
    v, r = tracecheck.run("TraceFacts", mine, {}, ids=[1], workers=1, timeout=600)
    chk.traces_validated += 1
    chk.states += r.distinct
    chk.extra["facts_about_blocks_held_after_mining"] = len(mine)
    if raised:
        chk.notes.append("mined-blocks stage: %d scrypt results raised in the watcher (first: %s)" % (len(raised), raised[0]))
    seen = set()
    for (line, clause) in tlc.tagged(r, "FINDING"):
        if clause in seen:
            continue
        seen.add(clause)
        chk.violation(clause, {"when": mine[line - 1]["what"]}, {"clause": clause})
    return 0
