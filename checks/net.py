"""C10: Net.tla -- synchronisation converges and relay terminates.

(a) TLC checks Net on 2- and 3-node instances (forked universes, topologies line/triangle, batch 2): every interleaving of deliveries
    with K adversarially placed timer actions per node, then R fair quiescent rounds; invariants ParentClosed, RelayOnce,
    InvBounded, Settled => Converged, transaction reaches every pool.
(b) complete behaviours emitted by TLC are replayed on real LocalPeers wired by FIFO links (multinet), the state of every node and
    channel compared after every action (M-layer);
(c) randomized schedules not derived from the model (long adversarial prefixes, bigger universes: forks deeper than the locator's
    dense range, several inventory batches) followed by fair rounds until nothing changes any more;
(d) TLC judges every recorded event (TraceNet): safety clauses always, convergence and transaction propagation at settled states."""
import json
import random

from harness import tlc, sk, tracecheck, multinet, store_drv, indep, hooktrace
from harness.common import Check, seed, machinery_failure
from checks.store import cb, tx, blk

MODEL_CFG = dict(period=1000, timespan=4, initial_subsidy=8, halving=1000, max_money=30)

UNIVERSES = {
    # name: (parent map, init sets per node, peers)
    "two_forked": ({0: 0, 1: 0, 2: 1, 3: 2, 4: 3, 5: 1, 6: 5}, {1: {0, 1, 2, 3, 4}, 2: {0, 1, 5, 6}}, {1: {2}, 2: {1}}),
    "two_side_branch_at_server": ({0: 0, 1: 0, 2: 1, 3: 2, 4: 3, 5: 1, 6: 5}, {1: {0, 1, 2, 3, 4, 5}, 2: {0, 1, 5, 6}}, {1: {2}, 2: {1}}),
    "two_empty_vs_full": ({0: 0, 1: 0, 2: 1, 3: 2, 4: 3, 5: 1, 6: 5}, {1: {0, 1, 2, 3, 4, 5}, 2: {0}}, {1: {2}, 2: {1}}),
    "line3": ({0: 0, 1: 0, 2: 1, 3: 2, 4: 1, 5: 4}, {1: {0, 1, 2, 3}, 2: {0, 1, 4}, 3: {0}}, {1: {2}, 2: {1, 3}, 3: {2}}),
    "triangle3": ({0: 0, 1: 0, 2: 1, 3: 2, 4: 1, 5: 4}, {1: {0, 1, 2, 3}, 2: {0, 1, 4, 5}, 3: {0, 1}}, {1: {2, 3}, 2: {1, 3}, 3: {1, 2}}),
}


def height(parent, b):
    h = 0
    while b != 0:
        b = parent[b]
        h += 1
    return h


def tla_defs(parent, init, peers):
    return ("ParentDef == %s\nInitDef == %s\nPeersDef == %s\n" % (
        store_drv.tla(parent), store_drv.tla({n: set(s) for n, s in init.items()}), store_drv.tla({n: set(s) for n, s in peers.items()})))


def consts(parent, init, peers, batch, k, r, emit=False, txorigin=(1,)):
    return {"Nodes": set(init), "Peers": ("<-", "PeersDef"), "Blocks": set(parent), "Parent": ("<-", "ParentDef"), "Init0": ("<-", "InitDef"),
            "Txs": {1}, "Batch": batch, "K": k, "R": r, "EmitHist": emit, "TxOrigin": set(txorigin)}


def build_blocks(cfg, keys, parent, tag=b""):
    w = sk.World(cfg, keys, tag=tag)
    g = w.make_genesis()
    blocks = {0: g}
    for b in sorted(parent):
        if b == 0:
            continue
        h = height(parent, b)
        d = blk(b, parent[b], h, [cb(b, h, cfg.subsidy(h), k=1 + b % 2)])
        d["ts"] = 10 + h
        blocks[b] = w.concretise(d)
    t1 = w.concretise_tx(dict(tx(9001, [(0, 0, 1)], [(7, 2)]), _owner={0: 1}))
    return w, g, blocks, t1


class Runaway(Exception):
    """Far more deliveries than any synchronisation of this universe needs, and still messages in flight."""


def build_big_block(cfg, keys, parent, tag=b""):
    """Universe {0, 1}: block 1 carries one transaction that spreads the genesis reward over so many outputs that the block's encoding is
    within 40 bytes of MAX_BLOCK_SIZE (a valid block: the limit is inclusive); the coinbase's free data does the fine tuning."""
    import skepticoin.params as params
    limit = params.MAX_BLOCK_SIZE
    w = sk.World(cfg, keys, tag=b"big" + tag)
    g = w.make_genesis()
    total = cfg.subsidy(0)

    def make(n, data):
        outs = [(1, 2)] * n + [(total - n, 1)]
        d = blk(1, 0, 1, [cb(1, 1, cfg.subsidy(1), k=1, data=data), tx(11, [(0, 0, 1)], outs)])
        d["ts"] = 11
        return d
    w0 = sk.World(cfg, keys, tag=b"bigprobe" + tag)
    w0.make_genesis()
    size1 = len(w0.concretise(make(1, b"")).serialize())
    size2 = len(w0.concretise(dict(make(2, b""), id=2)).serialize())
    per = size2 - size1
    n = (limit - 20 - size1) // per + 1
    size_n = size1 + (n - 1) * per
    pad = limit - 20 - size_n
    if not 0 <= pad <= 190:
        raise RuntimeError("cannot size the block: %d outputs give %d bytes" % (n, size_n))
    b1 = w.concretise(make(n, b"p" * pad))
    real = len(b1.serialize())
    if not limit - 57 <= real <= limit:
        raise RuntimeError("block of %d bytes is not within 57 bytes of the limit %d" % (real, limit))
    t1 = w.concretise_tx(dict(tx(9001, [(11, 0, 2)], [(1, 1)]), _owner={0: 2}))
    return w, g, {0: g, 1: b1}, t1


class Run:
    def __init__(self, cfg, keys, parent, init, peers, batch, tid, builder=None):
        self.ndeliver = 0
        self.budget = max(4000, 150 * len(parent) * sum(len(v) for v in peers.values()))
        self.parent, self.init, self.peers = parent, init, peers
        self.w, self.g, self.blocks, self.t1 = (builder or build_blocks)(cfg, keys, parent)
        self.id_of = {b.hash(): i for i, b in self.blocks.items()}
        self.tx_id = {indep.txid(self.t1): 1}
        init_blocks = {n: [self.blocks[i] for i in sorted(s) if i != 0] for n, s in init.items()}
        self.net = multinet.Net(self.w, self.g, init_blocks, peers, batch=batch)
        self.tid = tid
        self.events = []

    def balias(self, h):
        return self.id_of.get(h, -5)

    def talias(self, h):
        return self.tx_id.get(h, -5)

    def relays(self):
        out = {}
        for n, log in self.net.sent_log.items():
            for (dest, frame) in log:
                m = self.net.abstract_msg(frame, self.balias, self.talias)
                if m["t"] == "DATA" and not m["irt"]:
                    key = (n, "block", m["b"], dest)
                elif m["t"] == "TX":
                    key = (n, "tx", m["x"], dest)
                else:
                    continue
                out[key] = out.get(key, 0) + 1
        agg = {}
        for (n, kind, i, dest), c in out.items():
            agg[(n, kind, i)] = max(agg.get((n, kind, i), 0), c)
        return [[n, kind, i, c] for (n, kind, i), c in sorted(agg.items())]

    def record(self, a, n, m, compare=True, settled=False):
        self.events.append({"a": a, "n": n, "m": m, "compare": compare, "settled": settled, "only": 0,
                            "post": self.net.project(self.balias, self.talias), "relays": self.relays()})

    def do(self, act, compare=True):
        a, n, m = act["a"], act["n"], act["m"]
        net = self.net
        if a == "step":
            net.step(n, m)
            self.record("step", n, m, compare)
        elif a == "tick":
            net.tick()
            self.record("tick", n, 0, compare)
        elif a == "deliver":
            self.ndeliver += 1
            if self.ndeliver > self.budget:
                raise Runaway()
            net.deliver(n, m)
            self.record("deliver", n, m, compare)
        elif a == "round":
            net.tick()
            self.record("tick", n, 0, compare)
            net.step(n, m)
            self.record("step", n, m, compare)
        elif a == "orig":
            if act.get("spend") == "recent":
                self.use_recent_output()
            net.originate(n, self.t1)
            self.record("orig", n, 1, compare)

    def use_recent_output(self):
        """Once the nodes share a head: let the transaction spend the reward of a block on that chain which at least one node did not
        store initially (it was fetched during synchronisation) -- valid at the shared head, on every node."""
        heads = {node.chain().current_chain_hash for node in self.net.nodes.values()}
        if len(heads) != 1:
            return
        b = self.id_of.get(heads.pop(), 0)
        cands = []
        while b != 0:
            if not all(b in s_ for s_ in self.init.values()):
                cands.append(b)
            b = self.parent[b]
        if not cands:
            return
        b = cands[0] if len(cands) == 1 or hash((self.tid, len(cands))) % 3 else cands[1]
        v = self.w.cfg.subsidy(height(self.parent, b))
        if v < 2:
            return
        t = self.w.concretise_tx(dict(tx(9002, [(b * 10, 0, 1 + b % 2)], [(v - 1, 2)]), _owner={0: 1 + b % 2}))
        self.t1 = t
        self.tx_id = {indep.txid(t): 1}
        self.spent_reward_of = b

    def can_step(self, n, m):
        node = self.net.nodes[n]
        peer = node.peers[str(m)][0]
        return self.net.clock() > peer.last_empty_inventory_response_at + 60

    def settle(self, rng, max_rounds=30):
        """Fair rounds (every node asks every peer, everything in flight delivered) until two consecutive rounds change nothing."""
        stable = 0
        last = None
        for rnd in range(max_rounds):
            self.flush(rng)
            for n in sorted(self.peers):
                for m in sorted(self.peers[n]):
                    self.do({"a": "round", "n": n, "m": m})
                    self.flush(rng)
            snap = json.dumps([self.events[-1]["post"]["nodes"][str(n)]["has"] for n in sorted(self.peers)] +
                              [self.events[-1]["post"]["nodes"][str(n)]["pool"] for n in sorted(self.peers)])
            stable = stable + 1 if snap == last else 0
            last = snap
            if stable >= 2:
                break
        self.events[-1]["settled"] = True

    def flush(self, rng):
        guard = 0
        while not self.net.quiet() and guard < 20000:
            guard += 1
            links = [k for k, q in self.net.queues.items() if q]
            s, r = rng.choice(sorted(links))
            self.do({"a": "deliver", "n": s, "m": r})

    def trace(self):
        return {"id": self.tid, "events": self.events}

    def runaway_trace(self):
        """The run did not become quiet within its delivery budget: a one-event trace (the history is too long to be followed step by step)."""
        self.record("runaway", 1, 0, compare=False)
        return {"id": self.tid, "events": self.events[-1:]}

    def close(self):
        self.net.close()


def run(pid, tier, replay=None):
    chk = Check(pid, tier)
    quick = tier != "thorough"
    rng = random.Random(seed() * 11 + 10)
    sk.setup()
    cfg = sk.Cfg(**MODEL_CFG)
    sk.apply_cfg(cfg)
    keys = sk.Keys(2)
    invs = ["I_ParentClosed", "I_HeadStored", "I_RelayOnce", "I_InvBounded", "I_ConvergedWhenSettled", "I_TxEverywhereWhenQuiet"]
    plan = [("two_forked", 2, 1, 2, 900, True), ("two_side_branch_at_server", 2, 1, 2, 900, True), ("two_empty_vs_full", 2, 1, 2, 900, True),
            ("line3", 2, 1, 2, 900, not quick), ("triangle3", 2, 1, 2, 900, False)]
    if not quick:
        plan += [("two_forked", 2, 2, 2, 600, True), ("two_forked", 2, 3, 2, 600, True), ("line3", 2, 1, 3, 600, True), ("triangle3", 2, 1, 2, 600, True)]
    batches = {}
    for (uname, batch, k, r, tmo, exhaustive) in plan:
        parent, init, peers = UNIVERSES[uname]
        defs = tla_defs(parent, init, peers)
        c = consts(parent, init, peers, batch, k, r)
        chk.mark("plan")
        if exhaustive:
            res = tracecheck.model("MC_Net", "Spec", c, invariants=invs, workers=16, timeout=tmo, view="View", extra_defs=defs)
            if getattr(res, "timed_out", False):
                chk.notes.append("MC_Net %s K=%d R=%d: time box of %ds reached without a violation (%s)" % (uname, k, r, tmo,
                                 [l for l in res.out.splitlines() if "Progress" in l][-1:] or ""))
                continue
            tlc.require_clean(res, "MC_Net " + uname)
            chk.add_tlc("MC_Net universe=%s batch=%d K=%d R=%d" % (uname, batch, k, r), res, constants=defs[:400])
            if res.violated:
                return machinery_failure(pid, "MC_Net %s violates %s" % (uname, res.violated))
        if k == 1 and uname not in batches:
            if len(init) == 2:
                rg = tracecheck.model("MC_Net", "Spec", dict(c, EmitHist=True), invariants=["I_Emit"], workers=8, timeout=tmo, view="View", extra_defs=defs)
            else:      # 3 nodes: complete behaviours by random simulation instead of a second exhaustive pass
                rg = tracecheck.model("MC_Net", "Spec", dict(c, EmitHist=True), invariants=invs + ["I_Emit"], workers=1, timeout=tmo, extra_defs=defs,
                                      simulate="num=%d" % (40 if quick else 400), depth=400, seed=seed() + 10)
                chk.add_tlc("MC_Net universe=%s batch=%d K=%d R=%d (TLC -simulate, invariants checked along every behaviour)" % (uname, batch, k, r), rg,
                            exhaustive=False)
                if rg.violated:
                    return machinery_failure(pid, "MC_Net %s (simulation) violates %s" % (uname, rg.violated))
            tlc.require_clean(rg, "MC_Net gen " + uname)
            hs = tlc.tagged_json(rg, "HIST")
            uniq = {}
            for h_ in hs:
                uniq.setdefault(json.dumps(h_), h_)
            hs = list(uniq.values())
            chk.states += rg.distinct
            if len(hs) < 5:
                return machinery_failure(pid, "only %d complete behaviours from MC_Net %s" % (len(hs), uname))
            batches[uname] = (hs, batch)

    # ---- (b) spec -> code
    chk.mark("design level (last plan entry)")
    tid = 0
    nrunaway = [0]
    for uname, (hs, batch) in batches.items():
        if nrunaway[0] >= 3:
            break
        parent, init, peers = UNIVERSES[uname]
        nrep = 25 if quick else 250
        if len(hs) > nrep:
            hs = rng.sample(hs, nrep)
        traces = []
        for h in hs:
            tid += 1
            run_ = Run(cfg, keys, parent, init, peers, batch, tid)
            try:
                try:
                    for act in h:
                        if act["a"] == "nextround":
                            continue
                        run_.do(act, compare=True)
                    run_.settle(rng)
                    traces.append(run_.trace())
                except Runaway:
                    traces.append(run_.runaway_trace())
                    nrunaway[0] += 1
                chk.case(json.dumps([uname, h]), nontrivial=any(a["a"] in ("step", "tick") for a in h))
                if nrunaway[0] >= 3:
                    break                   # enough: every further run would burn its whole delivery budget as well
            finally:
                run_.close()
        chk.sample({"source": "MC_Net behaviour (%s)" % uname, "actions": [[a["a"], a["n"], a["m"]] for a in hs[0][:20]]})
        judge(chk, traces, parent, init, peers, batch)

    # ---- (c) randomized schedules, bigger universes
    chk.mark("spec->code replay + validation")
    nrand = 14 if quick else 60
    traces_by = {}
    kind = ""
    for i in range(nrand):
        if nrunaway[0] >= 3:
            break
        kind = ["line_deep", "deep_fork_stored", "multi_batch", "three_nodes", "small", "line_deep", "deep_fork_stored", "deep_fork"][i] if i < 8 else \
            rng.choice(["deep_fork", "deep_fork_stored", "multi_batch", "three_nodes", "small", "line_deep"])
        stored_part = kind == "deep_fork_stored"       # the server also stores a proper, non-empty part of the requester's branch
        if stored_part:
            kind = "deep_fork"
        prefix = []
        if kind == "deep_fork":          # fork deeper than the locator's dense range (10), side branch also stored at the server
            L = rng.randint(13, 18)
            parent = {0: 0}
            for b in range(1, L + 1):
                parent[b] = b - 1
            fork_at = rng.randint(1, 3)
            b0 = L + 1
            flen = rng.randint(L - fork_at - 4, L - fork_at - 1)
            prev = fork_at
            for j in range(flen):
                parent[b0 + j] = prev
                prev = b0 + j
            if stored_part:
                A = set(range(0, L + 1)) | set(range(b0, b0 + rng.randint(3, max(3, flen - 2))))
            else:
                A = set(range(0, L + 1)) | (set(range(b0, b0 + rng.randint(0, flen))) if rng.random() < 0.6 else set())
            B = set(range(0, fork_at + 1)) | set(range(b0, b0 + flen))
            init, peers, batch = {1: A, 2: B}, {1: {2}, 2: {1}}, rng.choice([3, 4, 500])
        elif kind == "multi_batch":
            L = rng.randint(7, 12)
            parent = {0: 0}
            for b in range(1, L + 1):
                parent[b] = b - 1
            init, peers, batch = {1: set(range(0, L + 1)), 2: set(range(0, rng.randint(1, 3)))}, {1: {2}, 2: {1}}, 2
        elif kind == "three_nodes":
            parent = {0: 0, 1: 0, 2: 1, 3: 2, 4: 3, 5: 4, 6: 1, 7: 6, 8: 7, 9: 2, 10: 9}
            allb = [set(range(0, 6)), {0, 1, 6, 7, 8}, {0, 1, 2, 9, 10}, {0}, {0, 1, 2, 3}]
            rng.shuffle(allb)
            init = {1: allb[0], 2: allb[1], 3: allb[2]}
            peers = rng.choice([{1: {2}, 2: {1, 3}, 3: {2}}, {1: {2, 3}, 2: {1, 3}, 3: {1, 2}}])
            batch = rng.choice([2, 3])
        elif kind == "line_deep":
            # line 1--2--3, three branches forking at a height that is beyond the dense range of every locator; the middle node's first
            # two periodic steps go to the same neighbour (its fetch slots get inventories that overlap blocks it already stores), and
            # the greatest height sits at the other end of the line
            f = rng.randint(2, 4)
            lens = [rng.randint(21, 24), rng.randint(13, 15), rng.randint(16, 18)]      # node 1 highest, node 2 lowest
            parent = {0: 0}
            for b in range(1, f + 1):
                parent[b] = b - 1
            nxt = f + 1
            init = {}
            for node, L in zip((1, 2, 3), lens):
                prev = f
                mine = set(range(0, f + 1))
                for h in range(f + 1, L + 1):
                    parent[nxt] = prev
                    mine.add(nxt)
                    prev = nxt
                    nxt += 1
                init[node] = mine
            peers = {1: {2}, 2: {1, 3}, 3: {2}}
            batch = rng.choice([4, 500])
            prefix = [{"a": "step", "n": 2, "m": 3}, {"a": "step", "n": 2, "m": 3}]
        else:
            parent, init, peers = UNIVERSES[rng.choice(sorted(UNIVERSES))]
            batch = 2
        tid += 1
        run_ = Run(cfg, keys, parent, init, peers, batch, tid)
        try:
            for act in prefix:
                run_.do(act)
            for _ in range(rng.randint(5, 60)):
                if run_.ndeliver > run_.budget:
                    break
                links = [k for k, q in run_.net.queues.items() if q]
                x = rng.random()
                if links and x < 0.7:
                    s, r = rng.choice(sorted(links))
                    run_.do({"a": "deliver", "n": s, "m": r})
                elif x < 0.9:
                    n = rng.choice(sorted(peers))
                    m = rng.choice(sorted(peers[n]))
                    if run_.can_step(n, m):
                        run_.do({"a": "step", "n": n, "m": m})
                else:
                    run_.do({"a": "tick", "n": 1, "m": 0})
            key = json.dumps([sorted(parent.items()), sorted((n, sorted(s)) for n, s in init.items()), sorted((n, sorted(s)) for n, s in peers.items()), batch])
            try:
                run_.settle(rng)
                # once they share a head: a transaction from a random node, then settle again
                o = rng.choice(sorted(peers))
                run_.do({"a": "orig", "n": o, "m": 1, "spend": "recent"})
                run_.settle(rng, max_rounds=4)
                traces_by.setdefault(key, (parent, init, peers, batch, []))[4].append(run_.trace())
            except Runaway:
                traces_by.setdefault(key, (parent, init, peers, batch, []))[4].append(run_.runaway_trace())
                nrunaway[0] += 1
            chk.extra["max_deliveries_over_budget_ratio"] = max(chk.extra.get("max_deliveries_over_budget_ratio", 0), round(run_.ndeliver / run_.budget, 3))
            chk.case((kind, i), nontrivial=True)
        finally:
            run_.close()
    chk.mark("randomized schedules run")
    for key, (parent, init, peers, batch, traces) in traces_by.items():
        judge(chk, traces, parent, init, peers, batch)
    # ---- a block whose encoding is within 40 bytes of the largest a block may have (valid: the limit is inclusive) is synchronised like any other
    cfg_big = sk.Cfg(period=1000, timespan=4, initial_subsidy=10 ** 9, halving=10 ** 6, max_money=21 * 10 ** 14)
    sk.apply_cfg(cfg_big)
    parent_b, init_b, peers_b = {0: 0, 1: 0}, {1: {0, 1}, 2: {0}}, {1: {2}, 2: {1}}
    tid += 1
    run_ = Run(cfg_big, keys, parent_b, init_b, peers_b, 2, tid, builder=build_big_block)
    try:
        try:
            run_.settle(rng)
            tr_b = run_.trace()
        except Runaway:
            tr_b = run_.runaway_trace()
        chk.extra["largest_block_synchronised_bytes"] = len(run_.blocks[1].serialize())
        chk.case(("big_block",), nontrivial=True)
    finally:
        run_.close()
    judge(chk, [tr_b], parent_b, init_b, peers_b, 2)
    sk.apply_cfg(cfg)
    chk.mark("randomized schedules validated")
    if traces_by:
        chk.sample({"source": "randomized schedule", "universe": kind, "events": [[e["a"], e["n"], e["m"]] for e in traces[0]["events"][:15]]})
    # ---- (e) the repository's own integration tests with the verification hooks on: real threads, real sockets.
    #      Each node's event log (every handled sync message, every periodic step that acted) is validated locally against Net:
    #      received messages are environment inputs, the node's state after each event must be what Net's handler produces.
    sk.restore_cfg()
    ids = hooktrace.chain_universe()
    hook_info = []
    for test in ("tests/networking/test_integration.py::test_ibd_integration", "tests/networking/test_integration.py::test_broadcast_transaction"):
        rc, out, ev = hooktrace.run_test(test)
        if rc != 0 or len(ev) < 10:
            chk.notes.append("hooked run of %s not usable (pytest exit %s, %d events): %s" % (test, rc, len(ev), out[-200:].replace("\n", " ")))
            continue
        for (tr, parent, init, peers, info) in hooktrace.local_traces(ev, ids, tid0=tid + 1):
            tid += 2
            hook_info.append({"test": test.split("::")[1], "node": info["node"], "events": len(tr["events"]), "connections": len(info["connections"])})
            judge(chk, [tr], parent, init, peers, 500)
            chk.case(("hooked", test, info["node"]), nontrivial=True)
    chk.extra["hooked_integration_tests"] = hook_info
    if hook_info:
        chk.sample({"source": "repository integration test under hooks (real threads and sockets)", "traces": hook_info})
    chk.extra["rule"] = ("schedule = sequence of deliveries (one framed message on one directed link), periodic steps with the chosen peer, clock jumps > 60 s and transaction "
                         "originations over 2-3 real nodes; complete behaviours of MC_Net (K=1) replayed and continued by fair rounds until two rounds change nothing; randomized "
                         "schedules on bigger universes (fork depth 10-17 beyond the dense locator range, side branch stored at the responder, 4-6 inventory batches, three nodes in "
                         "line/triangle); non-trivial = contains a timer action")
    chk.assumptions += ["liveness in bounded form: convergence is judged at states reached by fair quiescent rounds that have stopped changing anything (a fixpoint of fair rounds that is "
                        "not converged never converges)", "in-memory FIFO links, shared virtual clock; random.choice of the fetch step is dictated by the schedule"]
    chk.mark("hooked integration tests")
    # ---- a message "sent" is what is "in flight" only if the connection's send side writes exactly the queued frames: SendPath
    from checks import sendpath
    rc = sendpath.stage_seq(chk, quick, rng, pid)
    if rc:
        return rc
    chk.mark("send path (partial writes)")
    # ---- "relays a given block at most once" when the node itself found the block and a neighbour sends it back while the miner's thread is
    #      still handling it (Echo)
    from checks import echo
    from checks import node as nodechk
    cfg_e = sk.Cfg(**nodechk.MODEL_CFG)
    sk.apply_cfg(cfg_e)
    rc = echo.stage(chk, quick, rng, pid, cfg_e, sk.Keys(3), nodechk.build_universe)
    sk.restore_cfg()
    if rc:
        return rc
    chk.mark("found block echoed by a neighbour")
    return chk.finish()


def judge(chk, traces, parent, init, peers, batch):
    if not traces:
        return
    defs = tla_defs(parent, init, peers)
    c = consts(parent, init, peers, batch, 0, 0)
    c = {k: v for k, v in c.items() if k not in ("EmitHist", "TxOrigin")}
    verdicts, r = tracecheck.run("TraceNet", traces, c, ids=[t["id"] for t in traces], workers=4, timeout=3000, extra_defs=defs)
    chk.states += r.distinct
    chk.transitions += r.generated
    chk.traces_validated += len(traces)
    by = {t["id"]: t for t in traces}
    for t_id, (clause, line) in verdicts.items():
        if clause != "ok":
            ev = by[t_id]["events"]
            chk.violation(clause, {"universe": {"parent": parent, "init": {k: sorted(v) for k, v in init.items()}, "peers": {k: sorted(v) for k, v in peers.items()}, "batch": batch},
                                   "schedule": [[e["a"], e["n"], e["m"]] for e in ev[:line]],
                                   "heads": {n: v["head"] for n, v in ev[line - 1]["post"]["nodes"].items()},
                                   "relays": [x for x in ev[line - 1]["relays"] if x[3] > 1]}, {"clause": clause})
    for dft in tlc.tagged(r, "DRIFT")[:50]:
        chk.model_drift("trace %s event %s: %s" % tuple(dft[:3]))
