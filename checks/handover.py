"""Handover.tla -- chain state and the store's write buffer under the node's two threads (network thread handling a delivered block,
miner handling a found block) -- as a stage of C09 and C12: TLC checks the model, generates every line-level interleaving, a sample
is forced onto two real threads of a real node with the real store, TLC judges the outcomes (TraceHandover)."""
import json

from harness import tlc, tracecheck, sk, handover_drv as hd
from harness.sendpath_drv import Unmappable
from harness.common import machinery_failure

P_INV = ["I_C09_RejectedNotStored", "I_C09_RejectedNotServed", "I_C09_AcceptedStored", "I_C09_RejectionLeavesStateAsItWas", "I_C09_NoFlushFailure", "I_C12_FoundStored",
         "I_C12_FoundBroadcast"]
COMBOS = [("accepted relay block", True, True, 0), ("rejected relay block", False, True, 0), ("bulk-download block, not validated", True, False, 77)]


def stage(chk, quick, rng, pid, cfg, keys, build_universe):
    try:
        sw = hd.probe_switches(lambda: build_universe(cfg, keys)[:3])
    except Unmappable as e:
        chk.model_drift("hand-over: the effects Handover names do not occur in a rejected delivery (%s); two-thread schedules skipped" % e)
        return 0
    stops = None
    # ---- design level: the repaired order holds the P invariants in every interleaving; each repair is necessary
    for (name, xv, xd, irt) in COMBOS:
        c = {"XValid": xv, "XValidated": xd, "MinerOn": True, "EmitHist": False, "SaveAfterValidation": True, "SelectiveClear": True, "AtomicRollback": True, "MinerHandOverValidated": True, "SaveBeforePublish": True}
        r = tracecheck.model("MC_Handover", "MSpec", c, workers=2, timeout=600, view="View", invariants=P_INV, properties=["A_C12_AdoptedAtHandOver"])
        tlc.require_clean(r, "MC_Handover")
        chk.add_tlc("MC_Handover (%s x found block, every interleaving of the source lines)" % name, r, constants=str(c))
        if r.violated:
            return machinery_failure(pid, "Handover (repaired order) violates %s" % r.violated)
    base = {"XValid": False, "XValidated": True, "MinerOn": True, "EmitHist": False, "MinerHandOverValidated": True, "SaveBeforePublish": True}
    rp = tracecheck.model("MC_Handover", "MSpec", dict(base, XValid=True, SaveAfterValidation=True, SelectiveClear=True, AtomicRollback=True, SaveBeforePublish=False), workers=2, timeout=600,
                          view="View", invariants=["I_C09_NoFlushFailure"])
    chk.add_tlc("Handover necessity run: the accepted block is published before it is buffered (a block found on top of it reaches the buffer first: the flush "
                "hits the foreign key of the chain table)", rp, expect_violation="I_C09_NoFlushFailure")
    if not rp.violated:
        return machinery_failure(pid, "vacuity: Handover with SaveBeforePublish=FALSE never fails a flush")
    rv = tracecheck.model("MC_Handover", "MSpec", dict(base, SaveAfterValidation=True, SelectiveClear=True, AtomicRollback=True, MinerHandOverValidated=False), workers=2, timeout=600,
                          view="View", invariants=["I_C09_RejectionLeavesStateAsItWas"])
    chk.add_tlc("Handover necessity run: the miner's hand-over does not count as validated (a later rejection rolls the found block out of the state)", rv,
                expect_violation="I_C09_RejectionLeavesStateAsItWas")
    if not rv.violated:
        return machinery_failure(pid, "vacuity: Handover with MinerHandOverValidated=FALSE keeps the state on a rejection")
    for (sav, sel, atom, inv, fid) in ((False, True, True, "I_C09_RejectedNotStored", "F-C09c"), (True, False, True, "I_C12_FoundStored", "F-C12d"),
                                       (True, True, False, "I_C12_FoundStored", "F-C12d (stale rollback)")):
        rw = tracecheck.model("MC_Handover", "MSpec", dict(base, SaveAfterValidation=sav, SelectiveClear=sel, AtomicRollback=atom), workers=2, timeout=600, view="View", invariants=[inv])
        chk.add_tlc("Handover witness run for %s (order before the repair)" % fid, rw, expect_violation=inv)
        if not rw.violated:
            return machinery_failure(pid, "vacuity: Handover without the repair of %s does not violate %s" % (fid, inv))
    ro = tracecheck.model("MC_Handover", "MSpec", dict(base, XValid=True, SaveAfterValidation=True, SelectiveClear=True, AtomicRollback=True), workers=2, timeout=600, view="View",
                          invariants=["O_FoundStaysServed"])
    chk.add_tlc("Handover observation: last writer wins on ChainManager.coinstate (a block adopted by one thread can drop out of the served state; "
                "outside the wording of C09/C12, not judged)", ro, expect_violation="O_FoundStaysServed")
    chk.extra["handover_model_switches_probed_from_the_source"] = sw
    # ---- behaviours with the order the tree has, forced onto real threads
    n = 45 if quick else 700
    nfeas = ntot = 0
    for (name, xv, xd, irt) in COMBOS:
        c = {"XValid": xv, "XValidated": xd, "MinerOn": True, "EmitHist": True, "SaveAfterValidation": sw["SaveAfterValidation"], "SelectiveClear": sw["SelectiveClear"], "AtomicRollback": sw["AtomicRollback"], "MinerHandOverValidated": True, "SaveBeforePublish": sw["SaveBeforePublish"] or not sw["SaveAfterValidation"]}
        rg = tracecheck.model("MC_Handover", "MSpec", c, workers=1, timeout=900, invariants=["I_Emit"])
        tlc.require_clean(rg, "MC_Handover gen")
        hs = tlc.tagged(rg, "HIST")
        chk.states += rg.distinct
        if len(hs) < 100:
            return machinery_failure(pid, "only %d schedules from MC_Handover (%s)" % (len(hs), name))
        pick = rng.sample(hs, n) if len(hs) > n else hs
        # always include schedules in which the miner's hand-over (M5) and buffering (M7) fall inside the network thread's rejection path
        # (between the end of validation and the clean-up of the buffer): the narrowest windows of this model
        def inside(h_):
            idx = {(st["t"], st["a"]): i for i, st in enumerate(h_[0])}
            n5, r2, m5, m7 = idx.get(("net", "N5")), idx.get(("net", "R2")), idx.get(("miner", "M5")), idx.get(("miner", "M7"))
            return None not in (n5, r2, m5, m7) and n5 < m5 < r2 and m7 < r2
        narrow = [h_ for h_ in hs if inside(h_)]
        pick = pick + (rng.sample(narrow, 25) if len(narrow) > 25 else narrow)
        # ... and schedules in which the miner's snapshot and hand-over fall between the publication of the delivered block (N6) and the
        # relay decision (N8): the found block is a child of the delivered one and is the published head when the relay is decided
        def between(h_):
            idx = {(st["t"], st["a"]): i for i, st in enumerate(h_[0])}
            n6, n8, m1, m5 = idx.get(("net", "N6")), idx.get(("net", "N8")), idx.get(("miner", "M1")), idx.get(("miner", "M5"))
            return None not in (n6, n8, m1, m5) and n6 < m1 and m5 < n8
        betw = [h_ for h_ in hs if between(h_)]
        pick = pick + (rng.sample(betw, 15) if len(betw) > 15 else betw)
        # ... and, where the tree's order allows it at all, schedules in which a block found on top of the delivered one is buffered before it
        def overtakes(h_):
            idx = {(st["t"], st["a"]): i for i, st in enumerate(h_[0])}
            n6, n4, m1, m7 = idx.get(("net", "N6")), idx.get(("net", "N4")), idx.get(("miner", "M1")), idx.get(("miner", "M7"))
            return None not in (n6, n4, m1, m7) and n6 < m1 and m7 < n4
        over = [h_ for h_ in hs if overtakes(h_)]
        pick = pick + (rng.sample(over, 15) if len(over) > 15 else over)
        traces, info = [], {}
        for k, (h, out) in enumerate(pick):
            tid = 700000 + ntot
            ntot += 1
            w, g, blocks, txs = build_universe(cfg, keys)
            run = hd.HandoverRun(w, g, [blocks[1]], blocks[2] if xv else blocks[7], irt, tid, stops)
            try:
                feas, why, nexec = run.follow(h)
                obs = run.finish()
            finally:
                run.close()
            nfeas += 1 if feas else 0
            traces.append({"id": tid, "hist": h, "feasible": feas, "out": obs, "errors": run.errors})
            info[tid] = {"delivery": name, "schedule": [[s["t"], s["a"]] for s in h], "feasible_as_dictated": feas, "why_not": why, "observed": obs}
            chk.case(("handover", name, json.dumps(info[tid]["schedule"])), nontrivial=True)
        chk.sample({"two_thread_schedule_of_the_node": info[tid]})
        tc = {"XValid": xv, "XValidated": xd, "MinerOn": True, "SaveAfterValidation": sw["SaveAfterValidation"], "SelectiveClear": sw["SelectiveClear"], "AtomicRollback": sw["AtomicRollback"], "MinerHandOverValidated": True, "SaveBeforePublish": sw["SaveBeforePublish"] or not sw["SaveAfterValidation"]}
        verdicts, r2 = tracecheck.run("TraceHandover", traces, tc, ids=[t["id"] for t in traces], workers=2, timeout=1200)
        chk.states += r2.distinct
        chk.traces_validated += len(traces)
        foreign = chk.extra.setdefault("verdicts_of_other_properties", {})
        for (t_id, line, clause) in tlc.tagged(r2, "FINDING"):
            if clause.startswith(pid + ":"):
                chk.violation(clause, info[t_id], {"clause": clause})
            else:
                foreign[clause] = foreign.get(clause, 0) + 1
        for d in tlc.tagged(r2, "DRIFT"):
            chk.model_drift("two-thread schedule %s step %s: %s" % tuple(d[:3]))
    chk.extra["handover_schedules"] = {"replayed": ntot, "followed_as_dictated": nfeas}
    return 0


def stage_found_before(chk, pid, cfg, keys, build_universe, make_x, what, tid=800900, clause=None):
    """A mining round that is over before the delivery of a block that fails full validation starts: the state the node held before the
    attempt (which includes the block its own miner found, its head) is left exactly as it was."""
    w, g, blocks, txs = build_universe(cfg, keys)
    x = make_x(w, blocks)
    run = hd.HandoverRun(w, g, [blocks[1]], x, 0, tid)
    try:
        run.found_then_delivery()
        obs = run.finish()
        before, after = run.before_delivery, run.after_delivery
    finally:
        run.close()
    chk.case(("adversarial", what, "found_before"), nontrivial=True)
    if run.found and not obs["x_served"] and before != after:
        chk.violation(clause or "%s:chain_state_held_before_a_block_that_fails_full_validation_(%s)_is_not_left_as_it_was" % (pid, what),
                      {"blocks_before": len(before[0]), "blocks_after": len(after[0]), "head_changed": before[1] != after[1],
                       "the_block_the_miner_had_found_is_still_served": obs["b_served"], "errors": run.errors})
    return {"k": -1, "reached": 0, "found_now": True, "obs": obs, "errors": run.errors}


def stage_stale_snapshot(chk, pid, cfg, keys, build_universe):
    """The miner's snapshot is k = 0, 1, 2, 3 blocks behind when its result arrives (the network thread adopted k blocks of a peer in between):
    the found block -- valid, on a parent the node stores -- still becomes part of the chain state the node serves, is stored and is broadcast
    (C12, last sentence; Handover: A_C12_AdoptedAtHandOver holds whatever the network thread did before M5).  Judged by TLC (TraceFacts)."""
    from checks.store import cb as cbd, blk as blkd
    facts = []
    for k, second_miner in [(0, False), (1, False), (2, False), (3, False), (1, True), (2, True)]:
        w, g, blocks, txs = build_universe(cfg, keys)
        run = hd.HandoverRun(w, g, [blocks[1]], blocks[2], 0, 820000 + k + (10 if second_miner else 0))
        try:
            Mi = run.thr["miner"]
            Mi.call_stops = False
            Mi.submit(run._request_until_found)
            if Mi.exc is not None or not run.found:
                run.errors.append("miner request: %r" % Mi.exc)
            parent_abs, h = 1, 2
            for j in range(k):                                   # k blocks of a peer extend the head meanwhile
                d = blkd(40 + j, parent_abs, h, [cbd(40 + j, h, cfg.subsidy(h), k=2)])
                d["ts"] = 20 + h
                run.run.deliver_block("p", w.concretise(d))
                parent_abs, h = 40 + j, h + 1
            if second_miner:
                # another miner process of the same watcher asks for work in between: the watcher's own view moves on to the new head
                mw_ = run.run.mw
                q0 = mw_.send_queues[0]
                mw_.send_queues = [q0, type(q0)()]
                try:
                    run.run.node.use_store()
                    mw_.handle_request_scrypt_input_message(1, 424242)
                except Exception as e_:
                    run.errors.append("second miner's request: %r" % e_)
            if run.found:
                Mi.submit(run._job_found())
                Mi.wait_idle(20)
            obs = run.finish()
        finally:
            run.close()
        what = "result of the miner arrives when its snapshot is %d blocks behind%s" % (k, ", a second miner process asked for work in between" if second_miner else "")
        for clause, ok in (("C12:found_block_not_part_of_the_served_chain_state", obs["b_served"]), ("C12:found_block_not_written_to_store", obs["b_on_disk"]),
                           ("C12:found_block_not_broadcast", obs["b_bcast"]), ("C12:handling_a_found_block_raised", not run.errors)):
            facts.append({"clause": clause, "holds": bool(ok), "what": what + (" %s" % run.errors if run.errors else "")})
        chk.case(("stale_snapshot", k, second_miner), nontrivial=k > 0)
    v, r = tracecheck.run("TraceFacts", facts, {}, ids=[1], workers=1, timeout=300)
    chk.traces_validated += 1
    chk.states += r.distinct
    for (line, clause) in tlc.tagged(r, "FINDING"):
        if clause.startswith(pid + ":"):
            chk.violation(clause, {"schedule": facts[line - 1]["what"]}, {"clause": clause})
    return 0


def stage_full_block(chk, pid, keys):
    """The pending transactions just fit into one block (within a few hundred bytes of MAX_BLOCK_SIZE) and pay fees: the block the miner
    assembles from them and finds passes the node's own validation, pays subsidy + the fees of what it contains, is adopted, stored and
    broadcast (C12: 'pending transactions (fitting in one block)').  Facts judged by TLC (TraceFacts)."""
    import skepticoin.params as params
    import skepticoin.consensus as c
    from harness import node_drv, indep
    from checks.store import cb as cbd, tx as txd, blk as blkd
    from skepticoin.datatypes import Block, BlockHeader
    cfg_b = sk.Cfg(period=1000, timespan=4, initial_subsidy=10 ** 9, halving=10 ** 6, max_money=21 * 10 ** 14)
    sk.apply_cfg(cfg_b)
    facts = []
    try:
        w = sk.World(cfg_b, keys, tag=b"full")
        g = w.make_genesis(ts=5000)
        b1 = w.concretise(dict(blkd(1, 0, 1, [cbd(1, 1, cfg_b.subsidy(1), k=1)]), ts=5001))
        limit = params.MAX_BLOCK_SIZE
        total = cfg_b.subsidy(0)
        probe1 = len(indep.enc_tx(w.concretise_tx(dict(txd(901, [(0, 0, 1)], [(1, 2)] * 1 + [(total - 1 - 7000, 1)]), _owner={0: 1}))))
        probe2 = len(indep.enc_tx(w.concretise_tx(dict(txd(902, [(0, 0, 1)], [(1, 2)] * 2 + [(total - 2 - 7000, 1)]), _owner={0: 1}))))
        per = probe2 - probe1
        n = (limit - 1150 - probe1) // per + 1                      # leaves about 1 150 bytes for the reward transaction, the header and a small spend
        big = w.concretise_tx(dict(txd(903, [(0, 0, 1)], [(1, 2)] * n + [(total - n - 7000, 1)]), _owner={0: 1}))       # fee 7 000
        small = w.concretise_tx(dict(txd(904, [(10, 0, 1)], [(cfg_b.subsidy(1) - 5000, 3)]), _owner={0: 1}))          # fee 5 000
        run = node_drv.NodeRun(w, g, peers=["p", "q"], tid=970000, clock0=5002)
        try:
            run.deliver_block("p", b1)
            run.deliver_tx("p", big)
            run.deliver_tx("p", small)
            pool = run.node.pool()
            if len(pool) != 2:
                chk.notes.append("full block: the pool took %d of the 2 transactions; stage skipped" % len(pool))
                return 0
            run.miner()
            import skepticoin.mining as mining_
            mining_.print = lambda *a, **k: None
            found, raised, blk_ = False, "", None
            for nonce in range(1, 300):
                if run.mine_request(nonce) is None:
                    raised = run.last_error
                    break
                mw = run.mw
                kind_, payload = mw.send_queues[0].items[-1]
                summary, height = payload
                sh = c.construct_summary_hash(summary, height)
                n_before = len(run.node.chain().block_by_hash)
                run.node.use_store()
                try:
                    mw.handle_scrypt_output_message(0, sh)
                except Exception as e:
                    raised = repr(e)[:200]
                    break
                if len(run.node.chain().block_by_hash) > n_before:
                    found = True
                    blk_ = run.node.chain().head()
                    break
            size_all = len(indep.enc_tx(big)) + len(indep.enc_tx(small))
            what = "pending transactions of %d bytes in total (limit %d)" % (size_all, limit)
            facts.append({"clause": "C12:found_block_fails_own_full_validation", "holds": not raised, "what": what + ": " + raised})
            if found:
                ids_ = [indep.txid(t_) for t_ in blk_.transactions[1:]]
                fees_ = sum(f_ for (t_, f_) in ((big, 7000), (small, 5000)) if indep.txid(t_) in ids_)
                paid = sum(o.value for o in blk_.transactions[0].outputs)
                facts.append({"clause": "C12:reward_is_not_exactly_subsidy_plus_fees", "holds": paid == cfg_b.subsidy(2) + fees_, "what": what + ": reward %d, fees of the included %d" % (paid, fees_)})
                facts.append({"clause": "C12:candidate_does_not_contain_the_pending_transactions", "holds": len(ids_) == 2, "what": what + ": %d of 2 included" % len(ids_)})
                rows = {b_.hash() for b_ in run.node.store_rows()}
                facts.append({"clause": "C12:found_block_not_written_to_store", "holds": blk_.hash() in rows, "what": what})
                chk.extra["full_block"] = {"block_bytes": len(indep.enc_block(blk_)), "limit": limit, "transactions": len(blk_.transactions)}
            chk.case(("full_block",), nontrivial=found)
        finally:
            run.close()
    finally:
        sk.restore_cfg()
    if facts:
        v, r = tracecheck.run("TraceFacts", facts, {}, ids=[1], workers=1, timeout=300)
        chk.traces_validated += 1
        for (line, clause) in tlc.tagged(r, "FINDING"):
            chk.violation(clause, {"full_block": facts[line - 1]["what"]}, {"clause": clause, "how": "full_block"})
    return 0


def stage_adversarial(chk, quick, rng, pid, cfg, keys, build_universe, make_x, what):
    """Model-free: a relayed block X that fails full validation, with one mining round of the node's own miner placed at every call-level
    stop of the delivery (snapshot there, found block handled there or after the delivery).  P: X is neither in the served chain state
    nor in the store afterwards (C01/C02/C05: a block is accepted only if ...; C09: a rejected block leaves no trace)."""
    traces = []
    for found_now in (True, False):
        for k in range(0, 9):
            w, g, blocks, txs = build_universe(cfg, keys)
            x = make_x(w, blocks)
            run = hd.HandoverRun(w, g, [blocks[1]], x, 0, 800000 + len(traces))
            try:
                steps = run.adversarial(k, found_now)
                obs = run.finish()
            finally:
                run.close()
            traces.append({"k": k, "reached": steps, "found_now": found_now, "obs": obs, "errors": run.errors})
            chk.case(("adversarial", what, k, found_now), nontrivial=True)
            if steps < k:
                break
    traces.append(stage_found_before(chk, pid, cfg, keys, build_universe, make_x, what, 800000 + len(traces)))
    bad = [t for t in traces if t["obs"]["x_served"] or t["obs"]["x_on_disk"]]
    chk.extra.setdefault("mining_round_at_every_stop_of_a_rejected_delivery", {})[what] = {"runs": len(traces), "with_the_rejected_block_in_state_or_store": len(bad)}
    for t in bad[:5]:
        chk.violation("%s:block_that_fails_full_validation_(%s)_is_in_the_chain_state_or_store_after_a_concurrent_mining_round" % (pid, what),
                      {"miner_snapshot_taken_at_call_stop": t["k"], "found_block_handled_at_that_stop": t["found_now"], "observed": t["obs"], "errors": t["errors"]})
    return 0
