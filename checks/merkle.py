"""C17: Merkle.tla (free pair constructor) -- TLC decides injectivity of the construction and emits the tree /
proof shapes; the harness interprets them with SHA-256d and compares with the real code (spec -> code), and
records real commitments of edited lists / real proofs for TraceMerkle (code -> spec)."""
import os
import random
import hashlib

from harness import tlc, sk, tracecheck, indep
from harness.common import Check, seed, machinery_failure


def interp(shape, leaves):
    """Symbolic node -> bytes: leaf [i] -> leaves[i-1]; pair [l, r] -> sha256d(l || r)."""
    if len(shape) == 1:
        return leaves[shape[0] - 1]
    if len(shape) == 3:
        return interp(shape[0], leaves)
    return indep.sha256d(interp(shape[0], leaves) + interp(shape[1], leaves))


def match_proof(node, shape, leaves, want):
    """Walk the real proof node and the model's proof shape in parallel."""
    if len(shape) == 1:                      # the leaf of interest
        return (not node.children) and node.value == leaves[shape[0] - 1] and node.index == shape[0] - 1
    if len(shape) == 3:                      # collapsed subtree: childless node carrying the subtree's hash
        return (not node.children) and node.value == interp(shape[0], leaves)
    if len(node.children) != 2:
        return False
    return match_proof(node.children[0], shape[0], leaves, want) and match_proof(node.children[1], shape[1], leaves, want)


def has_leaf(node, value, index):
    if not node.children:
        return node.value == value and node.index == index
    return any(has_leaf(c, value, index) for c in node.children)


def safe_proof(M, tree, i):
    """get_proof, with an exception of the code under test as an observation (no proof produced)."""
    try:
        return M.get_proof(tree, i)
    except Exception:
        return None


def run(pid, tier, replay=None):
    chk = Check(pid, tier)
    quick = tier != "thorough"
    rng = random.Random(seed() + 17)
    sk.setup()
    import skepticoin.merkletree as M
    maxshape = 48 if quick else 130
    consts = {"Atoms": {1, 2, 3}, "MaxLen": 7 if quick else 8, "MaxShape": maxshape, "DuplicateOdd": False}
    r = tracecheck.model("Merkle", "Spec", consts, workers=1, timeout=1200,
                         invariants=["I_Injective", "I_DupLastDiffers", "I_ProofReproduces", "I_Emit"])
    tlc.require_clean(r, "Merkle")
    chk.add_tlc("Merkle (lists <= %d over 3 atoms; shapes <= %d)" % (consts["MaxLen"], maxshape), r, constants=str(consts))
    if r.violated:
        return machinery_failure(pid, "Merkle.tla violates %s" % r.violated)
    # necessity run: Bitcoin's duplicate-the-odd-element construction must collide in the model
    rn = tracecheck.model("Merkle", "Spec", dict(consts, MaxLen=4, MaxShape=2, DuplicateOdd=True), workers=1, timeout=300,
                          invariants=["I_Injective", "I_DupLastDiffers"])
    chk.add_tlc("Merkle necessity run (DuplicateOdd=TRUE must violate injectivity)", rn, expect_violation="I_Injective or I_DupLastDiffers")
    if not rn.violated:
        return machinery_failure(pid, "vacuity: the duplicate-odd construction did not produce a collision in the model")
    shapes = {n: s for n, s in tlc.tagged(r, "SHAPE")}
    proofs = {(n, i): s for n, i, s in tlc.tagged(r, "PROOF")}
    if len(shapes) != maxshape or len(proofs) != maxshape * (maxshape + 1) // 2:
        return machinery_failure(pid, "expected %d shapes, got %d / %d proofs" % (maxshape, len(shapes), len(proofs)))

    # ---- spec -> code: every shape, every position
    for n in range(1, maxshape + 1):
        leaves = [indep.sha256d(b"leaf%d.%d.%d" % (n, i, seed())) for i in range(n)]
        want = interp(shapes[n], leaves)
        got = M.get_merkle_root(list(leaves))
        chk.case(("root", n))
        if got != want:
            # not by itself a violation: another binding construction would also satisfy C17
            chk.model_drift("commitment for length %d differs from the pair-and-promote construction of Merkle!Root" % n)
        tree = M.get_merkle_tree(list(leaves))
        for i in range(1, n + 1):
            chk.case(("proof", n, i))
            pr = safe_proof(M, tree, i - 1)
            if pr is None:
                chk.violation("C17:no_inclusion_proof_produced_for_a_position_of_the_list", {"n": n, "i": i})
            elif not has_leaf(pr, leaves[i - 1], i - 1):
                chk.violation("C17:proof_lacks_the_entry", {"n": n, "i": i})
            elif pr.hash() != got:
                chk.violation("C17:proof_does_not_reproduce_commitment", {"n": n, "i": i})
            elif not match_proof(pr, proofs[(n, i)], leaves, i):
                chk.model_drift("proof shape for n=%d i=%d differs from Merkle!Proof" % (n, i))
    # the commitment is a function of the list: committing does not alter the list it is given (the same list object is committed to twice,
    # then its tree and its proofs are built from it)
    for n in range(1, maxshape + 1):
        leaves = [indep.sha256d(b"same%d.%d" % (n, i)) for i in range(n)]
        keep = list(leaves)
        r1 = M.get_merkle_root(leaves)
        r2 = M.get_merkle_root(leaves)
        tree = M.get_merkle_tree(leaves)
        chk.case(("same_list", n))
        if leaves != keep:
            chk.violation("C17:computing_the_commitment_changes_the_list_it_commits_to", {"n": n, "entries_left": len(leaves)})
        elif r1 != r2 or tree.hash() != r1:
            chk.violation("C17:same_list_different_commitment", {"n": n})
        else:
            pr = safe_proof(M, tree, n - 1)
            if pr is None or not has_leaf(pr, keep[n - 1], n - 1) or pr.hash() != r1:
                chk.violation("C17:proof_lacks_the_entry", {"n": n, "i": n})
    chk.sample({"n": 5, "tree_shape": shapes[5], "proof_of_3": proofs[(5, 3)]})

    # ---- code -> spec: edited lists, TLC judges "same commitment only for the same list"
    ev = []
    pool = [indep.sha256d(b"atom%d" % a) for a in range(1, 8)]
    nlists = 300 if quick else 5000
    for _ in range(nlists):
        n = rng.randint(1, 12)
        a = [rng.randint(1, 5) for _ in range(n)]
        b = list(a)
        kind = rng.choice(["substitute", "swap", "remove", "append", "dup_any", "dup_last", "dup_last", "same", "truncate_pair"])
        if kind == "substitute":
            b[rng.randrange(n)] = rng.randint(1, 7)
        elif kind == "swap" and n >= 2:
            i, j = rng.sample(range(n), 2)
            b[i], b[j] = b[j], b[i]
        elif kind == "remove" and n >= 2:
            del b[rng.randrange(n)]
        elif kind == "append":
            b.append(rng.randint(1, 7))
        elif kind == "dup_any":
            i = rng.randrange(n)
            b.insert(i, b[i])
        elif kind == "dup_last":
            b.append(b[-1])
        elif kind == "truncate_pair" and n >= 3:
            b = b[:-2]
        ra = M.get_merkle_root([pool[x - 1] for x in a])
        rb = M.get_merkle_root([pool[x - 1] for x in b])
        ev.append({"k": "pair", "a": a, "b": b, "same_root": ra == rb, "edit": kind})
        chk.case(("edit", kind, tuple(a), tuple(b)), nontrivial=(a != b))
    import itertools
    for n in range(1, 6):               # exhaustively: duplicate-last / append / remove-last on every short list over 2 atoms
        for a in itertools.product([1, 2], repeat=n):
            a = list(a)
            for kind, b in (("dup_last", a + [a[-1]]), ("append", a + [1]), ("remove_last", a[:-1])):
                if not b:
                    continue
                ra = M.get_merkle_root([pool[x - 1] for x in a])
                rb = M.get_merkle_root([pool[x - 1] for x in b])
                ev.append({"k": "pair", "a": a, "b": b, "same_root": ra == rb, "edit": kind})
                chk.case(("edit", kind, tuple(a), tuple(b)), nontrivial=True)
    # the same edits through the function that places the commitment in a block header (consensus.calc_merkle_root_hash, used by block
    # assembly and by validate_block_by_itself), on real Transaction objects: entry 1 plays the reward transaction
    import skepticoin.consensus as c
    from skepticoin.datatypes import Transaction, Input, Output, OutputReference
    from skepticoin.signing import CoinbaseData, SECP256k1PublicKey, SECP256k1Signature
    pk = SECP256k1PublicKey(b"\x05" * 64)
    txpool = [Transaction([Input(OutputReference(b"\x00" * 32, 0), CoinbaseData(7, b"r%d" % a))], [Output(10, pk)]) if a == 1 else
              Transaction([Input(OutputReference(indep.sha256d(b"o%d" % a), a), SECP256k1Signature(bytes([a]) * 64))], [Output(a, pk)])
              for a in range(1, 8)]
    ids_ = [t.hash() for t in txpool]
    nhdr = 0
    for e in [e for e in ev if e["k"] == "pair"]:
        for first in (None, 1):            # as generated, and with the reward transaction kept in first place on both sides
            a, b = list(e["a"]), list(e["b"])
            if first is not None:
                a, b = [1] + a, [1] + b
            ca = c.calc_merkle_root_hash([txpool[x - 1] for x in a])
            cb = c.calc_merkle_root_hash([txpool[x - 1] for x in b])
            ev.append({"k": "pair", "a": a, "b": b, "same_root": ca == cb, "edit": "header:" + e["edit"]})
            if ca != M.get_merkle_root([ids_[x - 1] for x in a]):
                chk.model_drift("header commitment of %r is not the merkle root of the transaction ids" % (a,))
            nhdr += 1
    chk.extra["header_commitment_pairs"] = nhdr
    for _ in range(100 if quick else 1000):
        n = rng.randint(1, 40)
        i = rng.randrange(n)
        leaves = [indep.sha256d(b"p%d.%d" % (n, j)) for j in range(n)]
        tree = M.get_merkle_tree(list(leaves))
        pr = safe_proof(M, tree, i)
        ev.append({"k": "proof", "n": n, "i": i + 1, "leaf_present": pr is not None and has_leaf(pr, leaves[i], i),
                   "reproduces": pr is not None and pr.hash() == M.get_merkle_root(list(leaves)),
                   "shape_matches": match_proof(pr, proofs[(n, i + 1)], leaves, i + 1) if (pr is not None and (n, i + 1) in proofs) else True})
    # long lists: "for every list" has no size limit (the header commitment of a candidate is computed from whatever is pending); lengths
    # around powers of two up to 2^18 and beyond, edits at the front and at the end, a few proofs
    import time as _t
    t_big = _t.time()
    sizes = [1023, 1024, 1025, 65536, 131073, 262143, 262144, 262145, 264144] if quick else \
        [1023, 1024, 1025, 4095, 4097, 65535, 65536, 65537, 131072, 131073, 262143, 262144, 262145, 264144, 524288, 524289, 1048577]
    nbig = 0
    for n_ in sizes:
        base = [hashlib.sha256(b"L%d" % j).digest() for j in range(n_)]
        r0 = M.get_merkle_root(list(base))
        if r0 != indep.merkle_root(list(base)):
            chk.model_drift("commitment of a list of %d entries differs from the independent computation" % n_)
        other = hashlib.sha256(b"other").digest()
        for kind, lst in (("substitute_first", [other] + base[1:]), ("swap_first_two", [base[1], base[0]] + base[2:]), ("remove_first", base[1:]),
                          ("substitute_last", base[:-1] + [other]), ("substitute_middle", base[:n_ // 2] + [other] + base[n_ // 2 + 1:])):
            ev.append({"k": "bigpair", "n": n_, "edit": kind, "same_root": M.get_merkle_root(lst) == r0})
            chk.case(("bigedit", n_, kind), nontrivial=True)
            nbig += 1
        if n_ in (1025, 262145) or (not quick and n_ <= 262145):
            tree = M.get_merkle_tree(list(base))
            for i_ in (0, n_ // 2, n_ - 1):
                pr = safe_proof(M, tree, i_)
                ev.append({"k": "bigproof", "n": n_, "i": i_ + 1, "leaf_present": pr is not None and has_leaf(pr, base[i_], i_),
                           "reproduces": pr is not None and pr.hash() == r0})
                nbig += 1
    chk.extra["long_lists"] = {"sizes": sizes, "events": nbig, "wall_s": round(_t.time() - t_big, 1)}
    chk.sample(ev[0])
    verdicts, r2 = tracecheck.run("TraceMerkle", ev, consts, ids=[1], workers=1)
    chk.states += r2.distinct
    chk.transitions += r2.generated
    chk.traces_validated += 1
    clause, line = verdicts[1]
    if clause != "ok":
        chk.violation(clause, {"event": ev[line - 1], "line": line})
    for dft in tlc.tagged(r2, "DRIFT"):
        chk.model_drift(str(dft))
    chk.extra["exhaustive"] = True
    # ---- the commitment is a function of the list, also when another thread computes commitments at the same time (the network thread
    # validates received blocks while the miner assembles candidates): preemption-point exploration on real threads -- thread A computes
    # root, tree and a proof of one list and is stopped before every line of merkletree.py; at each stop thread B computes another list's
    # commitment; A's results must be what A gets alone.
    from harness import preempt
    mt = M
    la = [hashlib.sha256(b"a%d" % i_).digest() for i_ in range(5)]
    lb = [hashlib.sha256(b"b%d" % i_).digest() for i_ in range(4)]
    ref = {"root": mt.get_merkle_root(list(la)), "tree": mt.get_merkle_tree(list(la)).hash(), "proof": mt.get_proof(mt.get_merkle_tree(list(la)), 3).hash(),
           "b": mt.get_merkle_root(list(lb))}

    def make():
        out = {}

        def a():
            out["root"] = mt.get_merkle_root(list(la))
            t_ = mt.get_merkle_tree(list(la))
            out["tree"] = t_.hash()
            out["proof"] = mt.get_proof(t_, 3).hash()

        def b():
            out["b"] = mt.get_merkle_root(list(lb))
            out["b2"] = mt.get_merkle_tree(list(lb)).hash()
        return {"a": a, "b": b, "observe": lambda: dict(out)}
    npre = nbad = 0
    for (k_, n_, blocked, obs, errs) in preempt.explore(make, ("skepticoin/merkletree.py",), ks=None if not quick else None):
        npre += 1
        chk.case(("preempt", k_), nontrivial=True)
        wrong = [x for x in ("root", "tree", "proof", "b") if obs.get(x) != ref[x]] + (["b2"] if obs.get("b2") != ref["b"] else [])
        if wrong or errs:
            nbad += 1
            chk.violation("C17:commitment_of_a_list_depends_on_what_another_thread_computes_at_the_same_time",
                          {"preemption_before_line_stop": k_, "of": n_, "results_that_differ_from_the_sequential_ones": wrong, "errors": errs})
    chk.extra["preemption_points_explored"] = npre
    chk.extra["rule"] = ("every list length 1..%d (the shape depends on the length only) and every position, the code's commitment/proof compared with "
                         "the SHA-256d interpretation of the shape TLC computed; plus %d random structural edits judged by TLC; non-trivial = the edit changes the list"
                         % (maxshape, nlists))
    chk.assumptions.append("collision resistance of SHA-256 and leaf values never equal to an inner node (ideal hash in the specification)")
    # ---- the list a block holds after it went through the store and a restart is the list its header commits to (crash at every SQL statement
    #      of a flush, multi-block flushes, re-delivery; StoreCrash.tla, TraceStore)
    from checks import store as storechk
    cfg_s = sk.Cfg(**storechk.MODEL_CFG)
    sk.apply_cfg(cfg_s)
    rc_ = storechk.crash_stage(chk, quick, rng, pid, cfg_s, sk.Keys(3))
    sk.restore_cfg()
    if rc_:
        return rc_
    return chk.finish()
