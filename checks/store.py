"""C08: Store.tla -- the relational state of the SQLite block store.  TLC enumerates, for fixed block universes
(forks sharing a pending transaction, identical reward transactions, multi-input/-output), every parent-before-child
arrival order and every batching into flushes; each behaviour is replayed on a real BlockStore (real SQLite file),
read back through a fresh connection after every flush, and judged by TLC (TraceStore)."""
import json
import random

from harness import tlc, sk, tracecheck, store_drv, indep, ledger_drv
from harness.common import Check, seed, machinery_failure

MODEL_CFG = dict(period=1000, timespan=4, initial_subsidy=8, halving=2, max_money=30)


def cb(bid, h, v, k=1, data=None):
    d = {"id": bid * 10, "ins": [{"ref": {"tx": -1, "idx": 0}, "kind": "cbdata", "signer": -1, "cbh": h, "small": True}],
         "outs": [{"v": v, "k": k}], "sizeok": True, "mut": ""}
    if data is not None:
        d["_data"] = data
    return d


def tx(tid, refs, outs):
    return {"id": tid, "ins": [{"ref": {"tx": t, "idx": i}, "kind": "secp", "signer": k, "cbh": -1, "small": True} for (t, i, k) in refs],
            "outs": [{"v": v, "k": k} for (v, k) in outs], "sizeok": True, "mut": ""}


def blk(bid, parent, h, txs):
    return {"id": bid, "parent": parent, "height": h, "ts": 10 + h, "powok": True, "evok": True, "merkleok": True, "sizeok": True,
            "mut": "", "txs": txs}


def universes():
    """name -> list of block descriptors (MC_Ledger format); subsidy 8 at heights 0-1, 4 at 2-3, 2 at 4-5."""
    T_shared = lambda tid: tx(tid, [(0, 0, 1)], [(3, 2), (5, 1)])         # spends the genesis reward, two outputs
    u = {}
    u["clean"] = [blk(1, 0, 1, [cb(1, 1, 8)]),
                  blk(2, 1, 2, [cb(2, 2, 4), tx(21, [(0, 0, 1)], [(3, 2), (5, 1)])]),
                  blk(3, 1, 2, [cb(3, 2, 4), tx(31, [(10, 0, 1)], [(8, 2)])]),
                  blk(4, 3, 3, [cb(4, 3, 4), tx(41, [(30, 0, 1), (31, 0, 2)], [(6, 1), (6, 2)])])]
    u["shared_pending_tx"] = [blk(1, 0, 1, [cb(1, 1, 8)]),
                              blk(2, 1, 2, [cb(2, 2, 4), T_shared(21)]),
                              blk(3, 1, 2, [cb(3, 2, 4), T_shared(31)]),
                              blk(4, 3, 3, [cb(4, 3, 4), tx(41, [(31, 0, 2)], [(3, 1)])])]
    u["identical_reward_tx"] = [blk(1, 0, 1, [cb(1, 1, 8)]),
                                blk(2, 1, 2, [cb(2, 2, 4, data=b"same")]),
                                blk(3, 1, 2, [cb(3, 2, 4, data=b"same"), tx(31, [(10, 0, 1)], [(8, 2)])]),
                                blk(4, 2, 3, [cb(4, 3, 4)])]
    # unusual but legal shapes: a reward transaction without outputs (the miner claims nothing), one with several outputs, a
    # transaction with several inputs and outputs, on both sides of a fork
    cb0 = lambda bid, h: dict(cb(bid, h, 1), outs=[])
    cbn = lambda bid, h, vs: dict(cb(bid, h, 1), outs=[{"v": v, "k": 1 + i % 2} for i, v in enumerate(vs)])
    u["odd_shapes"] = [blk(1, 0, 1, [cbn(1, 1, [3, 2, 3])]),
                       blk(2, 1, 2, [cb0(2, 2)]),
                       blk(3, 2, 3, [cb(3, 3, 4), tx(31, [(10, 0, 1), (10, 2, 1)], [(1, 2), (2, 1), (3, 2)])]),
                       blk(4, 1, 2, [cb0(4, 2), tx(41, [(10, 1, 2)], [(2, 1)])])]
    return u


def build(cfg, keys, descs, tag=b""):
    w = sk.World(cfg, keys, tag=tag)
    g = w.make_genesis()
    blocks = {0: g}
    for d in descs:
        blocks[d["id"]] = w.concretise(d)
    return w, g, blocks


def replay_hist(w, g, blocks, hist, tid):
    run = store_drv.StoreRun(w, g)
    try:
        for step in hist:
            if step["op"] == "buffer":
                run.buffer(blocks[step["id"]])
            elif step["op"] in ("flush", "flush_raises"):
                run.flush(honest=True)
        if run.buffered:
            run.flush(honest=True)
        return run.trace(tid)
    finally:
        run.close()


def lock_design(chk, pid):
    """StoreLock at design level: the lock over the whole flush keeps every handed-over block; each tempting narrowing loses one."""
    lc = {"Writers": {1, 2}, "Blocks": {1, 2, 3}, "LockScope": "whole", "MaxFlushes": 3}
    inv = ["I_NoBlockLost", "I_FlushedMeansStored", "I_LockDiscipline", "I_NoSqlError"]
    rl = tracecheck.model("StoreLock", "Spec", lc, workers=4, timeout=600, invariants=inv)
    tlc.require_clean(rl, "StoreLock")
    chk.add_tlc("StoreLock (2 writers, 3 blocks, <= 3 flushes, every interleaving of add / acquire / begin / commit / clear / release)", rl, constants=str(lc))
    if rl.violated:
        return machinery_failure(pid, "StoreLock violates %s" % rl.violated)
    for scope, invs in (("copy", ["I_NoBlockLost"]), ("swap", ["I_NoSqlError"])):
        rln = tracecheck.model("StoreLock", "Spec", dict(lc, LockScope=scope), workers=4, timeout=600, invariants=invs)
        chk.add_tlc("StoreLock necessity run: LockScope = %s (the lock released during the disk write)" % scope, rln, expect_violation=invs[0])
        if not rln.violated:
            return machinery_failure(pid, "vacuity: StoreLock with LockScope=%s violates nothing" % scope)
    return 0


def crash_design(chk, pid):
    """StoreCrash at design level: one flush as its SQL statements, the process killed before any of them."""
    bl = [{"id": 1, "txs": [{"id": 10, "nouts": 1, "nins": 1}, {"id": 11, "nouts": 2, "nins": 2}]},
          {"id": 2, "txs": [{"id": 20, "nouts": 1, "nins": 1}]}]
    inv = ["I_ReadBackIsWholeBlocks", "I_AllOrNothing", "I_DoneMeansAll"]
    defs = "BlocksDef == %s" % store_drv.tla(bl)
    r = tracecheck.model("StoreCrash", "Spec", {"Blocks": ("<-", "BlocksDef"), "Atomic": True}, workers=2, timeout=300, invariants=inv, extra_defs=defs)
    tlc.require_clean(r, "StoreCrash")
    chk.add_tlc("StoreCrash (one flush of 2 blocks / 3 transactions as 14 statements, a crash before each)", r, constants="Atomic=TRUE")
    if r.violated:
        return machinery_failure(pid, "StoreCrash violates %s" % r.violated)
    rn = tracecheck.model("StoreCrash", "Spec", {"Blocks": ("<-", "BlocksDef"), "Atomic": False}, workers=2, timeout=300, invariants=inv[:1], extra_defs=defs)
    chk.add_tlc("StoreCrash necessity run: Atomic = FALSE (every row durable on its own)", rn, expect_violation=inv[0])
    if not rn.violated:
        return machinery_failure(pid, "vacuity: StoreCrash without the SQL transaction violates nothing")
    return 0


def crash_stage(chk, quick, rng, pid, cfg, keys):
    """A crash at every SQL statement of a flush of the real store (forked process, SIGKILL), then a restart through the real
    read_chain_from_disk; afterwards the same blocks are handed over again and flushed.  Judged by TLC (TraceStore, op "crash")."""
    rc_ = crash_design(chk, pid)
    if rc_:
        return rc_
    cum = {}

    def cum_subsidy(h):
        if h not in cum:
            cum[h] = sum(cfg.subsidy(x) for x in range(h + 1))
        return cum[h]
    traces, info = [], {}
    plans = []
    for name in ("clean", "odd_shapes"):
        descs = universes()[name]
        order = [d["id"] for d in descs]
        plans.append((name, [order]))                      # everything in one flush
        plans.append((name, [order[:2], order[2:]]))       # two flushes: crashes in the second one
        if not quick:
            plans.append((name, [order[:1], order[1:3], order[3:]]))
    ncrash = 0
    for name, batches in plans:
        w, g, blocks = build(cfg, keys, universes()[name], tag=b"crash")
        for bi in range(len(batches)):
            k = 1
            while True:
                run_ = store_drv.StoreRun(w, g)
                try:
                    for b_ in batches[:bi]:
                        for i in b_:
                            run_.buffer(blocks[i])
                        run_.flush()
                    for i in batches[bi]:
                        run_.buffer(blocks[i])
                    killed = run_.flush_crash(k, cum_subsidy=cum_subsidy)
                    if killed:
                        ncrash += 1
                        for i in batches[bi]:              # the restarted node is given the same blocks again
                            run_.buffer(blocks[i], apply=False)
                        run_.flush()
                    for b_ in batches[bi + 1:]:
                        for i in b_:
                            run_.buffer(blocks[i])
                        run_.flush()
                    t = run_.trace(len(traces) + 1, prop=pid)
                    traces.append(t)
                    info[t["id"]] = ("%s, batches %s, crash at statement %d of flush %d" % (name, batches, k, bi + 1), "")
                    chk.case(("crash", name, str(batches), bi, k), nontrivial=killed)
                finally:
                    run_.close()
                if not killed:
                    break
                k += 1
                if k > 400:
                    return machinery_failure(pid, "a flush with more than 400 statements?")
    if ncrash < 40:
        return machinery_failure(pid, "only %d crash points were reached" % ncrash)
    chk.extra["crash_points_in_a_flush_of_the_real_store"] = ncrash
    ids = [t["id"] for t in traces]
    verdicts, r2 = tracecheck.run("TraceStore", traces, {}, ids=ids, workers=4, timeout=1800)
    chk.states += r2.distinct
    chk.transitions += r2.generated
    chk.traces_validated += len(traces)
    by = {t["id"]: t for t in traces}
    for t_id, (clause, line) in verdicts.items():
        if clause != "ok" and clause != "C08:shared_transaction_kept_for_first_block_only":
            if not clause.startswith(pid + ":"):
                clause = "%s:store_after_a_crash(%s)" % (pid, clause)
            chk.violation(clause, {"history": info[t_id][0], "event": by[t_id]["events"][line - 1]}, {"clause": clause})
    for dft in tlc.tagged(r2, "DRIFT"):
        chk.model_drift("crash trace %s event %s: %s" % tuple(dft[:3]))
    return 0


def two_writer_stage(chk, quick, rng, pid, cfg, keys):
    """C09 / C12: the relay path and the miner share the store's write buffer -- forced two-writer schedules on a real BlockStore."""
    from checks.ledger import RandomTree
    rc_ = lock_design(chk, pid)
    if rc_:
        return rc_
    lock_traces = []
    for i in range(6 if quick else 60):
        w = sk.World(cfg, keys, tag=b"tw%d" % i)
        rec = ledger_drv.Recorder(w, 1, full=False, snapshots=False)
        g = w.make_genesis()
        rec.start(g)
        rt = RandomTree(w, rec, rng, p_mut=0.0)
        for _ in range(8):
            rt.step()
        order = [w.by_abs[a] for a in rt.stored[1:]]
        run_ = store_drv.StoreRun(w, g)
        try:
            k = 0
            while k < len(order):
                run_.buffer(order[k])
                k += 1
                if k < len(order):
                    (run_.flush_with_concurrent_flush if (k + i) % 2 else run_.flush_with_concurrent_add)(order[k])
                    k += 1
            run_.flush()
            for lt in getattr(run_, "lock_traces", []):
                lock_traces.append(dict(lt, id=len(lock_traces) + 1))
        finally:
            run_.close()
    if not lock_traces:
        return machinery_failure(pid, "no two-writer schedule was run")
    vl, rlt = tracecheck.run("TraceStoreLock", lock_traces, {"Writers": {1, 2}, "Blocks": set(), "LockScope": "whole", "MaxFlushes": 99, "Prop": pid},
                             ids=[t["id"] for t in lock_traces], workers=1, timeout=600)
    chk.states += rlt.distinct
    chk.traces_validated += len(lock_traces)
    chk.extra["two_writer_schedules_on_the_store"] = len(lock_traces)
    for t_id, (clause, line) in vl.items():
        if clause != "ok":
            chk.violation(clause, {"two_writer_schedule": lock_traces[t_id - 1]}, {"clause": clause})
    for dft in tlc.tagged(rlt, "DRIFT"):
        chk.model_drift("two-writer schedule %s step %s: %s" % tuple(dft[:3]))
    return 0


def run(pid, tier, replay=None):
    chk = Check(pid, tier)
    quick = tier != "thorough"
    rng = random.Random(seed() + 8)
    sk.setup()
    cfg = sk.Cfg(**MODEL_CFG)
    sk.apply_cfg(cfg)
    keys = sk.Keys(3)
    traces, tid = [], 0
    info = {}
    for name, descs in universes().items():
        w, g, blocks = build(cfg, keys, descs)
        absb = [store_drv.abstract_block(w, blocks[i]) for i in sorted(blocks)]
        alias_of = {i: w.balias(blocks[i].hash()) for i in blocks}
        if absb[0]["id"] != 0:
            return machinery_failure(pid, "genesis alias is not 0")
        defs = "UniverseDef == %s" % store_drv.universe_tla(absb)
        consts = {"Universe": ("<-", "UniverseDef"), "EmitHist": False}
        r = tracecheck.model("MC_Store", "Spec", consts, workers=4, timeout=900, extra_defs=defs, view="View",
                             invariants=["I_C08_ReadBack", "I_NoFlushFailure"])
        tlc.require_clean(r, "MC_Store " + name)
        expect = None if name in ("clean", "odd_shapes") else "I_C08_ReadBack"
        chk.add_tlc("MC_Store universe=%s (every arrival order x every batching)" % name, r, constants=defs[:600], expect_violation=expect)
        if expect is None and r.violated:
            return machinery_failure(pid, "MC_Store violates %s on the %s universe" % (r.violated, name))
        if expect is not None and "I_C08_ReadBack" not in r.violated:
            chk.notes.append("universe %s: the model no longer loses the shared transaction" % name)
        if "I_NoFlushFailure" in r.violated:
            return machinery_failure(pid, "MC_Store: honest traffic breaks a flush in the model (%s)" % name)
        rg = tracecheck.model("MC_Store", "Spec", dict(consts, EmitHist=True), workers=1, timeout=900, extra_defs=defs,
                              invariants=["I_Emit"])
        tlc.require_clean(rg, "MC_Store gen " + name)
        hists = tlc.tagged_json(rg, "HIST")
        chk.states += rg.distinct
        if len(hists) < 20:
            return machinery_failure(pid, "only %d behaviours from MC_Store (%s)" % (len(hists), name))
        if quick and len(hists) > 250:
            hists = rng.sample(hists, 250)
        inv = {v: k for k, v in alias_of.items()}
        for h in hists:
            tid += 1
            hh = [{"op": s["op"], "id": inv.get(s["id"], 0)} for s in h]
            traces.append(replay_hist(w, g, blocks, hh, tid))
            info[tid] = (name, hh)
            chk.case((name, json.dumps(hh)), nontrivial=sum(1 for s in hh if s["op"] != "buffer") >= 2)
        chk.sample({"universe": name, "behaviour": info[tid][1]})

    rc_ = lock_design(chk, pid)
    if rc_:
        return rc_
    lock_traces = []
    # randomized trees (not from the model), random batching, some forks re-mining the same pending transactions
    from checks.ledger import RandomTree
    n = 12 if quick else 150
    for i in range(n):
        w = sk.World(cfg, keys, tag=b"s%d" % i)
        rec = ledger_drv.Recorder(w, 1, full=False, snapshots=False)
        g = w.make_genesis()
        rec.start(g)
        rt = RandomTree(w, rec, rng, p_mut=0.0)
        for _ in range(10 if quick else 30):
            rt.step()
        order = [w.by_abs[a] for a in rt.stored[1:]]
        run_ = store_drv.StoreRun(w, g)
        try:
            k = 0
            nconc = 0
            while k < len(order):
                run_.buffer(order[k])
                k += 1
                x = rng.random()
                if x < 0.2 and k < len(order):
                    run_.flush_with_concurrent_add(order[k])        # a second writer thread hands over the next block during the flush
                    k += 1
                    nconc += 1
                elif x < 0.35 and k < len(order):
                    run_.flush_with_concurrent_flush(order[k])      # ... hands it over and flushes, while the first flush's transaction is open
                    k += 1
                    nconc += 1
                elif x < 0.55:
                    run_.flush()
            run_.flush()
            info.setdefault("concurrent_hand_overs", 0)
            info["concurrent_hand_overs"] += nconc
            for lt in getattr(run_, "lock_traces", []):
                lock_traces.append(dict(lt, id=len(lock_traces) + 1))
            tid += 1
            traces.append(run_.trace(tid))
            info[tid] = ("random_tree", "%d blocks" % len(order))
            chk.case(("random", i), nontrivial=True)
        finally:
            run_.close()

    # an environment fault during a flush: the k-th SQL statement fails with "database is locked" (another process reads the file).  A flush
    # that raises has flushed nothing and claims nothing; a flush that returns normally must have stored what it was given.
    w_, g_, blocks_ = build(cfg, keys, universes()["clean"], tag=b"fault")
    for k_fault in range(1, 7):
        run_ = store_drv.StoreRun(w_, g_)
        try:
            run_.buffer(blocks_[1])
            run_.buffer(blocks_[2])
            run_.flush(honest=False, fault_at=k_fault)       # not an honest flush: the environment makes it fail
            tid += 1
            traces.append(run_.trace(tid))
            info[tid] = ("clean, SQL statement %d of the flush fails" % k_fault, "2 blocks")
            chk.case(("dbfault", k_fault), nontrivial=True)
        finally:
            run_.close()
    rc_ = crash_stage(chk, quick, rng, pid, cfg, keys)
    if rc_:
        return rc_
    from checks import bigstore
    bigstore.stage(chk, quick, rng, pid)
    # ---- "written to the block store and flushed" through the node's own disk interface (DiskInterface.save_block / flush_blocks) on a slow
    #      disk: when flush_blocks() has returned, a fresh connection reads the blocks back
    import time as _t
    import skepticoin.blockstore as bs_
    import skepticoin.networking.disk_interface as di_
    w_f, g_f, blocks_f = build(cfg, keys, universes()["clean"], tag=b"dif")
    run_f = store_drv.StoreRun(w_f, g_f)
    prev_inst = bs_.DefaultBlockStore.instance
    try:
        bs_.DefaultBlockStore.instance = run_f.store
        o_write = run_f.store.write_blocks_to_disk

        def slow_write(blocks__):
            _t.sleep(0.25)
            return o_write(blocks__)
        run_f.store.write_blocks_to_disk = slow_write
        dif = di_.DiskInterface()
        dif.save_block(blocks_f[1])
        dif.save_block(blocks_f[2])
        dif.flush_blocks()
        got = {b_.hash() for b_ in run_f.read_back()}
        missing = [i_ for i_ in (1, 2) if blocks_f[i_].hash() not in got]
        chk.case(("disk_interface_flush",), nontrivial=True)
        if missing:
            chk.violation("C08:written_block_missing_on_read_back", {"through": "DiskInterface.save_block / flush_blocks on a slow disk, read back when flush_blocks() has returned",
                                                                     "blocks_missing": len(missing)}, {"clause": "C08:written_block_missing_on_read_back", "how": "disk_interface"})
        _t.sleep(0.6)
    finally:
        bs_.DefaultBlockStore.instance = prev_inst
        run_f.close()
    from checks import wireforms
    rc_ = wireforms.stage(chk, quick, rng, pid)
    if rc_:
        return rc_
    sk.apply_cfg(cfg)
    chk.extra["concurrent_hand_overs_during_a_flush"] = info.pop("concurrent_hand_overs", 0)
    if lock_traces:
        vl, rlt = tracecheck.run("TraceStoreLock", lock_traces, {"Writers": {1, 2}, "Blocks": set(), "LockScope": "whole", "MaxFlushes": 99, "Prop": pid},
                                 ids=[t["id"] for t in lock_traces], workers=1, timeout=600)
        chk.states += rlt.distinct
        chk.traces_validated += len(lock_traces)
        for t_id, (clause, line) in vl.items():
            if clause != "ok":
                chk.violation(clause, {"two_writer_schedule": lock_traces[t_id - 1]}, {"clause": clause})
        for dft in tlc.tagged(rlt, "DRIFT"):
            chk.model_drift("two-writer schedule %s step %s: %s" % tuple(dft[:3]))
    ids = [t["id"] for t in traces]
    verdicts, r2 = tracecheck.run("TraceStore", traces, {}, ids=ids, workers=4, timeout=3000)
    chk.states += r2.distinct
    chk.transitions += r2.generated
    chk.traces_validated += len(traces)
    by = {t["id"]: t for t in traces}
    for (t_id, line, clause) in tlc.tagged(r2, "FINDING"):
        chk.violation(clause, {"universe": info[t_id][0], "behaviour": info[t_id][1], "event": by[t_id]["events"][line - 1]},
                      {"clause": clause})
    for t_id, (clause, line) in verdicts.items():
        if clause != "ok":
            chk.violation(clause, {"universe": info[t_id][0], "behaviour": info[t_id][1], "event": by[t_id]["events"][line - 1]},
                          {"clause": clause})
    for dft in tlc.tagged(r2, "DRIFT"):
        chk.model_drift("trace %s event %s: %s" % tuple(dft[:3]))
    chk.extra["rule"] = ("behaviour = (block universe, arrival order, batching into flushes), generated exhaustively by TLC from MC_Store for three universes "
                         "(quick: 250 sampled per universe) plus randomized trees with random batching; non-trivial = at least two flushes; after every flush the store is read "
                         "back through a fresh connection and the ledger rebuilt")
    chk.assumptions.append("the store's genesis row is the harness genesis (blockstore.genesis_block_data assigned before BlockStore() is created)")
    return chk.finish()
