"""C14 (and the key-pool/file part of C15 lives in checks/walletkeys.py): Wallet.tla + spend events in TraceLedger.

(a) TLC checks Wallet.tla (greedy collection over the wallet's outputs): a failed spend changes nothing, a spend uses only
    fresh outputs; the mark-while-collecting variant of the pinned tree (F-C14) must produce the counterexample.
(b) Behaviours (sequences of amounts/fees) from TLC and randomized sequences are run against the real
    create_spend_transaction on real chains whose outputs realise random distributions over wallet and foreign keys;
(c) TLC judges every call on its own ledger (TraceLedger!StepSpend).
"""
import json
import random

from harness import tlc, sk, tracecheck, ledger_drv, indep, store_drv
from harness.common import Check, seed, machinery_failure
from checks.ledger import RandomTree, judge

MODEL_CFG = dict(period=1000, timespan=4, initial_subsidy=8, halving=2, max_money=30)


def make_wallet(keys, wallet_keys):
    from skepticoin.wallet import Wallet
    w = Wallet.empty()
    for k in wallet_keys:
        w.keypairs[keys.pub[k]] = keys.sk[k].to_string()
        w.unused_public_keys.append(keys.pub[k])
    return w


def spend_event(world, rec, wallet, wallet_keys, amount, fee, recipient, change_key, truth=None):
    import skepticoin.wallet as W
    import skepticoin.consensus as c
    from skepticoin.signing import SECP256k1PublicKey
    cs = rec.cs
    keys = world.keys

    def rows(refset):
        return sorted([world.talias(r.hash), r.index] for r in refset)
    used_before = rows(wallet.spent_transaction_outputs)
    order = []
    for pub in wallet.keypairs.keys():
        pk = SECP256k1PublicKey(pub)
        bal = cs.at_head.public_key_balances
        if pk in bal:
            for r in bal[pk].output_references:
                order.append([world.talias(r.hash), r.index])
    ev = {"ev": "spend", "amount": amount, "fee": fee, "recipient": recipient, "change_key": change_key,
          "wallet_keys": list(wallet_keys), "used_before": used_before, "owned_order": order,
          "res": "tx", "tx": {"id": 0, "ins": [], "outs": [], "sizeok": True}, "real_validators_accept": True}
    try:
        t = W.create_spend_transaction(wallet, cs, amount, fee, keys.public_key(recipient), keys.public_key(change_key))
        ev["tx"] = world.observe_tx(t)
        try:
            c.validate_non_coinbase_transaction_by_itself(t)
            c.validate_non_coinbase_transaction_in_coinstate(t, cs.current_chain_hash, cs)
        except Exception:
            ev["real_validators_accept"] = False
    except Exception as e:
        ev["res"] = "insufficient" if "Insufficient balance" in str(e) else "error"
        ev["error"] = repr(e)[:200]
    ev["used_after"] = rows(wallet.spent_transaction_outputs)
    # what earlier spends of this wallet really used, from the transactions it returned (independent of its own record)
    ev["used_truth"] = sorted(truth) if truth is not None else ev["used_before"]
    if truth is not None and ev["res"] == "tx":
        for i in ev["tx"]["ins"]:
            truth.add((i["ref"]["tx"], i["ref"]["idx"]))
    ev["used_truth"] = [list(x) for x in ev["used_truth"]]
    return ev


def run(pid, tier, replay=None):
    chk = Check(pid, tier)
    quick = tier != "thorough"
    rng = random.Random(seed() * 13 + 14)
    sk.setup()
    cfg = sk.Cfg(**MODEL_CFG)
    sk.apply_cfg(cfg)
    keys = sk.Keys(4)
    wallet_keys = [1, 2, 3]

    # which variant does the tree have? (M-layer constant for the design-level run that must hold)
    outs = [{"ref": 1, "v": 2}, {"ref": 2, "v": 5}, {"ref": 3, "v": 1}, {"ref": 4, "v": 2}]
    defs = "OutsDef == %s" % store_drv.tla(outs)
    base = {"Outs": ("<-", "OutsDef"), "Amounts": {1, 3, 6, 9, 10, 11}, "Fees": {0, 1}, "KeyIds": {1, 2, 3}, "MaxOps": 4 if quick else 5}
    props = ["A_C14_InsufficientChangesNothing", "A_C14_InsufficientOnlyIfUnaffordable", "A_C14_SpendsOnlyFreshOutputs"]
    r = tracecheck.model("Wallet", "WSpec", dict(base, MarkBeforeKnown=False), properties=props, workers=8, timeout=900, extra_defs=defs)
    tlc.require_clean(r, "Wallet")
    chk.add_tlc("Wallet (4 outputs 2/5/1/2, amounts 1..11, fees 0/1, <= %d operations), record-on-success" % base["MaxOps"], r, constants=str(base))
    if r.violated:
        return machinery_failure(pid, "Wallet.tla violates %s" % r.violated)
    rw = tracecheck.model("Wallet", "WSpec", dict(base, MarkBeforeKnown=True, MaxOps=3), properties=props[:1], workers=4, timeout=600, extra_defs=defs)
    chk.add_tlc("Wallet witness run: mark-while-collecting (F-C14) must violate 'failed spend changes nothing'", rw,
                expect_violation="A_C14_InsufficientChangesNothing")
    if not rw.violated:
        return machinery_failure(pid, "vacuity: the mark-while-collecting variant does not violate the property in the model")

    traces, recs = [], []
    n = 40 if quick else 400
    for i in range(n):
        w = sk.World(cfg, keys, tag=b"w%d" % i)
        rec = ledger_drv.Recorder(w, i + 1, full=False, snapshots=False)
        rec.start(w.make_genesis(miner=rng.choice([1, 2, 4])))
        rt = RandomTree(w, rec, rng, nkeys=4, p_mut=0.0)
        for _ in range(rng.randint(2, 9)):
            rt.step()
        wallet = make_wallet(keys, wallet_keys)
        cs = rec.cs
        from skepticoin.signing import SECP256k1PublicKey
        bal = sum(cs.at_head.public_key_balances[SECP256k1PublicKey(keys.pub[k])].value
                  for k in wallet_keys if SECP256k1PublicKey(keys.pub[k]) in cs.at_head.public_key_balances)
        lab = []
        truth = set()
        for _ in range(rng.randint(2, 6)):
            amount = max(1, rng.choice([1, 2, bal // 2, bal - 1, bal, bal + 1, bal + 5, rng.randint(1, max(1, bal + 2))]))
            fee = rng.choice([0, 0, 1, 2])
            ev = spend_event(w, rec, wallet, wallet_keys, amount, fee, rng.choice([4, 4, 1]), rng.choice([2, 3]), truth=truth)
            rec.events.append(ev)
            rec.abstract.append({"act": "spend", "amount": amount, "fee": fee, "balance": bal, "res": ev["res"]})
            lab.append((amount, fee, ev["res"]))
            if rng.random() < 0.25:
                rt.step()            # the chain moves on between spends
        traces.append(rec.trace())
        recs.append(rec)
        chk.case(json.dumps(lab), nontrivial=any(x[2] == "insufficient" for x in lab) and any(x[2] == "tx" for x in lab))
    chk.sample({"source": "randomized chain + spend sequence", "steps": [a for a in recs[0].abstract if a and a.get("act") == "spend"]})
    judge(chk, traces, recs, cfg, {pid})
    chk.extra["rule"] = ("case = (random chain distributing outputs over 3 wallet keys and a foreign key, sequence of 2-6 spends with amounts below/at/above "
                         "the balance and fees 0-2, chain sometimes extended in between); non-trivial = the sequence has a failed attempt and a successful spend")
    # ---- a spend is a function of (wallet, ledger, amount, fee) also while the network thread works: the script's thread builds and signs a
    #      spend and is stopped before every line it executes in the wallet / signing / serialisation modules; at each stop the other thread
    #      hashes a block header and serialises a message (Interfere.tla; preemption-point exploration on real threads)
    from checks import interfere
    rc_ = interfere.design(chk, pid)
    if rc_:
        return rc_
    import skepticoin.wallet as W_
    import skepticoin.consensus as c_
    import skepticoin.networking.messages as M_
    sk.apply_cfg(cfg)
    w_i = sk.World(cfg, keys, tag=b"wint")
    rec_i = ledger_drv.Recorder(w_i, 9999, full=False, snapshots=False)
    rec_i.start(w_i.make_genesis(miner=1))
    rt_i = RandomTree(w_i, rec_i, rng, nkeys=4, p_mut=0.0)
    for _ in range(6):
        rt_i.step()
    cs_i = rec_i.cs
    from skepticoin.signing import SECP256k1PublicKey as PK_
    bal_i = sum(cs_i.at_head.public_key_balances[PK_(keys.pub[k])].value for k in wallet_keys if PK_(keys.pub[k]) in cs_i.at_head.public_key_balances)
    head_i = cs_i.head()

    def fa():
        wal = make_wallet(keys, wallet_keys)
        try:
            t_ = W_.create_spend_transaction(wal, cs_i, max(1, bal_i - 1), 0, keys.public_key(4), keys.public_key(2))
        except Exception as e_:
            return ("no transaction", type(e_).__name__)
        try:
            c_.validate_non_coinbase_transaction_by_itself(t_)
            c_.validate_non_coinbase_transaction_in_coinstate(t_, cs_i.current_chain_hash, cs_i)
            ok_ = "passes full transaction validation"
        except Exception as e_:
            ok_ = "refused: %s" % sk.rule_of_exception(e_)
        return (ok_, [o.value for o in t_.outputs], len(t_.inputs))

    def fb():
        return (head_i.header.summary.serialize().hex()[:16], M_.GetBlocksMessage([head_i.hash()], b"\x00" * 32).serialize().hex()[:16], head_i.hash().hex()[:16])
    if bal_i >= 2:
        itr = interfere.explore_pair(chk, pid, "spend_built_by_the_wallet", fa, fb, quick, rng,
                                     files=("skepticoin/wallet.py", "skepticoin/signing.py", "skepticoin/serialization.py", "skepticoin/datatypes.py"),
                                     max_points=200 if quick else 3000)
        interfere.judge(chk, itr, pid)
    else:
        chk.notes.append("interference stage skipped: the wallet of the generated chain holds less than 2 units")
    return chk.finish()
