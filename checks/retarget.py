"""C05, real constants: chains that reach real retarget boundaries (height 10,080 and, in the thorough tier, 20,160 on two forks whose
period starts differ), candidates with the prescribed / slightly wrong / capped targets offered to the real full validation and the
real block assembly; TLC recomputes every prescribed target with BigNat (TraceRetarget)."""
import time

from harness import sk, tlc, tracecheck, indep


def _chain(c, dt, CoinState, genesis, n, step, pk, tag=b"", cs=None, parent=None, start_h=1):
    """n history blocks (added without validation: only their timestamps, targets and bytes matter), timestamps `step` apart."""
    from skepticoin.datatypes import Block, BlockHeader, BlockSummary, PowEvidence
    cs = cs or CoinState.empty().add_block_no_validation(genesis)
    parent = parent or genesis
    for h in range(start_h, start_h + n):
        cb = c.construct_coinbase_transaction(h, [], cs.unspent_transaction_outs_by_hash[parent.hash()], b"r" + tag, pk)
        summ = BlockSummary(h, parent.hash(), c.calc_merkle_root_hash([cb]), parent.timestamp + step, parent.target, 0)
        blk = Block(BlockHeader(summ, PowEvidence(b"\x00" * 32, b"\x00" * 32, b"\x00" * 32)), [cb])
        cs = cs.add_block_no_validation(blk)
        parent = blk
    return cs, parent


def stage(chk, quick, rng, pid):
    t0 = time.time()
    sk.restore_cfg()                          # whatever model-sized configuration an earlier stage left behind
    real = sk.read_real_constants()
    cfg = sk.Cfg(stub_scrypt=True, **real)          # real period / timespan / subsidy constants, stand-in scrypt, no checkpoints
    sk.apply_cfg(cfg)
    try:
        import skepticoin.consensus as c
        import skepticoin.datatypes as dt
        from skepticoin.coinstate import CoinState
        from skepticoin.signing import SECP256k1PublicKey
        period, timespan = cfg.period, cfg.timespan
        keys = sk.Keys(2)
        w = sk.World(cfg, keys, genesis_target=b"\x80" + b"\x00" * 31, tag=b"rt")
        g = w.make_genesis(ts=1_600_000_000)
        pk = SECP256k1PublicKey(keys.pub[1])
        events, info = [], []

        def offer(cs, parent, start_ts, elapsed, stated, pure, label):
            """A block on `parent` at a boundary height with timestamp start_ts + elapsed and the stated target; everything else valid."""
            h = parent.height + 1
            ts = start_ts + elapsed
            if ts <= parent.timestamp:
                return
            if int.from_bytes(stated, "big") < (1 << 244):
                return                      # too hard to mine in the harness
            cb = c.construct_coinbase_transaction(h, [], cs.unspent_transaction_outs_by_hash[parent.hash()], b"cand", pk)
            blk = None
            for nonce in range(60000):
                summ = dt.BlockSummary(h, parent.hash(), c.calc_merkle_root_hash([cb]), ts, stated, nonce)
                ev = c.construct_pow_evidence(cs, summ, h, [cb])
                cand = dt.Block(dt.BlockHeader(summ, ev), [cb])
                if indep.blockid(cand) < stated:
                    blk = cand
                    break
            if blk is None:
                return
            try:
                cs.add_block(blk, ts + 5)
                acc = True
            except Exception:
                acc = False
            events.append({"kind": "validate", "boundary": h % period == 0, "prev": list(parent.target), "elapsed": elapsed, "stated": list(stated),
                           "accepted": acc, "pure": pure})
            info.append({"height": h, "elapsed": elapsed, "label": label, "stated_hex": stated.hex(), "accepted": acc})
            chk.case(("retarget", h, elapsed, stated.hex()), nontrivial=True)

        def assemble(cs, parent, start_ts, elapsed, label):
            h = parent.height + 1
            ts = start_ts + elapsed
            if ts <= parent.timestamp or cs.head().hash() != parent.hash():
                return                      # the node assembles on its head only
            try:
                summ = c.construct_minable_summary(cs, [c.construct_coinbase_transaction(h, [], cs.unspent_transaction_outs_by_hash[parent.hash()], b"a", pk)], ts, 0)
                stated = summ.target
            except Exception as e:
                chk.notes.append("construct_minable_summary raised at a boundary: %r" % e)
                return
            events.append({"kind": "assemble", "boundary": h % period == 0, "prev": list(parent.target), "elapsed": elapsed, "stated": list(stated),
                           "accepted": True, "pure": True})
            info.append({"height": h, "elapsed": elapsed, "label": label, "stated_hex": stated.hex(), "assembled": True})
            chk.case(("assemble", h, elapsed), nontrivial=True)

        def probes(cs, parent, start_ts, label):
            prev = int.from_bytes(parent.target, "big")
            cap_e = -(-((1 << 256) * timespan) // prev)             # smallest elapsed whose quotient reaches 2^256
            elapsed_set = {timespan, timespan + 1, timespan - 1, timespan // 2, timespan * 3 // 2, 777_777, timespan // 7 + 3,
                           cap_e - 1, cap_e, cap_e + 1, 2 * timespan, 200 * timespan if 200 * timespan < 2 ** 31 else 2 ** 31 - 1}
            for _ in range(4 if quick else 40):
                elapsed_set.add(rng.randrange(timespan // 60, min(3 * cap_e, 2 ** 31 - 1)))
            floor_ts = parent.timestamp - start_ts + 1
            for e in sorted(x for x in elapsed_set if floor_ts <= x < 2 ** 31):
                want = min(prev * e // timespan, (1 << 256) - 1)
                wb = want.to_bytes(32, "big")
                assemble(cs, parent, start_ts, e, label)
                offer(cs, parent, start_ts, e, wb, True, label + ": prescribed")
                for wrong, why in ((want + 1, "+1"), (want - 1, "-1"), (prev, "unchanged"), (1 << 255, "2^255"), ((1 << 256) - 1, "max"),
                                   (min(prev * (e + 1) // timespan, (1 << 256) - 1), "elapsed+1"), (prev * e // timespan % (1 << 256), "wrapped")):
                    if 0 < wrong < (1 << 256) and wrong != want:
                        offer(cs, parent, start_ts, e, wrong.to_bytes(32, "big"), False, label + ": " + why)

        cs, tip = _chain(c, dt, CoinState, g, period - 1, 100, pk)
        probes(cs, tip, g.timestamp, "first boundary (height %d)" % period)
        # inside a period: a changed target is not prescribed
        nb = _chain(c, dt, CoinState, g, 5, 100, pk)
        for stated in (g.target, bytes([g.target[0] ^ 1]) + g.target[1:], b"\xff" * 32):
            offer(nb[0], nb[1], nb[1].timestamp, 7, stated, stated == g.target, "inside a period")
        built = period + 5
        if not quick:
            # second boundary on two forks that diverge at the first one: their period starts (height 10,080) carry different timestamps
            prev = int.from_bytes(tip.target, "big")
            forks = []
            for (tagf, e1) in ((b"A", timespan), (b"B", timespan // 2 + 17)):
                want = min(prev * e1 // timespan, (1 << 256) - 1).to_bytes(32, "big")
                cb = c.construct_coinbase_transaction(period, [], cs.unspent_transaction_outs_by_hash[tip.hash()], b"f" + tagf, pk)
                summ = dt.BlockSummary(period, tip.hash(), c.calc_merkle_root_hash([cb]), g.timestamp + e1, want, 0)
                first = dt.Block(dt.BlockHeader(summ, dt.PowEvidence(b"\x00" * 32, b"\x00" * 32, b"\x00" * 32)), [cb])
                forks.append((tagf, first))
            cs2 = cs
            for (_, first) in forks:
                cs2 = cs2.add_block_no_validation(first)
            tips = []
            for (tagf, first) in forks:
                cs2, t2 = _chain(c, dt, CoinState, g, period - 1, 90, pk, tag=tagf, cs=cs2, parent=first, start_h=period + 1)
                tips.append((tagf, first, t2))
                built += period
            for (tagf, first, t2) in tips:
                probes(cs2, t2, first.timestamp, "second boundary (height %d) on fork %s" % (2 * period, tagf.decode()))
                # the other fork's period start must not be used: the target prescribed from it is a wrong target here
                other = [f for (tg, f, _) in tips if tg != tagf][0]
                e = t2.timestamp - first.timestamp + 1000
                wrong = min(int.from_bytes(t2.target, "big") * (first.timestamp + e - other.timestamp) // timespan, (1 << 256) - 1)
                if wrong != min(int.from_bytes(t2.target, "big") * e // timespan, (1 << 256) - 1):
                    offer(cs2, t2, first.timestamp, e, wrong.to_bytes(32, "big"), False, "target prescribed from the other fork's period start")
        chk.extra["real_constant_retarget"] = {"period": period, "timespan": timespan, "history_blocks_built": built, "probes": len(events),
                                               "accepted": sum(1 for e in events if e["kind"] == "validate" and e["accepted"]),
                                               "build_and_probe_wall_s": round(time.time() - t0, 1)}
        if not events:
            return
        vv, r = tracecheck.run("TraceRetarget", events, {"Timespan": timespan, "W": 32}, ids=[1], workers=1, timeout=1800)
        chk.states += r.distinct
        chk.traces_validated += len(events)
        for (line, clause) in tlc.tagged(r, "FINDING"):
            chk.violation(clause, dict(info[line - 1], prev_target_hex=bytes(events[line - 1]["prev"]).hex()), {"clause": clause})
        for (line, m) in tlc.tagged(r, "DRIFT"):
            chk.model_drift("retarget probe %s: %s" % (info[line - 1], m))
    finally:
        sk.restore_cfg()
