"""C16: Subsidy.tla (era machine, BigNat totals) + TraceSubsidy over observed get_block_subsidy values."""
import random
import re

from harness import tlc, sk, tracecheck, indep
from harness.common import Check, seed, machinery_failure, tla_lit
from harness.tracecheck import digits


def documented():
    """The documented parameters (docs/params.md) -- the constants of the specification."""
    txt = open(sk.REPO + "/docs/params.md").read()
    coin = int(re.search(r"\* (\d+) coin subsidy", txt).group(1))
    interval = int(re.search(r"\* ([\d,]+) block halving interval", txt).group(1).replace(",", ""))
    mx = re.search(r"\* ([\d,]+)\.(\d+) maximum total amount", txt)
    decimals = len(mx.group(2))
    unit = 10 ** decimals
    max_units = int(mx.group(1).replace(",", "")) * unit + int(mx.group(2))
    return coin * unit, interval, max_units


def run(pid, tier, replay=None):
    chk = Check(pid, tier)
    quick = tier != "thorough"
    rng = random.Random(seed() + 16)
    sk.setup()
    initial, interval, docmax = documented()
    # the property text fixes the same numbers: 10 coin, 1,050,000 blocks, 2,099,999,986,350,000
    if (initial, interval, docmax) != (10 ** 9, 1_050_000, 2_099_999_986_350_000):
        chk.violation("C16:documentation_differs_from_property_text", {"documented": [initial, interval, docmax]})
    consts = {"Initial": 10 ** 9, "Interval": 1_050_000, "DocMax": digits(2_099_999_986_350_000), "LastEra": 70}

    # (a) design level: the era machine
    r = tracecheck.model("Subsidy", "SSpec", consts, workers=1, timeout=300,
                         invariants=["I_ClosedForm", "I_NonIncreasing", "I_ZeroStaysZero", "I_ZeroFrom30", "I_TotalIsDocMax", "I_NeverAboveMax"])
    tlc.require_clean(r, "Subsidy")
    chk.add_tlc("Subsidy (eras 0..70, documented constants)", r, constants=str(consts))
    if r.violated:
        return machinery_failure(pid, "Subsidy.tla violates %s with the documented constants: documentation and "
                                 "property text are inconsistent with the era machine" % r.violated)
    if r.distinct < 70:
        return machinery_failure(pid, "Subsidy.tla explored only %d states" % r.distinct)

    # (b) observed values
    import skepticoin.consensus as c
    import skepticoin.params as P
    ev = []
    for name in ("MAX_SASHIMI", "INITIAL_SUBSIDY", "SUBSIDY_HALVING_INTERVAL"):
        ev.append({"k": "param", "name": name, "value": digits(getattr(P, name))})
        # the names as imported into the module that uses them
        if hasattr(c, name):
            ev.append({"k": "param", "name": name, "value": digits(getattr(c, name))})

    def accepted(v):
        try:
            c.validate_sashimi_range(v)
            return True
        except Exception:
            return False
    # probe the validator's limit by bisection over [1, 2^64]
    lo, hi = 1, 1 << 64
    if accepted(lo) and not accepted(hi):
        while hi - lo > 1:
            mid = (lo + hi) // 2
            if accepted(mid):
                lo = mid
            else:
                hi = mid
    mono_ok = all(accepted(v) for v in (1, 2, docmax // 2, docmax - 1)) and not any(accepted(v) for v in (docmax + 1, docmax * 2, (1 << 64) - 1))
    ev.append({"k": "limit", "largest_accepted": digits(lo if mono_ok else 0), "zero_accepted": accepted(0) or accepted(-1)})

    heights = set()
    for e in range(0, 72):
        for dlt in (-2, -1, 0, 1, 2):
            h = e * interval + dlt
            if h >= 0:
                heights.add(h)
    for h in (0, 1, 2 ** 31 - 1, 2 ** 31, 2 ** 32 - 2, 2 ** 32 - 1, 2 ** 32, 64 * interval - 1, 64 * interval, 2 ** 40 - 1):
        heights.add(h)
    nsamp = 20000 if quick else 200000
    for _ in range(nsamp):
        heights.add(rng.randrange(0, 31 * interval))
    for _ in range(nsamp // 10):
        heights.add(rng.randrange(0, 2 ** 32))
    hs = sorted(heights)
    vals = {}
    for h in hs:
        v = c.get_block_subsidy(h)
        vals[h] = v
        ev.append({"k": "height", "h": digits(h), "v": v if 0 <= v < 2 ** 31 else -1})
        chk.case(h, nontrivial=True)
    for a, b in zip(hs, hs[1:]):
        if vals[b] > vals[a]:
            ev.append({"k": "mono", "a": digits(a), "b": digits(b), "va": min(vals[a], 2 ** 31 - 1), "vb": min(vals[b], 2 ** 31 - 1)})
    ev.append({"k": "mono", "a": [0], "b": digits(hs[-1]), "va": vals[0], "vb": vals[hs[-1]]})
    if not quick:
        # exhaustive over all heights with non-zero subsidy: per-era scan
        total = 0
        for e in range(0, 32):
            lo_h, hi_h = e * interval, (e + 1) * interval
            f = c.get_block_subsidy
            vs = [f(h) for h in range(lo_h, hi_h)]
            ev.append({"k": "era", "era": e, "vmin": min(vs), "vmax": max(vs), "n": len(vs)})
            total += sum(vs)
            chk.evaluations += len(vs)
        ev.append({"k": "sum", "total": digits(total)})
        chk.extra["exhaustive"] = True
    else:
        # sum from the era representatives (one value per era, eras 0..64) -- exact if the per-era values are constant,
        # which the boundary +-2 samples and the random samples test
        total = sum(c.get_block_subsidy(e * interval) * interval for e in range(0, 65))
        ev.append({"k": "sum", "total": digits(total)})
    # (c) the schedule as *enforced*: the reward rule of block validation (validate_coinbase_transaction_in_coinstate) probed with a
    #     chain state whose head is at height h-1 (a parentless block filed at that height) and a fee-less block at height h
    from skepticoin.datatypes import Block, BlockHeader, BlockSummary, PowEvidence, Transaction, Input, Output, OutputReference
    from skepticoin.signing import CoinbaseData, SECP256k1PublicKey
    from skepticoin.coinstate import CoinState
    pk = SECP256k1PublicKey(b"\x07" * 64)

    def blk(height, prev, value, parts=None):
        outs = [Output(value, pk)] if parts is None else [Output(v_, pk) for v_ in parts]
        cb = Transaction([Input(OutputReference(b"\x00" * 32, 0), CoinbaseData(height, b"probe"))], outs)
        summ = BlockSummary(height, prev, b"\x11" * 32, 1_700_000_000 + (height & 0xffff), b"\xff" * 32, 0)
        return Block(BlockHeader(summ, PowEvidence(b"\x00" * 32, b"\x00" * 32, b"\x00" * 32)), [cb])
    probe_heights = set()
    for e in list(range(1, 67)) + [70]:
        for dlt in (-1, 0, 1):
            probe_heights.add(e * interval + dlt)
    probe_heights |= {1, 2, 2 ** 32 - 1, 2 ** 31, 2 ** 31 + 1}
    for _ in range(40 if quick else 400):
        probe_heights.add(rng.randrange(1, 33 * interval))
    nprobe = 0
    for h in sorted(probe_heights):
        parent = blk(h - 1, b"\x00" * 32, 1)
        try:
            cs = CoinState.empty().add_block_no_validation(parent)
        except Exception as ex:
            return machinery_failure(pid, "cannot build a chain state at height %d: %r" % (h - 1, ex))
        era = h // interval
        s_doc = initial // (2 ** era) if era < 64 else 0
        s_prev = initial // (2 ** (era - 1)) if 1 <= era < 65 else 0
        for v in sorted({s_doc, s_doc + 1, s_prev, max(s_doc - 1, 0)}):
            b = blk(h, parent.hash(), v)
            try:
                c.validate_coinbase_transaction_in_coinstate(b.transactions[0], b, cs)
                acc = True
            except c.ValidationError:
                acc = False
            ev.append({"k": "enforce", "h": digits(h), "v": v, "accepted": acc})
            nprobe += 1
        # the reward spread over several outputs: the rule is about their total
        splits = [[s_doc, 1], [1, s_doc], [s_doc, s_doc], [1] * 3 + [s_doc]]
        if s_doc >= 2:
            splits += [[s_doc // 2, s_doc - s_doc // 2], [s_doc // 2 + 1, s_doc - s_doc // 2], [s_doc - 1, 1, 1], [s_doc - 1, 1]]
        for parts in splits:
            parts = [p_ for p_ in parts if p_ > 0]
            if not parts or sum(parts) >= 2 ** 31:
                continue
            b = blk(h, parent.hash(), 0, parts)
            try:
                c.validate_coinbase_transaction_in_coinstate(b.transactions[0], b, cs)
                acc = True
            except c.ValidationError:
                acc = False
            ev.append({"k": "enforce", "h": digits(h), "v": sum(parts), "accepted": acc})
            nprobe += 1
        # ... and as it arrives from a peer: the block as bytes (independent encoder: the amount is an unsigned 64-bit field), decoded by the
        # node; amounts whose top bit is set next to an ordinary output -- the total is far above any subsidy
        if h in (1, interval, interval + 1) or nprobe % 97 == 0:
            for d_ in (1, 10 ** 9, 2 ** 62):
                for parts in ([s_doc + d_, 2 ** 64 - d_], [2 ** 64 - d_, s_doc + d_], [s_doc + d_, 2 ** 63, 2 ** 63 - d_]):
                    if any(not 0 <= p_ < 2 ** 64 for p_ in parts):
                        continue
                    try:
                        bw = blk(h, parent.hash(), 0, parts)
                        raw = indep.enc_block(bw)
                    except Exception as ex:
                        chk.notes.append("cannot encode the wire probe: %r" % ex)
                        continue
                    try:
                        bd = Block.deserialize(raw)
                    except Exception:
                        ev.append({"k": "enforce_wire", "h": digits(h), "accepted": False, "how": "does not decode"})
                        nprobe += 1
                        continue
                    try:
                        c.validate_coinbase_transaction_in_coinstate(bd.transactions[0], bd, cs)
                        acc = True
                    except c.ValidationError:
                        acc = False
                    except Exception:
                        acc = False
                    ev.append({"k": "enforce_wire", "h": digits(h), "accepted": acc, "how": "validated"})
                    nprobe += 1
        try:
            cbt = c.construct_coinbase_transaction(h, [], {}, b"probe", pk)
            mv = sum(o.value for o in cbt.outputs)
            ev.append({"k": "mint", "h": digits(h), "v": mv if 0 <= mv < 2 ** 31 else -1})
        except Exception as ex:
            chk.notes.append("construct_coinbase_transaction(%d) raised %r" % (h, ex))
    chk.extra["enforced_reward_probes"] = nprobe
    if sum(1 for e_ in ev if e_.get("k") == "enforce_wire") < 9:
        return machinery_failure(pid, "the wire-level reward probes were not produced")
    # ---- the schedule is a function of the height, also when the validator (network thread) and the assembler (miner's thread) ask at
    #      the same time, on both sides of a halving (Interfere.tla; preemption-point exploration on real threads)
    from checks import interfere
    rc_ = interfere.design(chk, pid)
    if rc_:
        return rc_
    hA = [interval - 1, interval, interval + 1, 2 * interval, 0]
    hB = [interval, interval - 1, 3 * interval, 64 * interval, 5]
    par_a = blk(interval - 1, b"\x00" * 32, 1)
    cs_a = CoinState.empty().add_block_no_validation(par_a)
    full, half = initial, initial // 2

    def fa():
        out = [c.get_block_subsidy(h) for h in hA]
        for v in (half, half + 1, full):          # the reward rule at the first halved height: half accepted, anything above refused
            b = blk(interval, par_a.hash(), v)
            try:
                c.validate_coinbase_transaction_in_coinstate(b.transactions[0], b, cs_a)
                out.append(("accepted", v))
            except c.ValidationError:
                out.append(("refused", v))
        return out

    def fb():
        out = [c.get_block_subsidy(h) for h in hB]
        out.append(sum(o.value for o in c.construct_coinbase_transaction(interval - 1, [], {}, b"m", pk).outputs))
        return out
    itr = interfere.explore_pair(chk, pid, "subsidy_of_a_height_and_the_enforced_reward", fa, fb, quick, rng, files=("skepticoin/consensus.py",))
    interfere.judge(chk, itr, pid)
    chk.sample(ev[0]); chk.sample(ev[10]); chk.sample(ev[-1])
    verdicts, r2 = tracecheck.run("TraceSubsidy", ev, consts, ids=[1], workers=1)
    chk.states += r2.distinct
    chk.transitions += r2.generated
    chk.traces_validated += 1
    clause, line = verdicts[1]
    if clause != "ok":
        chk.violation(clause, {"event": ev[line - 1], "line": line})
    chk.extra["rule"] = ("heights: every era boundary +-2 for eras 0..71, 2^31/2^32 edges, %d random heights (thorough: all 32,550,000 heights of "
                         "eras 0..31 scanned per era); constants of params.py and of the consensus module; the validator's amount limit found by bisection" % nsamp)
    chk.assumptions.append("the documented numbers are parsed from docs/params.md and must equal the numbers in the property text")
    # ---- the enforced schedule on the node's delivery path: blocks claiming more than subsidy + fees pushed by peers on the head, on side
    #      branches that later overtake, next to valid ones (TraceNode clause c12 with Focus C16)
    import json as _json
    from checks import node as nodechk
    from checks.ledger import RandomTree
    from harness import node_drv
    cfg_n = sk.Cfg(**nodechk.MODEL_CFG)
    sk.apply_cfg(cfg_n)
    keys_n = sk.Keys(3)
    sba, hba = nodechk.probe_switches(cfg_n, keys_n)
    nconsts = nodechk.ledger_consts(cfg_n, {pid}, sba, hba)
    nconsts["Focus"] = {pid}
    ntraces, nlabels = [], []
    for i in range(10 if quick else 100):
        w3 = sk.World(cfg_n, keys_n, tag=b"c16d%d" % i)
        g3 = w3.make_genesis(ts=5000)
        run_ = node_drv.NodeRun(w3, g3, peers=nodechk.PEERS, tid=930000 + i, clock0=5000)
        try:
            nrec = nodechk.NodeRec(run_, rng)
            rt = RandomTree(w3, nrec, rng, nkeys=3, p_mut=0.0)
            lab = []
            for k in range(14 if quick else 28):
                # an over-claiming block preferably on a block that is not the head (a side branch), then valid blocks on top of whatever is stored
                side = [a for a in rt.stored if w3.by_abs[a].hash() != run_.node.chain().current_chain_hash]
                if rng.random() < 0.4:
                    res, m = rt.step(force=rng.choice(["reward+1", "reward+5", "reward+1000"]), parent=rng.choice(side) if side and rng.random() < 0.7 else None)
                else:
                    res, m = rt.step(force="")
                lab.append(["block", res, m])
            if run_.events:
                ntraces.append(run_.trace())
                nlabels.append(lab)
            chk.case(_json.dumps(["node", lab]), nontrivial=True)
        finally:
            run_.close()
    nodechk.judge(chk, ntraces, nlabels, nconsts)
    sk.restore_cfg()
    return chk.finish()
