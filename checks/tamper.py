"""C06: tamper evidence.  Design level: MC_Ledger's I_C06_TamperRejected (every alteration class of a stored valid block fails some
rule, under the ideal-hash assumption) with necessity runs (evidence check off -> counterexample).  Code level: for valid blocks on
generated chains, every single-bit flip and every truncation point, exhaustively per block, through Block.deserialize and
CoinState.add_block against the same chain; judged by TLC (TraceTamper)."""
import random

from harness import tlc, sk, tracecheck, ledger_drv, indep, wiregen
from harness.common import Check, seed, machinery_failure
from checks.ledger import RandomTree

MODEL_CFG = dict(period=1000, timespan=4, initial_subsidy=8, halving=2, max_money=30)


def field_class(path):
    if path.endswith("BlockSummary.0"):
        return "summary_height"
    if "BlockSummary" in path:
        return "summary"
    if "PowEvidence" in path:
        return "evidence"
    if path.endswith("BlockHeader.0"):
        return "header_version"
    return "transactions"


def run(pid, tier, replay=None):
    chk = Check(pid, tier)
    quick = tier != "thorough"
    rng = random.Random(seed() * 5 + 6)
    sk.setup()
    # (a) design level
    r = tlc.run("MC_Ledger", "MC_LedgerTx2.cfg", workers=16, timeout=1500)
    tlc.require_clean(r, "MC_LedgerTx2")
    chk.add_tlc("MC_LedgerTx2.cfg (incl. I_C06_TamperRejected)", r)
    if r.violated:
        return machinery_failure(pid, "MC_LedgerTx2 violates %s" % r.violated)
    import os, re, tempfile
    base = open(os.path.join(tlc.SPEC_DIR, "MC_LedgerTx2.cfg")).read()
    d = tempfile.mkdtemp(prefix="nec_", dir=sk.scratch())
    for off, expect in (('{"evidence"}', True), ('{"merkle"}', False), ('{"merkle", "evidence"}', True)):
        cfgp = os.path.join(d, "nec.cfg")
        txt = base.replace("RulesOff = {}", "RulesOff = %s" % off)
        txt = "\n".join(l for l in txt.splitlines() if not l.startswith(("INVARIANT", "PROPERTY"))) + "\nINVARIANT I_C06_TamperRejected\n"
        open(cfgp, "w").write(txt)
        rn = tlc.run("MC_Ledger", cfgp, workers=16, timeout=900)
        chk.add_tlc("necessity run RulesOff=%s" % off, rn, expect_violation="I_C06_TamperRejected" if expect else None)
        if bool(rn.violated) != expect:
            return machinery_failure(pid, "necessity run RulesOff=%s: expected violation=%s, got %s" % (off, expect, rn.violated))
    chk.notes.append("the transaction list is bound twice (merkle root and evidence hash): switching off the merkle rule alone leaves C06 intact in the model")

    # (b) code level
    cfg = sk.Cfg(**MODEL_CFG)
    sk.apply_cfg(cfg)
    keys = sk.Keys(3)
    from skepticoin.datatypes import Block
    traces = []
    nblocks = 4 if quick else 40
    nchains = 2 if quick else 8
    tid = 0
    stats = {"decode_error": 0, "rejected": 0, "accepted": 0, "same_id_different_content_rejected": 0}
    per_chain = max(1, nblocks // nchains)
    for ci in range(nchains):
        sk.apply_cfg(cfg)
        w = sk.World(cfg, keys, tag=b"t%d" % ci)
        rec = ledger_drv.Recorder(w, 1, full=False, snapshots=False)
        rec.start(w.make_genesis())
        rt = RandomTree(w, rec, rng, nkeys=3, p_mut=0.0)
        for _ in range(10):
            rt.step()
        cs_full = rec.cs
        cand = sorted(rt.stored[1:], key=lambda a: -len(w.by_abs[a].transactions))
        chosen = cand[:per_chain - 1] + cand[-1:]
        if ci % 2 == 1:
            # every other chain is validated with a checkpoint table in force (checkpoints at height 0 and at a horizon H on the chain's
            # main line): the blocks altered are the ones just above the horizon (on the main line and on side branches) and higher ones
            main = cs_full.by_height_at_head()
            top = cs_full.head().height
            if top >= 2:
                H = rng.randint(1, min(3, top - 1))
                cfg_k = sk.Cfg(horizon=H, known={0: main[0].hash().hex(), H: main[H].hash().hex()}, **MODEL_CFG)
                sk.apply_cfg(cfg_k)
                above = [a for a in rt.stored[1:] if w.by_abs[a].height > H]
                first = [a for a in above if w.by_abs[a].height == H + 1]
                rest = sorted([a for a in above if a not in first], key=lambda a: -len(w.by_abs[a].transactions))
                chosen = (first[:2] + rest)[:max(per_chain, 2)]
                chk.notes.append("chain %d: checkpoint horizon %d, altered blocks at heights %s" % (ci, H, [w.by_abs[a].height for a in chosen]))
        for a in chosen:
            blk = w.by_abs[a]
            raw = blk.serialize()
            if raw != indep.enc_block(blk):
                chk.model_drift("serialize() differs from the independent encoding")
            end, fields = wiregen.layout("Block", raw)
            spans = [(off, off + wd, field_class(path)) for (off, wd, kind, path) in fields]
            # LP1 payloads and other bytes not listed as fields belong to the surrounding structure: transactions
            def cls(o):
                for (a_, b_, c_) in spans:
                    if a_ <= o < b_:
                        return c_
                return "transactions"
            now = blk.timestamp
            # the chain *without* this block and its descendants is not needed: validation is against the parent's state,
            # and offering a block whose id is already stored is exactly the "same id, different content" case
            events = []
            # the genuine bytes have been decoded by this process before the altered copies arrive (a block relayed by several peers)
            try:
                from skepticoin.datatypes import Block as _B
                if indep.enc_block(_B.deserialize(raw)) != raw:
                    chk.model_drift("the genuine encoding does not decode to itself")
            except Exception as e_:
                chk.model_drift("the genuine encoding does not decode: %r" % e_)
            # the same chain without this block and its descendants: the state the genuine block was valid against (an alteration that keeps
            # the header keeps the id, and a state that already stores that id is a different question -- both are asked)
            desc = {blk.hash()}
            cs_wo = w.T["CoinState"].empty()
            for a2 in rt.stored:
                b2 = w.by_abs[a2]
                if b2.header.summary.previous_block_hash in desc or b2.hash() in desc:
                    desc.add(b2.hash())
                    continue
                cs_wo = cs_wo.add_block_no_validation(b2)
            muts = [(o, b) for o in range(len(raw)) for b in range(8)]
            for (o, b) in muts:
                m = raw[:o] + bytes([raw[o] ^ (1 << b)]) + raw[o + 1:]
                events.append(one(m, o, b, cls(o), blk, cs_full, now, stats, cs_wo))
            # two bits at a time inside the header: the same bit position in two different bytes (alterations that a byte-wise checksum
            # would let cancel), in the evidence and in the summary
            hdr_bytes = [o_ for o_ in range(len(raw)) if cls(o_) in ("evidence", "summary", "summary_height")]
            for _ in range(400 if quick else 6000):
                if len(hdr_bytes) < 2:
                    break
                o1, o2 = rng.sample(hdr_bytes, 2)
                b_ = rng.randrange(8)
                mm = bytearray(raw)
                mm[o1] ^= 1 << b_
                mm[o2] ^= 1 << b_
                events.append(one(bytes(mm), o1, b_, "header_pair", blk, cs_full, now, stats, cs_wo))
            for cut in range(0, len(raw)):
                events.append(one(raw[:cut], cut, -1, cls(min(cut, len(raw) - 1)), blk, cs_full, now, stats, cs_wo))
            tid += 1
            traces.append({"id": tid, "size": len(raw), "events": events})
            chk.evaluations += len(events)
            chk.distinct.add(("block", ci, a, len(raw), len(blk.transactions)))
            chk.sample({"block_bytes": len(raw), "transactions": len(blk.transactions), "mutations": len(events),
                        "example": events[len(events) // 3]})
    rc_ = interference_stage(chk, quick, rng, pid, keys)
    if rc_:
        return rc_
    sk.apply_cfg(cfg)
    chk.distinct.add(("mutations", chk.evaluations))
    verdicts, r2 = tracecheck.run("TraceTamper", traces, {}, ids=[t["id"] for t in traces], workers=4, timeout=3000)
    chk.states += r2.distinct
    chk.transitions += r2.generated
    chk.traces_validated += len(traces)
    by = {t["id"]: t for t in traces}
    for t_id, (clause, line) in verdicts.items():
        if clause.startswith("machinery"):
            raise tlc.MachineryError(clause)
        if clause != "ok":
            chk.violation(clause, {"event": by[t_id]["events"][line - 1], "block_size": by[t_id]["size"]}, {"clause": clause})
    for dft in tlc.tagged(r2, "DRIFT")[:2000]:
        chk.model_drift("trace %s mutation %s: %s" % tuple(dft[:3]))
    chk.extra["outcomes"] = stats
    chk.extra["exhaustive"] = True
    chk.extra["rule"] = ("per chosen valid block (most transactions first, on randomized chains with forks): every bit of the encoding flipped (8 x size) and every "
                         "truncation point (size), each decoded and fully validated against the same chain; distinct_nontrivial counts blocks, evaluations counts mutations")
    chk.assumptions.append("bit flips cannot reach non-canonical VLQ forms other than through decode errors; hash functions ideal in the design-level run")
    return chk.finish()


def interference_stage(chk, quick, rng, pid, keys):
    """The verdict on an altered copy of a valid block is a function of (bytes, chain, clock) -- also while the miner's thread is handling
    a block it has just found (Interfere.tla; preemption-point exploration on real threads: the real MinerWatcher result handler stopped
    before every line it executes in mining.py and the consensus modules, the network thread's full validation of the altered copies run
    entirely at stop k; and the other way round)."""
    from checks import interfere
    from checks import node as nodechk
    from harness import node_drv, preempt
    from skepticoin.datatypes import Block, BlockHeader
    import skepticoin.consensus as c
    import skepticoin.mining as mining
    rc_ = interfere.design(chk, pid)
    if rc_:
        return rc_
    cfg_i = sk.Cfg(**nodechk.MODEL_CFG)
    sk.apply_cfg(cfg_i)
    wi, gi, bi, ti = nodechk.build_universe(cfg_i, keys)
    cs_i = wi.T["CoinState"].empty().add_block_no_validation(gi).add_block_no_validation(bi[1])
    raw = bi[2].serialize()
    end, fields = wiregen.layout("Block", raw)
    altered = []
    for (off, wd, kind, path) in fields:
        if field_class(path) in ("summary", "evidence", "summary_height", "header_version"):
            o = off + wd - 1
            altered.append(raw[:o] + bytes([raw[o] ^ 1]) + raw[o + 1:])
    altered = altered[:16]
    now_i = bi[2].timestamp + 5

    def fb():
        out = []
        for m in altered:
            try:
                x_ = Block.deserialize(m)
            except Exception:
                out.append("decode_error")
                continue
            try:
                cs_i.add_block(x_, now_i)
                out.append("accepted")
            except Exception as e_:
                out.append(sk.rule_of_exception(e_))
        return out
    ref = fb()
    if "accepted" in ref:
        chk.violation("C06:altered_block_accepted", {"verdicts_on_altered_copies": ref})
        return 0
    try:
        cs_i.add_block(bi[2], now_i)
    except Exception as e_:
        return machinery_failure(pid, "the unaltered block does not pass: %r" % e_)
    mining.print = lambda *a, **k: None

    def make():
        run_ = node_drv.NodeRun(wi, gi, peers=nodechk.PEERS)
        run_.deliver_block("p", bi[1])
        run_.miner()
        mw = run_.mw
        sh = None
        for nonce in range(400):
            if run_.mine_request(nonce) is None:
                continue
            summary, height, txs = mw.mining_args[0]
            sh_ = c.construct_summary_hash(summary, height)
            ev = c.construct_pow_evidence_after_scrypt(sh_, mw.coinstate, summary, height, txs)
            if indep.blockid(Block(BlockHeader(summary, ev), txs)) < summary.target:
                sh = sh_
                break
        if sh is None:
            raise RuntimeError("no nonce found a block")
        out = {}

        def a():
            run_.node.use_store()
            mw.handle_scrypt_output_message(0, sh)
            out["x"] = ("ok", run_.node.chain().head().height)

        def b():
            out["y"] = ("ok", fb())
        return {"a": a, "b": b, "observe": lambda: dict(out), "close": run_.close}
    files = interfere.FILES + ("skepticoin/mining.py",)
    alone_y = interfere._digest(("ok", ref))
    traces = []
    for tag in ("miner_stepped", "validation_stepped"):
        def mk(tag=tag):
            ctx = make()
            if tag == "validation_stepped":
                ctx["a"], ctx["b"] = ctx["b"], ctx["a"]
            return ctx
        n = preempt.count_stops(mk, files, sk.reset_module_state)
        if n < 20:
            return machinery_failure(pid, "only %d line stops in %s" % (n, tag))
        ks = list(range(n + 1))
        cap = 120 if quick else 1500
        if len(ks) > cap:
            ks = sorted(set(rng.sample(ks, cap - 20) + ks[:10] + ks[-10:]))
        for (k, nn, blocked, obs, errs) in preempt.explore(mk, files, ks=ks, reset=sk.reset_module_state):
            hx = obs.get("x")
            traces.append({"id": 0, "prop": pid, "what": "verdict_on_altered_copies_of_a_valid_block", "alone": alone_y, "got": interfere._digest(obs.get("y")),
                           "other_alone": "found", "other_got": "found" if hx == ("ok", 2) else repr(hx), "errors": errs, "k": k, "of": nn, "stepped": tag})
            chk.case(("interfere", tag, k), nontrivial=True)
    interfere.judge(chk, traces, pid)
    sk.restore_cfg()
    return 0


def one(m, off, bit, fclass, orig, cs, now, stats, cs_without=None):
    from skepticoin.datatypes import Block
    ev = {"off": off, "bit": bit, "field": fclass, "outcome": "decode_error", "rule": "", "same_id": False, "same_content": False}
    try:
        Block.deserialize(orig.serialize())         # the genuine block was relayed (and decoded) just before the altered copy arrives
    except Exception:
        pass
    try:
        b = Block.deserialize(m)
    except Exception:
        stats["decode_error"] += 1
        return ev
    try:
        ev["same_id"] = b.hash() == orig.hash()
        ev["same_content"] = indep.enc_block(b) == indep.enc_block(orig)
    except Exception:
        pass
    try:
        if cs_without is not None and ev["same_id"]:
            try:
                cs_without.add_block(b, now)
                ev["outcome"] = "accepted"          # accepted by the chain state the genuine block was valid against
                stats["accepted"] += 1
                return ev
            except Exception:
                pass
        cs.add_block(b, now)
        ev["outcome"] = "accepted"
        stats["accepted"] += 1
    except Exception as e:
        ev["outcome"] = "rejected"
        ev["rule"] = sk.rule_of_exception(e)
        stats["rejected"] += 1
        if ev["same_id"] and not ev["same_content"]:
            stats["same_id_different_content_rejected"] += 1
    return ev
