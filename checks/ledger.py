"""C01..C05 (and the rule part of C18): Ledger.tla / MC_Ledger.tla / TraceLedger.tla.

Per property:
  (a) TLC checks the M-spec against the P invariants on bounded configurations (design level);
  (b) behaviours of the M-spec (exhaustive histories / TLC -simulate) are concretised into signed, mined
      blocks and replayed into the real CoinState;
  (c) a randomized driver that is not derived from the model builds deeper trees with adversarial
      alterations;
  (d) every recorded step of (b) and (c) is judged by TLC against TraceLedger (P clauses of the property).
"""
import itertools
import json
import random

from harness import tlc, sk, ledger_drv, indep
from harness.common import Check, seed, machinery_failure

MODEL_CFG = dict(period=1000, timespan=4, initial_subsidy=8, halving=2, max_money=30)
HDR_CFG = dict(period=3, timespan=4, initial_subsidy=8, halving=2, max_money=30)
HDR2_CFG = dict(period=2, timespan=3, initial_subsidy=8, halving=2, max_money=30)

TX_MUTS = ["ghost", "spent", "otherfork", "nullref", "sameblock", "dupin", "wrongkey", "sig_outs", "sig_refs",
           "sig_garbage", "blank", "cbdata", "overspend", "zeroout", "overmax", "noouts", "noins", "duptx", "dupref2"]
HDR_MUTS = ["badpow", "badtarget", "ts_equal", "ts_before", "height_plus", "cb_height", "evidence", "merkle", "orphan",
            "no_reward", "two_rewards", "cb_blank", "cb_realref", "cb_bigdata"]


def gen_hists(cfgname, num, depth, sd):
    r = tlc.run("MC_Ledger", cfgname, workers=1, simulate="num=%d" % num, depth=depth, seed=sd, timeout=900)
    tlc.require_clean(r, cfgname)
    if r.violated:
        raise tlc.MachineryError("generation config %s violated %s" % (cfgname, r.violated))
    hs = tlc.tagged_json(r, "HIST")
    uniq = {}
    for h in hs:
        uniq.setdefault(json.dumps(h, sort_keys=True), h)
    return list(uniq.values()), r


# ------------------------------------------------------------------------------------------------
# the randomized driver: descriptors in the MC_Ledger format, built from the implementation's own
# unspent sets (the oracle stays TLC's ledger)

class _ParentGone(Exception):
    pass


class RandomTree:
    def __init__(self, world, rec, rng, nkeys=3, p_mut=0.3, hdr=False):
        self.w, self.rec, self.rng = world, rec, rng
        self.nkeys = nkeys
        self.p_mut = p_mut
        self.hdr = hdr
        self.twins = True
        self.next_id = 1
        self.rev = {}       # (txhash, idx) -> abstract (txid, idx)
        self.ts = {0: world.by_abs[0].header.summary.timestamp}
        self.height = {0: 0}
        self.stored = [0]
        g = world.by_abs[0]
        self._index_tx(0, g.transactions[0])

    def _index_tx(self, absid, t):
        h = indep.txid(t)
        for i in range(len(t.outputs)):
            self.rev[(h, i)] = (absid, i)

    def utxo_of(self, absblk):
        cs = self.rec.cs
        blk = self.w.by_abs[absblk]
        try:
            u = cs.unspent_transaction_outs_by_hash[blk.hash()]
        except KeyError:
            if self.hdr:
                return []           # header-only trees need no spendable outputs (the holder of the state may not have taken this block)
            # the holder of the state no longer has a block it had taken (a node rolls back to its last validated state): forget it and
            # what was built on it, and let the caller choose again
            gone = {a for a in self.stored if self.w.by_abs[a].hash() not in cs.block_by_hash}
            if absblk in gone and len(gone) < len(self.stored):
                self.stored = [a for a in self.stored if a not in gone]
                raise _ParentGone()
            raise
        rows = []
        for r, o in u.items():
            a = self.rev.get((r.hash, r.index))
            if a is not None:
                rows.append((a, o.value, self.w.keys.alias_of_pub(o.public_key)))
        rows.sort()
        return rows

    def valid_tx(self, rows, txid, used, sweep=False):
        rng = self.rng
        avail = [r for r in rows if r[0] not in used]
        if not avail:
            return None
        k = rng.choice([1, 1, 1, 2, 2, 3]) if not sweep else rng.choice([2, 2, 3])
        if k > 1 and (sweep or rng.random() < 0.5):
            # several outputs of one and the same key swept by one transaction (the usual shape of a miner's spend)
            by_key = {}
            for r in avail:
                by_key.setdefault(r[2], []).append(r)
            multi = [v for v in by_key.values() if len(v) >= 2]
            if multi:
                avail = rng.choice(multi)
            elif sweep:
                return None
        pick = rng.sample(avail, min(k, len(avail)))
        tot = sum(v for _, v, _ in pick)
        fee = rng.choice([0, 0, 1]) if tot >= 2 else 0
        rest = tot - fee
        outs = []
        nout = rng.choice([1, 1, 2, 3])
        for i in range(nout):
            if i == nout - 1 or rest <= 1:
                outs.append({"v": rest, "k": rng.randint(1, self.nkeys)})
                rest = 0
                break
            v = rng.randint(1, rest - 1)
            outs.append({"v": v, "k": rng.randint(1, self.nkeys)})
            rest -= v
        ins = [{"ref": {"tx": a[0], "idx": a[1]}, "kind": "secp", "signer": k_, "cbh": -1, "small": True}
               for (a, v, k_) in pick]
        for (a, _, _) in pick:
            used.add(a)
        return {"id": txid, "ins": ins, "outs": outs, "sizeok": True, "mut": "", "_fee": fee, "_pick": pick}

    def mutate_tx(self, t, m, parent, blkid):
        rng = self.rng
        t = json.loads(json.dumps({k: v for k, v in t.items() if k != "_pick"}))
        j = 0
        if m == "sig_later":
            # a later input spending another output of a key whose earlier input is properly signed carries a signature that does not verify
            cand = [n for n in range(1, len(t["ins"])) if any(t["ins"][i]["signer"] == t["ins"][n]["signer"] for i in range(n))]
            if not cand:
                return None
            j = rng.choice(cand)
            m = rng.choice(["sig_garbage", "sig_outs", "wrongkey"])
        elif m in ("wrongkey", "sig_outs", "sig_refs", "sig_garbage", "blank", "cbdata") and len(t["ins"]) > 1 and rng.random() < 0.6:
            j = rng.randrange(1, len(t["ins"]))      # the alteration sits on a later input (the earlier ones are properly signed)
        first = t["ins"][j]
        owner = first["signer"]
        t["_owner"] = {j: owner}
        t["mut"] = m
        if m == "ghost":
            first.update(ref={"tx": 9000 + rng.randint(0, 99), "idx": 0}, signer=-1)
        elif m == "spent":
            spent = [a for a in self.rev.values() if a not in {r[0] for r in self.utxo_of(parent)}
                     and self._on_chain(a[0], parent)]
            if not spent:
                return None
            a = rng.choice(spent)
            first.update(ref={"tx": a[0], "idx": a[1]}, signer=-1)
        elif m == "otherfork":
            here = {r[0] for r in self.utxo_of(parent)}
            other = []
            for b in self.stored:
                other += [r[0] for r in self.utxo_of(b) if r[0] not in here and not self._on_chain(r[0][0], parent)]
            if not other:
                return None
            a = rng.choice(other)
            first.update(ref={"tx": a[0], "idx": a[1]}, signer=-1)
        elif m == "nullref":
            first.update(ref={"tx": -1, "idx": 0}, signer=-1)
        elif m == "sameblock":
            first.update(ref={"tx": blkid * 10, "idx": 0}, signer=-1)
        elif m == "dupin":
            t["ins"].append(dict(first))
        elif m == "wrongkey":
            first["signer"] = 1 + (owner % self.nkeys)
        elif m in ("sig_outs", "sig_refs", "sig_garbage"):
            first["signer"] = -1
        elif m == "blank":
            first.update(kind="blank", signer=-1)
        elif m == "cbdata":
            first.update(kind="cbdata", signer=-1, cbh=0)
        elif m == "overspend":
            t["outs"][0]["v"] += 1 + t.get("_fee", 0)
        elif m == "zeroout":
            t["outs"].append({"v": 0, "k": 1})
        elif m == "overmax":
            t["outs"][0]["v"] = self.w.cfg.max_money + 1
        elif m == "hugeout":
            t["outs"][0]["v"] = (1 << 64) - 1
        elif m == "noouts":
            t["outs"] = []
        elif m == "noins":
            t["ins"] = []
        return t

    def _on_chain(self, txabs, tip):
        """Was abstract tx id `txabs` created on the chain ending at abstract block `tip`?"""
        b = txabs // 10
        cur = tip
        while True:
            if cur == b:
                return True
            blk = self.w.by_abs[cur]
            ph = blk.header.summary.previous_block_hash
            nxt = [a for a in self.stored if self.w.by_abs[a].hash() == ph]
            if not nxt:
                return False
            cur = nxt[0]

    def _apply_hmut(self, d, cb, hmut, h, parent, now):
        """Apply a header-level alteration to descriptor d (in place); returns the validator's clock to use."""
        rng, w, bid = self.rng, self.w, d["id"]
        if hmut == "target_otherchain":
            d["altstart"] = self._altstart
        if hmut == "evidence_otherchain":
            d["evok"] = False
            d["alt_tip"] = getattr(self, "_alt_tip", -1)
        if hmut == "badpow":
            d["powok"] = False
        elif hmut == "ts_equal":
            d["ts"] = self.ts[parent]
        elif hmut == "ts_before":
            d["ts"] = self.ts[parent] - 1
        elif hmut == "height_plus":
            d["height"] = h + 1
            cb["ins"][0]["cbh"] = h + 1
        elif hmut == "cb_height":
            cb["ins"][0]["cbh"] = h + 1
        elif hmut == "evidence":
            d["evok"] = False
        elif hmut == "merkle":
            d["merkleok"] = False
        elif hmut == "orphan":
            d["parent"] = 7777
        elif hmut == "no_reward":
            d["txs"] = d["txs"][1:]
        elif hmut == "two_rewards":
            d["txs"] = [cb, dict(cb, id=bid * 10 + 9)] + d["txs"][1:]
        elif hmut == "cb_blank":
            cb["ins"][0]["kind"] = "blank"
        elif hmut == "cb_realref":
            cb["ins"][0]["ref"] = {"tx": 9999, "idx": 0}
        elif hmut == "cb_bigdata":
            cb["ins"][0]["small"] = False
        elif hmut == "future":
            now = d["ts"] - w.cfg.max_future - rng.choice([1, 1, 0])
        return now

    def step(self, now_slack=0, force=None, parent=None, include=None):
        """force: None | "" (a valid block) | a mutation name (HDR_MUTS / TX_MUTS / "reward+1" ...)."""
        for _ in range(4):
            try:
                return self._step(now_slack, force, parent, include)
            except _ParentGone:
                parent = None
        return "rej", ""

    def _step(self, now_slack=0, force=None, parent=None, include=None):
        rng, w = self.rng, self.w
        if parent is None:
            parent = rng.choice(self.stored) if rng.random() < 0.6 else self.stored[-1]
        # a child of a side-branch block whose chain sample is cut from the active chain (blocks that are not its ancestors)
        want_eo = False
        if force == "evidence_otherchain" or (force is None and self.p_mut > 0 and include is None and rng.random() < 0.08):
            try:
                cs = self.rec.cs
                main = cs.by_height_at_head()
                top = cs.head().height
                side = [a for a in self.stored if 1 <= self.height[a] <= top and main[self.height[a]].hash() != w.by_abs[a].hash()]
                tip = [a for a in self.stored if w.by_abs[a].hash() == cs.head().hash()]
                if side and tip:
                    parent = rng.choice(side)
                    self._alt_tip = tip[0]
                    want_eo = True
            except Exception:
                pass
        bid = self.next_id
        h = self.height[parent] + 1
        ts = self.ts[parent] + rng.choice([1, 1, 2, 3])
        rows = self.utxo_of(parent)
        txs, used, fees = [], set(), 0
        ntx = 0 if self.hdr else rng.choice([0, 1, 1, 2, 3])
        if force in TX_MUTS or force in ("hugeout", "mut_cross"):
            ntx = max(ntx, 1)
        if include is not None:                  # given transactions (e.g. the ones pending in a node's pool) instead of fresh ones
            for t in include:
                txs.append(t)
                fees += t["_fee"]
            ntx = 0
        for pos in range(1, ntx + 1):
            t = self.valid_tx(rows, bid * 10 + pos, used)
            if t:
                txs.append(t)
                fees += t["_fee"]
        mut, hmut = "", ""
        reward_delta = 0
        txs0 = list(txs)
        if force is not None:
            do_mut = force != ""
            kind = 0.0 if (force in TX_MUTS or force in ("hugeout", "mut_cross")) else (0.7 if force.startswith("reward") else 0.9)
        else:
            do_mut = rng.random() < self.p_mut
            kind = rng.random()
        if do_mut:
            if txs and kind < 0.6 and not self.hdr:
                m = force if force else rng.choice(TX_MUTS + ["hugeout", "mut_cross"])
                i = rng.randrange(len(txs))
                if m == "duptx":
                    txs.append(dict(txs[i], mut="duptx"))
                    mut = m
                elif m in ("dupref2", "mut_cross"):
                    t2 = json.loads(json.dumps({k: v for k, v in txs[i].items() if k != "_pick"}))
                    t2["id"] = bid * 10 + len(txs) + 1
                    t2["outs"] = [{"v": sum(o["v"] for o in t2["outs"]), "k": 1 + (t2["outs"][0]["k"] % self.nkeys)}]
                    t2["mut"] = "dupref2"
                    txs.append(t2)
                    mut = "dupref2"
                else:
                    t2 = self.mutate_tx(txs[i], m, parent, bid)
                    if t2 is not None:
                        txs[i] = t2
                        mut = m
            elif kind < 0.8:
                reward_delta = int(force[6:]) if force and force.startswith("reward") else rng.choice([1, 1, -1, 5])
                mut = "reward%+d" % reward_delta
            else:
                hmut = force if force else rng.choice(HDR_MUTS + ["future"])
        if want_eo:
            hmut, mut, reward_delta, txs = "evidence_otherchain", "", 0, txs0
        # a candidate on a retarget boundary of a side branch whose target is computed from the *active* chain's period start
        if not hmut and not mut and h % w.cfg.period == 0 and rng.random() < 0.5:
            try:
                cs = self.rec.cs
                alt_blk = cs.by_height_at_head()[h - w.cfg.period]
                own = w.ancestor(indep.blockid(w.by_abs[parent]), h - w.cfg.period)
                if alt_blk.hash() != own.hash() and alt_blk.timestamp != own.timestamp:
                    alt_abs = [a for a in self.stored if w.by_abs[a].hash() == alt_blk.hash()]
                    if alt_abs:
                        hmut = "target_otherchain"
                        self._altstart = alt_abs[0]
            except Exception:
                pass
        sub = w.cfg.subsidy(h)
        rw = sub + fees + reward_delta
        cb_outs = [{"v": rw, "k": rng.randint(1, self.nkeys)}] if rw > 0 else []
        x = rng.random()
        if rw > 3 and x < 0.3:
            a = rng.randint(1, rw - 1)
            cb_outs = [{"v": a, "k": rng.randint(1, self.nkeys)}, {"v": rw - a, "k": rng.randint(1, self.nkeys)}]
        elif rw > 4 and x < 0.4:
            # unusual but legal shapes: a reward split over several outputs
            a, b = sorted(rng.sample(range(1, rw), 2))
            cb_outs = [{"v": v, "k": rng.randint(1, self.nkeys)} for v in (a, b - a, rw - b) if v > 0]
        elif reward_delta == 0 and not hmut and not mut and x < 0.47:
            cb_outs = []                      # the miner claims nothing at all (a reward transaction without outputs is legal)
        cb = {"id": bid * 10, "ins": [{"ref": {"tx": -1, "idx": 0}, "kind": "cbdata", "signer": -1, "cbh": h,
                                       "small": True}], "outs": cb_outs, "sizeok": True, "mut": ""}
        d = {"id": bid, "parent": parent, "height": h, "ts": ts, "powok": True, "evok": True, "merkleok": True,
             "sizeok": True, "mut": hmut, "txs": [cb] + [{k: v for k, v in t.items() if k not in ("_pick", "_fee")}
                                                          for t in txs]}
        now = ts + now_slack
        now = self._apply_hmut(d, cb, hmut, h, parent, now)
        owners = {pos: t.get("_owner", {}) for pos, t in enumerate(d["txs"])}
        try:
            blk = w.concretise(d, owners=owners)
        except sk.Unrealisable:
            return "rej", ""
        res = self.rec.add(blk, now, validated=True,
                           label={"act": "add", "mut": hmut or mut, "parent": parent, "id": bid})
        if res == "ok":
            self.stored.append(bid)
            self.ts[bid] = d["ts"]
            self.height[bid] = d["height"]
            for td, t in zip(d["txs"], blk.transactions):
                self._index_tx(td["id"], t)
            self.next_id += 1
        # twins: whatever the node remembered while judging one candidate must not decide the fate of a look-alike.
        #  (a) an altered candidate was refused -> its unaltered twin (same parent, same transactions) is offered next and must pass;
        #  (b) an unaltered candidate was accepted -> a twin with one header-level alteration is offered next and must be refused.
        if self.twins and force is None and hmut not in ("orphan", "target_otherchain", "evidence_otherchain") and rng.random() < 0.35:
            strip = lambda t: {k: v for k, v in t.items() if k not in ("_pick", "_fee")}
            if (hmut or mut) and res == "rej":
                self._offer_twin(self.next_id, parent, h, ts, now_slack, sub + fees, [strip(t) for t in txs0], txs0, "", hmut or mut)
            elif not (hmut or mut) and res == "ok":
                hm = rng.choice(["evidence", "merkle", "ts_equal", "cb_height", "badpow", "badtarget"])
                self._offer_twin(self.next_id, parent, h, ts, now_slack, sub + fees, [strip(t) for t in txs0], txs0, hm, "")
        return res, (hmut or mut)

    def _offer_twin(self, bid, parent, h, ts, now_slack, reward, txs, txs_full, hmut, twin_of):
        rng, w = self.rng, self.w
        txs = json.loads(json.dumps(txs))
        for pos, t in enumerate(txs):             # fresh abstract ids (content unchanged)
            t["id"] = bid * 10 + pos + 1
        cb = {"id": bid * 10, "ins": [{"ref": {"tx": -1, "idx": 0}, "kind": "cbdata", "signer": -1, "cbh": h, "small": True}],
              "outs": [{"v": reward, "k": 1}] if reward > 0 else [], "sizeok": True, "mut": ""}
        d = {"id": bid, "parent": parent, "height": h, "ts": ts, "powok": True, "evok": True, "merkleok": True, "sizeok": True,
             "mut": hmut, "txs": [cb] + txs}
        now = self._apply_hmut(d, cb, hmut, h, parent, ts + now_slack)
        owners = {0: {}}
        for pos, t in enumerate(txs_full):
            owners[pos + 1] = t.get("_owner", {})
        try:
            blk = w.concretise(d, owners=owners)
        except sk.Unrealisable:
            return
        res = self.rec.add(blk, now, validated=True, label={"act": "add", "mut": hmut, "parent": parent, "id": bid, "twin_of": twin_of or "valid"})
        if res == "ok":
            self.stored.append(bid)
            self.ts[bid] = d["ts"]
            self.height[bid] = d["height"]
            for td, t in zip(d["txs"], blk.transactions):
                self._index_tx(td["id"], t)
            self.next_id += 1


    def adopt(self, blk):
        """A block that did not come from this generator (assembled by the node itself) was stored: build on it too."""
        bid = self.next_id
        self.w.by_abs[bid] = blk
        self.stored.append(bid)
        self.ts[bid] = blk.header.summary.timestamp
        self.height[bid] = blk.header.summary.height
        for pos, t in enumerate(blk.transactions):
            self._index_tx(bid * 10 + pos, t)
            self.w.tx_by_abs[bid * 10 + pos] = t
        self.next_id += 1
        return bid


class _Clock:
    def __init__(self):
        self.t = 0

    def __call__(self):
        return self.t


def assembly_batch(n, nsteps, cfg, keys, rng, tid0):
    """C05, last sentence: the node's own block assembly -- MinerWatcher.handle_request_scrypt_input_message (timestamp choice) ->
    construct_block_pow_evidence_input (height, target, reward transaction, merkle root) -> construct_summary_hash ->
    construct_pow_evidence_after_scrypt -- on random valid header trees that cross retarget boundaries on both sides of forks, for clock
    values around the head's timestamp.  Every candidate whose id is below its target is offered to CoinState.add_block and recorded
    with assembled=TRUE: TraceLedger judges every header rule on it, whatever the node answered."""
    import skepticoin.mining as mining
    import skepticoin.consensus as c
    from skepticoin.datatypes import Block, BlockHeader
    clock = _Clock()
    saved_time = mining.time
    mining.time = clock
    traces, recs, stats = [], [], {"found": 0, "not_found": 0, "accepted": 0}
    try:
        for i in range(n):
            w = sk.World(cfg, keys, tag=b"a%d" % i)
            rec = ledger_drv.Recorder(w, tid0 + i, full=False)
            g = w.make_genesis()
            rec.start(g)
            rt = RandomTree(w, rec, rng, nkeys=3, p_mut=0.0, hdr=True)

            class CM:
                def get_state(self_):
                    return rec.cs, []

            class LP:
                chain_manager = CM()

            class NT:
                local_peer = LP()

            class Q:
                def put(self_, x):
                    pass
            from harness.node_drv import new_miner_watcher
            mw = new_miner_watcher(mining)
            mw.network_thread = NT()
            mw.send_queues = [Q()]
            mw.mining_args = {}
            mw.public_key = keys.pub[1 + i % 3]
            mw.coinstate = rec.cs
            limit_case = (i % 5 == 4)             # the known situation (head at the validator's future limit) only as a trace's last step
            for step in range(nsteps):
                last = step == nsteps - 1
                if step < 2 or (rng.random() < 0.4 and not last):
                    rt.step()
                    continue
                head = rec.cs.head()
                off = rng.choice([-31, -30]) if (limit_case and last) else rng.choice([-29, -20, -5, -2, -1, 0, 0, 1, 2, 3, 7, 50, 400])
                clock.t = head.timestamp + off
                found = None
                n0 = rng.randrange(1 << 20)
                for nonce in range(n0, n0 + 48):
                    # a real miner asks again and again on the same head while its clock runs (and must not run into the future limit here)
                    if nonce > n0 and not (limit_case and last) and off < 25:
                        tick = rng.choice([0, 0, 1, 2])
                        clock.t += tick
                        off += tick
                    mw.handle_request_scrypt_input_message(0, nonce)
                    summary, height, txs = mw.mining_args[0]
                    sh = c.construct_summary_hash(summary, height)
                    ev = c.construct_pow_evidence_after_scrypt(sh, mw.coinstate, summary, height, txs)
                    blk = Block(BlockHeader(summary, ev), txs)
                    if blk.hash() < summary.target:
                        found = blk
                        break
                if found is None:
                    stats["not_found"] += 1
                    continue
                stats["found"] += 1
                res = rec.add(found, clock.t, validated=True, assembled=True,
                              label={"act": "assembled", "mut": "", "clock_minus_head_ts": off, "height": found.height,
                                     "head_at_future_limit": head.timestamp >= clock.t + cfg.max_future})
                if res == "ok":
                    stats["accepted"] += 1
                    rt.adopt(found)
            traces.append(rec.trace())
            recs.append(rec)
    finally:
        mining.time = saved_time
    return traces, recs, stats


# ------------------------------------------------------------------------------------------------

NONTRIVIAL = {
    "C01": lambda labs: any(l and l.get("mut") for l in labs) or any(l and l.get("txmuts") and any(l["txmuts"]) for l in labs),
    "C02": lambda labs: True,
    "C03": lambda labs: True,
    "C04": lambda labs: True,
    "C05": lambda labs: True,
}


def judge(chk, traces, recs, cfg, focus, known=None, workers=4):
    """Validate a batch with TLC and turn verdicts into VIOLATION / drift / counters."""
    if not traces:
        return
    verdicts, drifts, r = ledger_drv.validate(traces, cfg, focus, known=known, workers=workers)
    chk.states += r.distinct
    chk.transitions += r.generated
    chk.traces_validated += len(traces)
    byid = {t["id"]: (t, rec) for t, rec in zip(traces, recs)}
    foreign = chk.extra.setdefault("verdicts_of_other_properties", {})
    for tid, (clause, line) in verdicts.items():
        if clause == "ok":
            continue
        t, rec = byid[tid]
        if clause == "inconclusive" or not clause.startswith(chk.pid + ":"):
            foreign[clause] = foreign.get(clause, 0) + 1
            continue
        ev = t["events"][line - 1]
        chk.violation(clause, {"trace_id": tid, "failing_event": line, "abstract_steps": rec.abstract,
                               "event": ev, "config": cfg.__dict__ if hasattr(cfg, "__dict__") else str(cfg),
                               "blocks_hex": [b.serialize().hex() for b in getattr(rec, "concrete", [])][:40]},
                      {"clause": clause, "mut": (rec.abstract[line - 1] or {}).get("mut", ""),
                       "head_at_future_limit": bool((rec.abstract[line - 1] or {}).get("head_at_future_limit", False))})
    for dft in drifts:
        chk.model_drift("trace %s event %s: model predicted %r, implementation %s/%r" % (dft[0], dft[1], dft[2], dft[3], dft[4]))


def replay_batch(hists, cfg, keys, tid0, bal=False, tag=b"", evidence=None):
    traces, recs = [], []
    for i, h in enumerate(hists):
        w = sk.World(cfg, keys, tag=tag)
        rec = ledger_drv.replay_hist(w, h, tid0 + i, bal=bal, evidence=evidence)
        traces.append(rec.trace())
        recs.append(rec)
    return traces, recs


def random_batch(n, nsteps, cfg, keys, rng, tid0, hdr=False, bal=False, p_mut=0.3, nkeys=3, evidence=None):
    traces, recs, muts = [], [], {}
    for i in range(n):
        w = sk.World(cfg, keys, tag=b"r%d" % i)
        rec = ledger_drv.Recorder(w, tid0 + i, bal=bal, full=(nsteps <= 14), evidence=evidence)
        g = w.make_genesis()
        rec.start(g)
        rt = RandomTree(w, rec, rng, nkeys=nkeys, p_mut=p_mut, hdr=hdr)
        for _ in range(nsteps):
            res, m = rt.step()
            if m:
                muts[(m, res)] = muts.get((m, res), 0) + 1
        traces.append(rec.trace())
        recs.append(rec)
    return traces, recs, muts


def linear_extensions(parent_of, ids, limit, rng):
    """Up to `limit` parent-before-child orders of the tree (random distinct ones if there are more)."""
    res = set()
    tries = 0
    while len(res) < limit and tries < limit * 20:
        tries += 1
        avail = [i for i in ids if parent_of[i] == 0]
        order, placed = [], {0}
        remaining = set(ids)
        while remaining:
            cands = [i for i in remaining if parent_of[i] in placed]
            c = rng.choice(sorted(cands))
            order.append(c)
            placed.add(c)
            remaining.discard(c)
        res.add(tuple(order))
    return [list(o) for o in res]


def run(pid, tier, replay=None):
    chk = Check(pid, tier)
    sd = seed()
    rng = random.Random(sd * 7919 + int(pid[1:]))
    quick = tier != "thorough"
    sk.setup()
    real = sk.read_real_constants()
    keys = sk.Keys(3)
    focus = {pid}
    chk.assumptions += [
        "hash functions are ideal in the specification; ids, merkle roots, evidence and signature validity are "
        "recomputed by the harness with hashlib/ecdsa (harness/indep.py), not by the code under test",
        "model-sized consensus constants are set by assigning module attributes of skepticoin.consensus "
        "(a configuration probe checks they are in force); scrypt is replaced by a keyed BLAKE2b stub",
        "amounts above 10^8 are logged as 10^8 (TLC integers are 32-bit); the model configuration uses MaxMoney=30",
    ]
    chk.extra["real_constants_seen"] = real

    # ---------------- (a) design level
    def mc(cfgname, timeout=1500, must_finish=True):
        r = tlc.run("MC_Ledger", cfgname, workers=16, timeout=timeout)
        if getattr(r, "timed_out", False):
            if must_finish:
                raise tlc.MachineryError("%s timed out" % cfgname)
            chk.notes.append("%s: time box reached without error (%s)" % (cfgname, r.out[-300:].replace("\n", " ")))
            return r
        tlc.require_clean(r, cfgname)
        chk.add_tlc(cfgname, r, constants=open(tlc.SPEC_DIR + "/" + cfgname).read()[:1200])
        if r.violated:
            raise tlc.MachineryError("design-level model %s violates %s: the specification and its own property "
                                     "formulas disagree (model error, not a finding about the code)" % (cfgname, r.violated))
        return r

    cfg_model = sk.Cfg(**MODEL_CFG)
    cfg_hdr = sk.Cfg(**HDR_CFG)
    tid = 1

    if pid in ("C01", "C02"):
        mc("MC_LedgerTx2.cfg")
        if not quick:
            mc("MC_LedgerTx3.cfg", timeout=1500, must_finish=False)
        sk.apply_cfg(cfg_model)
        nb = 250 if quick else 3000
        hists, rg = gen_hists("MC_LedgerTxSim.cfg", nb, 12, sd + 1)
        chk.states += rg.generated
        for h in hists:
            key = json.dumps([[s["res"], s["rule"], s["blk"]["mut"], [t["mut"] for t in s["blk"]["txs"]], s["blk"]["parent"]] for s in h])
            chk.case(key, nontrivial=any(s["res"] == "rej" for s in h))
        traces, recs = replay_batch(hists, cfg_model, keys, tid)
        tid += len(traces)
        chk.sample({"source": "MC_LedgerTxSim (TLC -simulate)", "steps": recs[0].abstract})
        judge(chk, traces, recs, cfg_model, focus)
        n, steps = (40, 14) if quick else (400, 24)
        traces, recs, muts = random_batch(n, steps, cfg_model, keys, rng, tid, p_mut=0.45)
        tid += len(traces)
        for rec in recs:
            chk.case(json.dumps(rec.abstract), nontrivial=True)
        chk.sample({"source": "randomized driver", "steps": recs[0].abstract[:8]})
        chk.extra["random_driver_mutations(mutation,verdict)->count"] = {"%s/%s" % k: v for k, v in sorted(muts.items())}
        judge(chk, traces, recs, cfg_model, focus)
        chk.extra["rule"] = ("behaviours = TLC -simulate samples of MC_Ledger (valid shapes + single mutations on any stored "
                             "parent) and randomized trees; distinct by abstract action sequence; non-trivial = contains at "
                             "least one rejected candidate")

    elif pid == "C03":
        mc("MC_LedgerTx2.cfg")
        mc("MC_LedgerForks.cfg")
        sk.apply_cfg(cfg_model)
        # trees with transactions from the model, every (or many) parent-before-child arrival orders, no validation
        nb = 60 if quick else 600
        hists, rg = gen_hists("MC_LedgerTxSim.cfg", nb, 12, sd + 3)
        chk.states += rg.generated
        traces, recs = [], []
        per_tree = 6 if quick else 24
        for h in hists:
            acc = [s for s in h if s["res"] == "ok"]
            if len(acc) < 3:
                continue
            w0 = sk.World(cfg_model, keys)
            w0.make_genesis()
            blocks = {}
            for s in acc:
                blocks[s["blk"]["id"]] = (w0.concretise(s["blk"]), s["blk"]["parent"])
            parent_of = {i: p for i, (b, p) in blocks.items()}
            for order in linear_extensions(parent_of, list(blocks.keys()), per_tree, rng):
                w = sk.World(cfg_model, keys)
                w.by_abs[0] = w0.by_abs[0]
                w.register(w0.by_abs[0])
                rec = ledger_drv.Recorder(w, tid, bal=True)
                rec.start(w0.by_abs[0])
                for i in order:
                    rec.add(blocks[i][0], 0, validated=False, label={"act": "addnv", "id": i, "parent": parent_of[i]})
                traces.append(rec.trace())
                recs.append(rec)
                chk.case(json.dumps([sorted(parent_of.items()), order]), nontrivial=len(set(parent_of.values())) < len(parent_of))
                tid += 1
        chk.sample({"source": "tree from MC_LedgerTxSim, one arrival order", "steps": recs[0].abstract})
        judge(chk, traces, recs, cfg_model, {"C03", "C04"} if False else focus)
        # validated path + randomized deep trees, balances of every stored block
        n, steps = (25, 14) if quick else (200, 30)
        traces, recs, muts = random_batch(n, steps, cfg_model, keys, rng, tid, bal=True, p_mut=0.2)
        tid += len(traces)
        for rec in recs:
            chk.case(json.dumps(rec.abstract), nontrivial=True)
        judge(chk, traces, recs, cfg_model, focus)
        chk.extra["rule"] = ("cases = (tree with transactions, parent-before-child arrival order) pairs and randomized trees; "
                             "non-trivial = the tree has a fork; every stored block's unspent set and per-key balances are "
                             "compared with TLC's replay from genesis after every step, and the previous snapshot is re-projected")

    elif pid == "C04":
        r = mc("MC_LedgerForks.cfg")
        sk.apply_cfg(cfg_model)
        hists = tlc.tagged_json(r, "HIST")
        if not quick:
            r7 = tlc.run("MC_Ledger", "MC_LedgerForks7.cfg", workers=16, timeout=1500)
            tlc.require_clean(r7, "MC_LedgerForks7.cfg")
            chk.add_tlc("MC_LedgerForks7.cfg", r7)
            if r7.violated:
                raise tlc.MachineryError("MC_LedgerForks7 violated %s" % r7.violated)
            hists = tlc.tagged_json(r7, "HIST")
            # the fork-choice rule as an inductive invariant, discharged symbolically by Apalache for all trees of 13 blocks
            apa = {}
            for nm, args in (("base", ["--init=Init", "--inv=IndInv", "--length=0"]),
                             ("step", ["--init=IndInv", "--inv=IndInv", "--length=1"])):
                v, wall, tail = tlc.apalache("ForkChoiceInd", args, timeout=900)
                apa[nm] = {"verdict": v, "wall_s": round(wall, 1)}
                if v == "error":
                    raise tlc.MachineryError("ForkChoiceInd: Apalache refutes the inductive invariant (%s): model error\n%s" % (nm, tail))
                if v != "ok":
                    chk.notes.append("ForkChoiceInd %s: Apalache %s after %.0fs (not counted)" % (nm, v, wall))
            chk.extra["apalache_inductive_fork_choice"] = apa
        if len(hists) < 700:
            raise tlc.MachineryError("expected all 720 histories, got %d" % len(hists))
        for h in hists:
            parents = [s["blk"]["parent"] for s in h]
            chk.case(json.dumps(parents), nontrivial=len(set(parents)) < len(parents))
        batch = 240
        for k in range(0, len(hists), batch):
            traces, recs = replay_batch(hists[k:k + batch], cfg_model, keys, tid)
            tid += len(traces)
            if k == 0:
                chk.sample({"source": "MC_LedgerForks, exhaustive histories", "parents": [s["blk"]["parent"] for s in hists[0]]})
                chk.sample({"source": "MC_LedgerForks, exhaustive histories", "parents": [s["blk"]["parent"] for s in hists[len(hists) // 2]]})
            judge(chk, traces, recs, cfg_model, focus)
        n, steps = (20, 16) if quick else (300, 40)
        traces, recs, muts = random_batch(n, steps, cfg_model, keys, rng, tid, hdr=True, p_mut=0.1)
        tid += len(traces)
        for rec in recs:
            chk.case(json.dumps(rec.abstract), nontrivial=True)
        judge(chk, traces, recs, cfg_model, focus)
        # trees that cross target readjustments (period 3): sibling blocks on a readjustment height take their targets from their own
        # timestamps, so competing tips of equal height differ in target -- the head is still the first-seen tip of greatest height
        sk.apply_cfg(cfg_hdr)
        traces, recs, muts = random_batch(n, steps, cfg_hdr, keys, rng, tid, hdr=True, p_mut=0.05)
        tid += len(traces)
        for rec in recs:
            chk.case(json.dumps(rec.abstract), nontrivial=True)
        judge(chk, traces, recs, cfg_hdr, focus)
        sk.apply_cfg(cfg_model)
        # the same clauses on the node's delivery path: random trees delivered block by block to a real node (real store), where
        # arrivals include repeated deliveries of blocks on the active chain, on side branches, of tips and of blocks that have children
        from checks import node as nodechk
        from harness import node_drv
        sk.apply_cfg(cfg_model)
        sba, hba = nodechk.probe_switches(cfg_model, keys)
        nconsts = nodechk.ledger_consts(cfg_model, {pid}, sba, hba)
        nconsts["Focus"] = {pid}
        ntraces, nlabels = [], []
        for i in range(12 if quick else 150):
            w3 = sk.World(cfg_model, keys, tag=b"d%d" % i)
            g3 = w3.make_genesis(ts=5000)
            tid += 1
            run_ = node_drv.NodeRun(w3, g3, peers=nodechk.PEERS, tid=tid, clock0=5000)
            try:
                nrec = nodechk.NodeRec(run_, rng)
                nrec.assume_valid = True
                rt = RandomTree(w3, nrec, rng, nkeys=3, p_mut=0.0, hdr=True)
                lab = []
                for k in range(12 if quick else 24):
                    if len(rt.stored) > 2 and rng.random() < 0.35:
                        a = rng.choice(rt.stored[1:])
                        openp = [p_ for p_ in run_.peers if run_.node.is_open(p_)]
                        if openp:
                            run_.deliver_block(rng.choice(openp), w3.by_abs[a], label="dup")
                            lab.append(["dup", a])
                    else:
                        res, m = rt.step()
                        lab.append(["block", res])
                if run_.events and i % 2 == 0:
                    # the node process dies and comes up again on its store: for the new process the blocks arrive in the order the store
                    # returns them, and its head is the first of the greatest height among them
                    run_.restart()
                    lab.append(["restart"])
                if run_.events:
                    ntraces.append(dict(run_.trace(), all_valid=True))      # p_mut = 0: every offered block is fully valid on an arrived parent
                    nlabels.append(lab)
                chk.case(json.dumps(["node", lab]), nontrivial=any(x[0] == "dup" for x in lab))
            finally:
                run_.close()
        nodechk.judge(chk, ntraces, nlabels, nconsts)
        # the head after a delivery that fails full validation, on a node whose own miner had found the current head before
        from checks import handover
        handover.stage_found_before(chk, pid, cfg_model, keys, nodechk.build_universe, lambda w_, b_: b_[7], "reward_above_subsidy_plus_fees",
                                    clause="C04:head_is_not_the_first_seen_block_of_greatest_height_after_a_delivery_that_fails_full_validation")
        chk.sample({"source": "random tree delivered to a real node with repeated deliveries", "steps": nlabels[0]})
        chk.extra["exhaustive"] = True
        chk.extra["rule"] = ("every sequence in which each new block picks any earlier block as parent (6 blocks after genesis: "
                             "720 histories; thorough: 7 -> 5040), each replayed through CoinState.add_block; plus randomized deeper "
                             "trees; non-trivial = the history contains a fork")

    elif pid == "C05":
        mc("MC_LedgerHdr.cfg")
        sk.apply_cfg(cfg_hdr)
        nb = 250 if quick else 2500
        hists, rg = gen_hists("MC_LedgerHdrSim.cfg", nb, 16, sd + 5)
        chk.states += rg.generated
        for h in hists:
            chk.case(json.dumps([[s["res"], s["rule"], s["blk"]["mut"], s["blk"]["parent"], s["blk"]["ts"]] for s in h]),
                     nontrivial=any(s["res"] == "ok" and s["blk"]["height"] % 3 == 0 for s in h))
        traces, recs = replay_batch(hists, cfg_hdr, keys, tid, evidence=pid)
        tid += len(traces)
        chk.sample({"source": "MC_LedgerHdrSim (TLC -simulate)", "steps": recs[0].abstract})
        judge(chk, traces, recs, cfg_hdr, focus)
        evs = [e for rec in recs for e in rec.evidence_events]
        n, steps = (30, 16) if quick else (300, 30)
        traces, recs, muts = random_batch(n, steps, cfg_hdr, keys, rng, tid, hdr=True, p_mut=0.4, evidence=pid)
        evs += [e for rec in recs for e in rec.evidence_events]
        # the evidence data flow re-derived by TLC (PowEvidence.tla) for a sample of the offered blocks, accepted and rejected
        rng.shuffle(evs)
        acc = [e for e in evs if e["accepted"]][:50 if quick else 1500]
        rej = [e for e in evs if not e["evok"]][:25 if quick else 600]
        ledger_drv.validate_evidence(chk, acc + rej)
        chk.extra["evidence_events_validated_by_PowEvidence"] = {"accepted": len(acc), "with_bad_evidence": len(rej)}
        tid += len(traces)
        for rec in recs:
            chk.case(json.dumps(rec.abstract), nontrivial=True)
        chk.extra["random_driver_mutations(mutation,verdict)->count"] = {"%s/%s" % k: v for k, v in sorted(muts.items())}
        judge(chk, traces, recs, cfg_hdr, focus)
        # period 2 / timespan 3: retarget boundaries on side branches whose period-start block differs from the active chain's
        mc("MC_LedgerHdr2.cfg")
        cfg_hdr2 = sk.Cfg(**HDR2_CFG)
        sk.apply_cfg(cfg_hdr2)
        hists2, rg2 = gen_hists("MC_LedgerHdr2Sim.cfg", 400 if quick else 4000, 16, sd + 6)
        chk.states += rg2.generated
        hists2 = [h for h in hists2 if any(s["blk"]["mut"] == "target_otherchain" for s in h)] + hists2[:40]
        for h in hists2:
            chk.case(json.dumps([[s["res"], s["rule"], s["blk"]["mut"], s["blk"]["parent"], s["blk"]["ts"]] for s in h]),
                     nontrivial=any(s["blk"]["mut"] == "target_otherchain" for s in h))
        traces, recs = replay_batch(hists2, cfg_hdr2, keys, tid)
        tid += len(traces)
        judge(chk, traces, recs, cfg_hdr2, focus)
        traces, recs, muts2 = random_batch(30 if quick else 300, 18, cfg_hdr2, keys, rng, tid, hdr=True, p_mut=0.1)
        tid += len(traces)
        for rec in recs:
            chk.case(json.dumps(rec.abstract), nontrivial=True)
        chk.extra["random_driver_mutations_period2"] = {"%s/%s" % k: v for k, v in sorted(muts2.items())}
        judge(chk, traces, recs, cfg_hdr2, focus)
        # the node's own block assembly (last sentence of C05), periods 3 and 2
        astats = {}
        for cfg_a, nm in ((cfg_hdr, "period3"), (cfg_hdr2, "period2")):
            sk.apply_cfg(cfg_a)
            traces, recs, st = assembly_batch(25 if quick else 250, 16, cfg_a, keys, rng, tid)
            tid += len(traces)
            astats[nm] = st
            for rec in recs:
                chk.case(json.dumps(rec.abstract), nontrivial=any(l and l.get("act") == "assembled" and l["height"] % cfg_a.period == 0 for l in rec.abstract))
            judge(chk, traces, recs, cfg_a, focus)
            if st["found"] < 20:
                return machinery_failure(pid, "assembly stage (%s) found only %d blocks" % (nm, st["found"]))
        chk.extra["assembly_stage"] = astats
        # ---- the same rules on the node's delivery path, with the node's clock behind, at and ahead of the blocks' timestamps: chains of blocks
        #      each dated ahead of the clock (a head up to MaxFuture ahead, then its child further ahead still) -- "not too far in the future" is
        #      relative to the clock, whatever the head's own date
        from checks import node as nodechk
        from harness import node_drv
        sk.apply_cfg(cfg_hdr)
        sba, hba = nodechk.probe_switches(cfg_hdr, keys)
        nconsts = nodechk.ledger_consts(cfg_hdr, {pid}, sba, hba)
        nconsts["Focus"] = {pid}
        ntraces, nlabels = [], []
        mf = cfg_hdr.max_future
        for i in range(12 if quick else 120):
            w3 = sk.World(cfg_hdr, keys, tag=b"c5d%d" % i)
            g3 = w3.make_genesis(ts=5000)
            tid += 1
            run_ = node_drv.NodeRun(w3, g3, peers=nodechk.PEERS, tid=tid, clock0=5000)
            try:
                nrec = nodechk.NodeRec(run_, rng)
                rt = RandomTree(w3, nrec, rng, nkeys=3, p_mut=0.15, hdr=True)
                lab = []
                clock = 5000
                for k in range(14 if quick else 28):
                    # the clock only moves forward; the next block is dated relative to its parent, so slack = clock - ts may be far negative
                    parent = rng.choice(rt.stored) if rng.random() < 0.3 else rt.stored[-1]
                    clock += rng.choice([0, 0, 1, 2])
                    ts_next_min = rt.ts[parent] + 1
                    if rng.random() < 0.6:
                        # date the block a chosen distance ahead of the clock (RandomTree adds 1..3 to the parent's date: hold the clock back instead)
                        ahead = rng.choice([mf - 2, mf - 1, mf, mf, mf + 1, mf + 2, mf + 15, 2 * mf, 2 * mf + 1])
                        slack = -ahead
                        res, m = rt.step(now_slack=slack, parent=parent)
                    else:
                        res, m = rt.step(parent=parent)
                    lab.append(["block", res, m])
                if run_.events:
                    ntraces.append(run_.trace())
                    nlabels.append(lab)
                chk.case(json.dumps(["node", lab]), nontrivial=True)
            finally:
                run_.close()
        nodechk.judge(chk, ntraces, nlabels, nconsts)
        # ---- the real constants: real period boundaries, targets recomputed by TLC with BigNat (TraceRetarget)
        from checks import retarget
        retarget.stage(chk, quick, rng, pid)
        sk.apply_cfg(cfg_hdr)
        chk.sample({"source": "node's own block assembly on a random header tree", "steps": recs[0].abstract})
        chk.extra["rule"] = ("header-only behaviours with period 3 / timespan 4 crossing retarget boundaries on forks, every single "
                             "header rule broken; non-trivial = an accepted block sits on a retarget boundary; plus blocks assembled by the "
                             "node's own miner path (MinerWatcher request handler + consensus constructors) on such trees for clock values "
                             "-31..+400 s around the head's timestamp, each judged against every header rule")
    else:
        return machinery_failure(pid, "unknown property for the ledger family")

    if pid == "C03":
        from checks import longchain
        longchain.stage(chk, quick, rng, pid)
        from checks import minedblocks
        rc_ = minedblocks.stage(chk, quick, rng, pid)
        if rc_:
            return rc_
        from checks import wireforms
        rc_ = wireforms.stage(chk, quick, rng, pid)
        if rc_:
            return rc_
        # ---- readers of a chain state leave it as it is: the wallet building spends (twice, the first one still unconfirmed), the balance
        #      query, the miner's block assembly, the fork listing -- afterwards every stored block's unspent outputs and per-key balances
        #      (value and reference list) project to what they projected to before
        import skepticoin.wallet as W_
        import skepticoin.consensus as c_
        from skepticoin.signing import SECP256k1PublicKey as PK_
        sk.apply_cfg(cfg_model)
        rfacts = []
        for i in range(6 if quick else 60):
            w_r = sk.World(cfg_model, keys, tag=b"rd%d" % i)
            rec_r = ledger_drv.Recorder(w_r, 7000 + i, full=False, snapshots=False)
            rec_r.start(w_r.make_genesis(miner=rng.choice([1, 2])))
            rt_r = RandomTree(w_r, rec_r, rng, nkeys=3, p_mut=0.0)
            for _ in range(rng.randint(4, 9)):
                rt_r.step()
            cs_r = rec_r.cs

            def proj(cs_):
                out = {}
                for h_ in cs_.block_by_hash:
                    u_ = sorted((r.hash, r.index, o.value, o.public_key.public_key) for r, o in cs_.unspent_transaction_outs_by_hash[h_].items())
                    try:
                        b_ = sorted((pk.public_key, bal.value, tuple(sorted((r.hash, r.index) for r in bal.output_references)))
                                    for pk, bal in cs_.public_key_balances_by_hash[h_].items())
                    except Exception as e_:
                        b_ = repr(e_)
                    out[h_] = (u_, b_)
                return out
            before = proj(cs_r)
            wal = W_.Wallet.empty()
            for k_ in (1, 2, 3):
                wal.keypairs[keys.pub[k_]] = keys.sk[k_].to_string()
                wal.unused_public_keys.append(keys.pub[k_])
            notes = []
            for amount in (1, 2, 1):
                try:
                    W_.create_spend_transaction(wal, cs_r, amount, 0, keys.public_key(3), keys.public_key(2))
                    notes.append("tx")
                except Exception as e_:
                    notes.append(type(e_).__name__)
            try:
                wal.get_balance(cs_r)
                cs_r.forks()
                c_.construct_block_pow_evidence_input(cs_r, [], PK_(keys.pub[1]), cs_r.head().timestamp + 1, b"", 1)
            except Exception as e_:
                notes.append("reader raised %r" % e_)
            rfacts.append({"clause": "C03:chain_state_snapshot_changed_by_a_reader", "holds": proj(cs_r) == before, "what": "readers on a %d-block tree: %s" % (len(cs_r.block_by_hash), notes)})
            chk.case(("readers", i), nontrivial=notes.count("tx") >= 2)
        from harness import tracecheck as _tc
        vrf, rrf = _tc.run("TraceFacts", rfacts, {}, ids=[1], workers=1, timeout=300)
        chk.traces_validated += 1
        for (line, clause) in tlc.tagged(rrf, "FINDING")[:3]:
            chk.violation(clause, {"run": rfacts[line - 1]["what"]}, {"clause": clause})
    if pid in ("C01", "C02", "C05"):
        # ---- the verdict of full validation is a function of (block, chain, clock) -- also while the miner's thread assembles a candidate
        #      from the same chain state and a pending transaction (Interfere.tla; preemption-point exploration on real threads)
        from checks import interfere
        from checks import node as nodechk
        from checks.store import cb as cbd, tx as txd, blk as blkd
        rc_ = interfere.design(chk, pid)
        if rc_:
            return rc_
        cfg_i = sk.Cfg(**nodechk.MODEL_CFG)
        sk.apply_cfg(cfg_i)
        wi, gi, bi, ti = nodechk.build_universe(cfg_i, keys)
        x_wrongkey = wi.concretise(blkd(11, 1, 2, [cbd(11, 2, 4), dict(txd(111, [(0, 0, 2)], [(8, 2)]), mut="wrongkey")]), owners={1: {0: 1}})
        x_ts = wi.concretise(dict(blkd(12, 1, 2, [cbd(12, 2, 4)]), ts=bi[1].timestamp))
        cs_i = wi.T["CoinState"].empty().add_block_no_validation(gi).add_block_no_validation(bi[1])
        import skepticoin.consensus as c_i
        from skepticoin.signing import SECP256k1PublicKey as PK_i
        offered = [bi[7], x_wrongkey, x_ts, bi[2]]          # reward above subsidy + fees; spend not authorised by the owner; timestamp not later than the parent's; valid
        now_i = bi[2].timestamp + 5

        def fa():
            out = []
            for x_ in offered:
                try:
                    cs_i.add_block(x_, now_i)
                    out.append("accepted")
                except Exception as e_:
                    out.append(sk.rule_of_exception(e_))
            return out

        def fb():
            summ, h_, txs_ = c_i.construct_block_pow_evidence_input(cs_i, [ti[1002]], PK_i(keys.pub[2]), now_i, b"", 7)
            return (summ.serialize().hex(), [o.value for o in txs_[0].outputs], len(txs_))
        ref = fa()
        own = {"C02": 0, "C01": 1, "C05": 2}[pid]
        if ref[own] == "accepted":
            chk.violation("%s:block_that_breaks_this_property_s_rule_passes_full_validation" % pid, {"offered": ["reward above subsidy + fees", "spend not authorised by the owner",
                          "timestamp not later than the parent's", "valid"][own], "verdicts": ref})
        skip_interference = ref[:3].count("accepted") or ref[3] != "accepted"
        if skip_interference:
            chk.notes.append("interference stage skipped: the sequential verdicts are already %s" % ref)
        itr = [] if skip_interference else interfere.explore_pair(chk, pid, "verdict_of_full_validation", fa, fb, quick, rng, max_points=60 if quick else 2000)
        # the rule this property is about, alone, with EVERY preemption point explored

        def verdict(f_, *a_):
            try:
                f_(*a_)
                return "passes"
            except Exception as e_:
                return sk.rule_of_exception(e_)
        u_i = cs_i.unspent_transaction_outs_by_hash[bi[1].hash()]
        if pid == "C02":
            def ff():
                return [verdict(c_i.validate_coinbase_transaction_in_coinstate, x_.transactions[0], x_, cs_i) for x_ in (bi[7], bi[2])] + \
                       [c_i.get_block_fees(bi[2], u_i), c_i.get_block_subsidy(2)]
        elif pid == "C01":
            def ff():
                return [verdict(c_i.validate_non_coinbase_transaction_in_coinstate, t_, bi[1].hash(), cs_i) for t_ in (x_wrongkey.transactions[1], bi[2].transactions[1])]
        else:
            def ff():
                return [verdict(c_i.validate_block_summary_in_coinstate, x_.header.summary, cs_i) for x_ in (x_ts, bi[2])] + \
                       [c_i.calc_target(cs_i, 2, now_i, bi[1]).hex()]
        itr2 = [] if skip_interference else interfere.explore_pair(chk, pid, "verdict_of_the_rule", ff, fb, quick, rng, max_points=4000)
        interfere.judge(chk, itr + itr2, pid)
        # ---- and a block that fails this property's rule stays out of the node's chain state and store whatever the miner's thread does meanwhile
        from checks import handover
        sk.apply_cfg(cfg_i)
        mk = {"C01": lambda w_, b_: w_.concretise(blkd(11, 1, 2, [cbd(11, 2, 4), dict(txd(111, [(0, 0, 2)], [(8, 2)]), mut="wrongkey")]), owners={1: {0: 1}}),
              "C02": lambda w_, b_: b_[7],
              "C05": lambda w_, b_: w_.concretise(dict(blkd(12, 1, 2, [cbd(12, 2, 4)]), ts=b_[1].timestamp))}[pid]
        handover.stage_adversarial(chk, quick, rng, pid, cfg_i, keys, nodechk.build_universe, mk,
                                   {"C01": "spend_not_authorised_by_the_owner", "C02": "reward_above_subsidy_plus_fees", "C05": "timestamp_not_later_than_the_parent_s"}[pid])
        sk.restore_cfg()
    if pid in ("C01", "C05"):
        # ---- wide shapes: a reward spread over 70 outputs; a spend of 40 of them whose 36th signature does not verify (C01); the node's own
        #      assembly of a block from 63 pending transactions -- 64 transactions, a count at an octet boundary of the length encoding (C05)
        from checks.store import blk as blkd_, tx as txd_
        import skepticoin.consensus as c_w
        from skepticoin.datatypes import Block as Block_, BlockHeader as BlockHeader_
        from skepticoin.signing import SECP256k1PublicKey as PK_w
        cfg_w = sk.Cfg(period=1000, timespan=4, initial_subsidy=10 ** 4, halving=10 ** 6, max_money=10 ** 12)
        sk.apply_cfg(cfg_w)
        w_w = sk.World(cfg_w, keys, tag=b"wide")
        rec_w = ledger_drv.Recorder(w_w, 960000, full=False, snapshots=False)
        g_w = w_w.make_genesis()
        rec_w.start(g_w)
        cbw = {"id": 10, "ins": [{"ref": {"tx": -1, "idx": 0}, "kind": "cbdata", "signer": -1, "cbh": 1, "small": True}],
               "outs": [{"v": 100, "k": 1}] * 70, "sizeok": True, "mut": ""}
        d1 = dict(blkd_(1, 0, 1, [cbw]), ts=11)
        b1_w = w_w.concretise(d1)
        rec_w.add(b1_w, 11, validated=True, label={"act": "add", "mut": "", "parent": 0, "id": 1})
        if pid == "C01":
            good = txd_(21, [(10, i_, 1) for i_ in range(40)], [(4000, 2)])
            bad = dict(txd_(31, [(10, i_, 1) for i_ in range(40)], [(4000, 2)]), mut="sig_garbage", _owner={35: 1})
            bad["ins"][35]["signer"] = -1
            cb2 = lambda bid: {"id": bid * 10, "ins": [{"ref": {"tx": -1, "idx": 0}, "kind": "cbdata", "signer": -1, "cbh": 2, "small": True}],
                               "outs": [{"v": cfg_w.subsidy(2), "k": 1}], "sizeok": True, "mut": ""}
            for bid, t_ in ((3, bad), (2, good)):
                d_ = dict(blkd_(bid, 1, 2, [cb2(bid), {k_: v_ for k_, v_ in t_.items() if k_ != "_owner"}]), ts=12)
                x_ = w_w.concretise(d_, owners={1: t_.get("_owner", {})})
                rec_w.add(x_, 12, validated=True, label={"act": "add", "mut": t_.get("mut", ""), "parent": 1, "id": bid})
        else:
            pend = []
            for i_ in range(63):
                td_ = dict(txd_(100 + i_, [(10, i_, 1)], [(99, 2)]), _owner={0: 1})
                pend.append(w_w.concretise_tx(td_))
                w_w.tx_by_abs[100 + i_] = pend[-1]
            summ_, h_, txs_ = c_w.construct_block_pow_evidence_input(rec_w.cs, pend, PK_w(keys.pub[1]), 12, b"", 1)
            found_ = None
            for nonce_ in range(1, 400):
                summ_, h_, txs_ = c_w.construct_block_pow_evidence_input(rec_w.cs, pend, PK_w(keys.pub[1]), 12, b"", nonce_)
                sh_ = c_w.construct_summary_hash(summ_, h_)
                ev_ = c_w.construct_pow_evidence_after_scrypt(sh_, rec_w.cs, summ_, h_, txs_)
                cand_ = Block_(BlockHeader_(summ_, ev_), txs_)
                if cand_.hash() < summ_.target:
                    found_ = cand_
                    break
            if found_ is None:
                return machinery_failure(pid, "no candidate of 64 transactions below its target")
            rec_w.add(found_, 12, validated=True, assembled=True, label={"act": "assembled", "mut": "", "height": 2, "transactions": len(found_.transactions)})
        chk.case(("wide", pid), nontrivial=True)
        judge(chk, [rec_w.trace()], [rec_w], cfg_w, focus)
        sk.restore_cfg()
    if pid in ("C01", "C02"):
        # ---- the same rules on the node's delivery path: random trees with every alteration class pushed by peers, some of them while the
        #      node's own request for blocks to that peer is still unanswered (the block is unsolicited all the same: in_response_to = 0)
        from checks import node as nodechk
        from harness import node_drv
        cfg_n = sk.Cfg(**nodechk.MODEL_CFG)
        sk.apply_cfg(cfg_n)
        sba, hba = nodechk.probe_switches(cfg_n, keys)
        nconsts = nodechk.ledger_consts(cfg_n, {pid}, sba, hba)
        nconsts["Focus"] = {pid}
        ntraces, nlabels = [], []
        for i in range(14 if quick else 140):
            w3 = sk.World(cfg_n, keys, tag=b"c12d%d" % i)
            g3 = w3.make_genesis(ts=5000)
            run_ = node_drv.NodeRun(w3, g3, peers=nodechk.PEERS, tid=900000 + i, clock0=5000)
            try:
                nrec = nodechk.NodeRec(run_, rng, fetch_p=0.5 if i % 2 else 0.0)
                nrec.advertise_p = 0.0 if i % 2 else 0.6
                rt = RandomTree(w3, nrec, rng, nkeys=3, p_mut=0.4)
                lab = []
                for k in range(14 if quick else 28):
                    res, m = rt.step()
                    lab.append(["block", res, m])
                if run_.events:
                    ntraces.append(run_.trace())
                    nlabels.append(lab)
                chk.case(json.dumps(["node", lab]), nontrivial=any(x[2] for x in lab))
            finally:
                run_.close()
        nodechk.judge(chk, ntraces, nlabels, nconsts)
        sk.restore_cfg()
    if pid in ("C01", "C02", "C03", "C05"):
        # ---- the ledger state (C05: the chain whose bytes the proof-of-work evidence samples) a restarted node validates against: a crash at every SQL statement of a flush of the real store, then the real
        #      start-up path (StoreCrash.tla; TraceStore op "crash")
        from checks import store as storechk
        cfg_s = sk.Cfg(**storechk.MODEL_CFG)
        sk.apply_cfg(cfg_s)
        rc_ = storechk.crash_stage(chk, quick, rng, pid, cfg_s, sk.Keys(3))
        sk.restore_cfg()
        if rc_:
            return rc_
    if chk.traces_validated == 0:
        return machinery_failure(pid, "no trace was validated")
    return chk.finish()
