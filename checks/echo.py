"""Echo.tla -- the miner's found block sent back by a neighbour while the miner's thread is still handling it -- as a stage of C10 (a node
relays a given block at most once) and C12 (the found block is adopted, stored and broadcast): TLC checks the model and generates every
interleaving; each is forced onto two real threads of a real node (call-level stop points), TLC judges the outcomes (TraceEcho)."""
import json

from harness import tlc, tracecheck, handover_drv as hd
from harness.common import machinery_failure

INV = ["I_C10_RelayedAtMostOnce", "I_C12_FoundAdoptedStoredBroadcast"]


def stage(chk, quick, rng, pid, cfg, keys, build_universe):
    r = tracecheck.model("MC_Echo", "MSpec", {"HandOverBeforeBroadcast": True, "EmitHist": False}, workers=2, timeout=300, view="View", invariants=INV)
    tlc.require_clean(r, "MC_Echo")
    chk.add_tlc("MC_Echo (found block x its echo from a neighbour, every interleaving of the call-level steps)", r, constants="HandOverBeforeBroadcast=TRUE")
    if r.violated:
        return machinery_failure(pid, "Echo violates %s" % r.violated)
    rn = tracecheck.model("MC_Echo", "MSpec", {"HandOverBeforeBroadcast": False, "EmitHist": False}, workers=2, timeout=300, view="View", invariants=INV[:1])
    chk.add_tlc("Echo necessity run: broadcast before the hand-over (the echo finds the block unknown and relays it again)", rn, expect_violation=INV[0])
    if not rn.violated:
        return machinery_failure(pid, "vacuity: Echo with the broadcast before the hand-over relays once")
    # which order does the tree have?  (M-layer constant)
    w, g, blocks, txs = build_universe(cfg, keys)
    rec = []
    run = hd.HandoverRun(w, g, [blocks[1]], blocks[2], 0, 810000, record_only=rec, echo=True)
    try:
        run.follow([{"t": "miner", "a": "M1"}, {"t": "miner", "a": "*"}])
        run.finish()
    finally:
        run.close()
    if "M5" not in rec or "M6" not in rec:
        chk.model_drift("echo: the found-block handler does not show the steps Echo names (%s); schedules skipped" % rec)
        order = None
    else:
        order = rec.index("M5") < rec.index("M6")
    chk.extra["echo_model_switch_probed_from_the_source"] = {"HandOverBeforeBroadcast": order, "steps_of_the_found_block_handler": rec}
    traces, info = [], {}
    for sw in ([order] if order is not None else [True, False]):
        rg = tracecheck.model("MC_Echo", "MSpec", {"HandOverBeforeBroadcast": sw, "EmitHist": True}, workers=1, timeout=300, invariants=["I_Emit"])
        tlc.require_clean(rg, "MC_Echo gen")
        hs = tlc.tagged(rg, "HIST")
        chk.states += rg.distinct
        if len(hs) < 3:
            return machinery_failure(pid, "only %d schedules from MC_Echo" % len(hs))
        n = 40 if quick else 400
        pick = rng.sample(hs, n) if len(hs) > n else hs
        for (h, out) in pick:
            tid = 810001 + len(traces)
            w, g, blocks, txs = build_universe(cfg, keys)
            run = hd.HandoverRun(w, g, [blocks[1]], blocks[2], 0, tid, echo=True)
            try:
                feas, why, nexec = run.follow(h)
                obs = run.finish()
            finally:
                run.close()
            traces.append({"id": tid, "hist": h, "feasible": feas, "out": obs, "errors": run.errors, "sw": sw})
            info[tid] = {"schedule": [[s["t"], s["a"]] for s in h], "feasible_as_dictated": feas, "why_not": why, "observed": obs, "frames_per_peer": run.b_per_peer}
            chk.case(("echo", json.dumps(info[tid]["schedule"])), nontrivial=True)
    if not traces:
        return machinery_failure(pid, "no echo schedule was run")
    chk.sample({"miner_and_echo_schedule": info[traces[-1]["id"]]})
    for sw in sorted({t["sw"] for t in traces}):
        sub = [t for t in traces if t["sw"] == sw]
        verdicts, r2 = tracecheck.run("TraceEcho", sub, {"HandOverBeforeBroadcast": sw}, ids=[t["id"] for t in sub], workers=2, timeout=600)
        chk.states += r2.distinct
        chk.traces_validated += len(sub)
        foreign = chk.extra.setdefault("verdicts_of_other_properties", {})
        for (t_id, line, clause) in tlc.tagged(r2, "FINDING"):
            if clause.startswith(pid + ":"):
                chk.violation(clause, info[t_id], {"clause": clause})
            else:
                foreign[clause] = foreign.get(clause, 0) + 1
        for d in tlc.tagged(r2, "DRIFT"):
            chk.model_drift("miner / echo schedule %s step %s: %s" % tuple(d[:3]))
    chk.extra["echo_schedules"] = {"replayed": len(traces), "followed_as_dictated": sum(1 for t in traces if t["feasible"])}
    return 0
