"""SendPath.tla -- the send side of a connection (send_message / handle_can_send) -- as stages of C10 (one thread, every chunking of
the transport) and C12 (the miner thread broadcasting while the network thread writes: every interleaving of the source lines).

TLC checks the model exhaustively and generates the behaviours; they are replayed into a real ConnectedRemotePeer (for C12 on two
real threads forced through the schedule line by line) and the observations are judged by TLC (TraceSendPath)."""
import json

from harness import tlc, tracecheck, sendpath_drv as sp
from harness.common import machinery_failure

INV = ["I_StreamIsQueuedFrames", "I_NoStall", "I_AllWritten", "I_NoCrash", "I_Lock", "I_NeverSendsWhenFull"]


def _judge(chk, traces, prop, info):
    if not traces:
        return
    verdicts, r = tracecheck.run("TraceSendPath", traces, {"Lens": [1], "NetFrames": [], "MinerFrames": [], "MaxChunk": 1, "Locked": True, "Prop": prop},
                                 ids=[t["id"] for t in traces], workers=4, timeout=1800)
    chk.states += r.distinct
    chk.transitions += r.generated
    chk.traces_validated += len(traces)
    by = {t["id"]: t for t in traces}
    for t_id, (clause, line) in verdicts.items():
        if clause != "ok":
            t = by[t_id]
            chk.violation(clause, {"send_path": info.get(t_id), "sent": t["sent"][:20], "final": dict(t["final"], frames=t["final"]["frames"][:20]),
                                   "exception": t["exc"], "feasible_as_dictated": t.get("feasible")}, {"clause": clause})
    for d in tlc.tagged(r, "DRIFT"):
        chk.model_drift("send path trace %s step %s: %s" % tuple(d[:3]))


def _ops_of(hist):
    """MC_SendPath history of the network thread alone -> whole calls [["send", f] | ["cansend", [k, ...]]]; frames are sent in order 1, 2, ..."""
    ops, nxt = [], 1
    for st in hist:
        if st["a"] == "send":
            ops.append(["send", nxt])
            nxt += 1
        elif st["a"] == "cansend":
            ops.append(["cansend", []])
        elif st["a"] == "H1":
            ops[-1][1].append(10 ** 6 if st["k"] >= st["n"] else st["k"])
    return ops


def stage_seq(chk, quick, rng, pid):
    """C10: one thread; every order of send_message / handle_can_send calls and every chunking."""
    c = {"Lens": [2, 3, 1], "NetFrames": [1, 2, 3], "MinerFrames": [], "MaxChunk": 3, "Locked": True, "EmitHist": False}
    r = tracecheck.model("MC_SendPath", "MSpec", c, workers=4, timeout=600, view="View", invariants=INV)
    tlc.require_clean(r, "MC_SendPath seq")
    chk.add_tlc("MC_SendPath, network thread alone: 3 frames, every order of send_message / handle_can_send and every chunking <= 3 bytes", r, constants=str(c))
    if r.violated:
        return machinery_failure(pid, "SendPath (one thread) violates %s" % r.violated)
    rg = tracecheck.model("MC_SendPath", "MSpec", dict(c, EmitHist=True), workers=1, timeout=600, invariants=["I_Emit"])
    tlc.require_clean(rg, "MC_SendPath seq gen")
    hists = [h[0] for h in tlc.tagged(rg, "HIST")]
    if len(hists) < 50:
        return machinery_failure(pid, "only %d behaviours from MC_SendPath (one thread)" % len(hists))
    chk.states += rg.distinct
    n = 150 if quick else 1500
    if len(hists) > n:
        hists = rng.sample(hists, n)
    traces, info, tid = [], {}, 500000
    for h in hists:
        tid += 1
        ops = _ops_of(h)
        traces.append(sp.replay_sequential([2, 3, 1], ops, tid))
        info[tid] = {"source": "MC_SendPath", "calls": ops}
        chk.case(("sendseq", json.dumps(ops)), nontrivial=any(o[0] == "cansend" and len(o[1]) > 1 for o in ops))
    # randomized: real byte granularity, boundary chunk sizes
    for i in range(40 if quick else 400):
        tid += 1
        lens = [rng.randint(1, 4) for _ in range(rng.randint(2, 5))]
        probe = sp.SendRun(lens)
        rl = probe.real_lens
        ops, tosend = [], list(range(1, len(lens) + 1))
        while tosend or rng.random() < 0.7:
            if tosend and rng.random() < 0.45:
                ops.append(["send", tosend.pop(0)])
            else:
                ks = []
                for _ in range(rng.randint(1, 4)):
                    x = rng.random()
                    base = rng.choice(rl)
                    ks.append(1 if x < 0.2 else base if x < 0.45 else base - 1 if x < 0.6 else base + 1 if x < 0.7 else rng.randint(1, 2 * base))
                ops.append(["cansend", ks])
            if len(ops) > 40:
                break
        traces.append(sp.replay_sequential(lens, ops, tid))
        info[tid] = {"source": "random", "calls": ops}
        chk.case(("sendrand", i), nontrivial=True)
    # a long backlog drained by one write event: a responder that serves a bulk download queues one frame per requested block; when the
    # transport accepts everything that is pending, all of it must be written (outcome judged; the per-call state is not logged for these)
    for nfr in (150, 1200) if quick else (150, 999, 1200, 5000):
        tid += 1
        run = sp.SendRun([1, 2, 1], tid)
        exc = ""
        try:
            for j in range(nfr):
                run.send(1 + j % 3)
            run.can_send([])
            run.settle()
        except BaseException as e:      # noqa: B902  (RecursionError is not an Exception subclass issue, but keep every outcome an observation)
            exc = repr(e)[:120]
        traces.append({"id": tid, "mode": "seq", "lens": run.real_lens, "sent": run.queued_calls, "events": [], "final": run.final(), "exc": exc,
                       "feasible": True, "miner": []})
        info[tid] = {"source": "long backlog", "frames_queued": nfr}
        chk.case(("sendlong", nfr), nontrivial=True)
    chk.sample({"send_path_calls": info[tid - 1].get("calls", info[tid - 1])})
    _judge(chk, traces, "C10", info)
    return 0


def stage_threads(chk, quick, rng, pid):
    """C12: the miner thread broadcasts while the network thread sends and writes."""
    c = {"Lens": [2, 2, 1], "NetFrames": [1, 3], "MinerFrames": [2], "MaxChunk": 2, "Locked": True, "EmitHist": False}
    r = tracecheck.model("MC_SendPath", "MSpec", c, workers=4, timeout=600, view="View", invariants=INV)
    tlc.require_clean(r, "MC_SendPath locked")
    chk.add_tlc("MC_SendPath, two threads under the per-connection lock: every interleaving and chunking", r, constants=str(c))
    if r.violated:
        return machinery_failure(pid, "SendPath with the lock violates %s" % r.violated)
    cl = {k: v for k, v in c.items() if k != "EmitHist"}
    rlv = tracecheck.model("SendPath", "FairSpec", cl, workers=1, timeout=900, properties=["L_EverythingQueuedIsEventuallyWritten"])
    tlc.require_clean(rlv, "SendPath liveness")
    chk.add_tlc("SendPath liveness under weak fairness: everything queued is eventually written (with the lock)", rlv, constants=str(cl))
    if rlv.violated:
        return machinery_failure(pid, "SendPath (locked) violates liveness: %s" % rlv.violated)
    rlw = tracecheck.model("SendPath", "FairSpec", dict(cl, Locked=False, Lens=[1, 1], NetFrames=[1], MinerFrames=[2]), workers=1, timeout=900,
                           properties=["L_EverythingQueuedIsEventuallyWritten"])
    chk.add_tlc("SendPath liveness witness run without the lock (a stalled connection never writes what is pending)", rlw, expect_violation="<temporal>")
    if not rlw.violated:
        return machinery_failure(pid, "vacuity: SendPath without the lock satisfies the liveness property")
    rw = tracecheck.model("MC_SendPath", "MSpec", dict(c, Locked=False), workers=4, timeout=600, view="View", invariants=["I_StreamIsQueuedFrames", "I_NoStall", "I_NoCrash"])
    chk.add_tlc("SendPath witness run (F-C12c): without the lock a frame is lost, torn, or left pending without write interest", rw,
                expect_violation="I_StreamIsQueuedFrames | I_NoStall | I_NoCrash")
    if not rw.violated:
        return machinery_failure(pid, "vacuity: SendPath without the lock shows no lost frame / stall")
    c2 = {"Lens": [2, 2], "NetFrames": [1], "MinerFrames": [2], "MaxChunk": 2, "EmitHist": True}
    adv = tracecheck.model("MC_SendPath", "MSpec", dict(c2, Locked=False), workers=1, timeout=900, invariants=["I_Emit"])
    tlc.require_clean(adv, "MC_SendPath schedules")
    allh = tlc.tagged(adv, "HIST")
    bad = [h for h in allh if h[1] != "ok"]
    good = [h for h in allh if h[1] == "ok"]
    ser = tracecheck.model("MC_SendPath", "MSpec", dict(c2, Locked=True), workers=1, timeout=900, invariants=["I_Emit"])
    tlc.require_clean(ser, "MC_SendPath serial schedules")
    serial = tlc.tagged(ser, "HIST")
    chk.states += adv.distinct + ser.distinct
    if len(bad) < 100 or len(serial) < 5:
        return machinery_failure(pid, "schedule generation: %d adversarial, %d serial" % (len(bad), len(serial)))
    chk.extra["send_path_schedules"] = {"line_level_interleavings_without_lock": len(allh), "of_which_lose_tear_stall_or_raise": len(bad),
                                        "with_lock": len(serial)}
    traces, info, tid = [], {}, 600000
    try:
        stops = sp.stop_points()
    except sp.Unmappable as e:
        stops = None
        chk.model_drift("send path: the source lines SendPath names cannot be located (%s); line-level schedules skipped, free-running threads only" % e)
    if stops is not None:
        na, ng = (300, 60) if quick else (len(bad), 2000)
        pick = [(h, "adversarial") for h in (rng.sample(bad, na) if len(bad) > na else bad)]
        pick += [(h, "benign-interleaved") for h in (rng.sample(good, ng) if len(good) > ng else good)]
        pick += [(h, "serial") for h in (rng.sample(serial, ng) if len(serial) > ng else serial)]
        nfeas = 0
        for (h, kind) in pick:
            tid += 1
            t = sp.replay_schedule([1, 1], [1], [2], h[0], tid, stops)
            nfeas += 1 if t["feasible"] else 0
            traces.append(t)
            info[tid] = {"kind": kind, "model_outcome": h[1], "feasible_on_this_code": t["feasible"], "why_not": t.get("why", ""),
                         "schedule": [[s["t"], s["a"], s["k"]] for s in h[0]]}
            chk.case(("sched", json.dumps(info[tid]["schedule"])), nontrivial=kind != "serial")
        chk.extra["send_path_schedules"]["replayed"] = len(pick)
        chk.extra["send_path_schedules"]["feasible_as_dictated"] = nfeas
        chk.sample({"two_thread_schedule": info[tid]})
        nser = [i for i in info if info[i]["kind"] == "serial" and not info[i]["feasible_on_this_code"]]
        if nser:
            chk.model_drift("send path: %d serial schedules of SendPath (Locked) could not be followed by the code: %s" % (len(nser), info[nser[0]]["why_not"]))
    # the serial behaviours as whole calls with the behaviour's chunking (no source-line mapping needed: these run on any shape of the code)
    c3 = {"Lens": [3, 2], "NetFrames": [1], "MinerFrames": [2], "MaxChunk": 2, "EmitHist": True, "Locked": True}
    ser3 = tracecheck.model("MC_SendPath", "MSpec", c3, workers=1, timeout=900, invariants=["I_Emit"])
    tlc.require_clean(ser3, "MC_SendPath serial schedules, whole calls")
    serial3 = tlc.tagged(ser3, "HIST")
    chk.states += ser3.distinct
    if len(serial3) < 5:
        return machinery_failure(pid, "only %d serial behaviours for the whole-call replay" % len(serial3))
    nw = 120 if quick else 2000
    for h in (rng.sample(serial3, nw) if len(serial3) > nw else serial3):
        tid += 1
        t = sp.replay_calls([3, 2], [1], [2], h[0], tid)
        traces.append(t)
        info[tid] = {"kind": "serial, whole calls", "model_outcome": h[1], "calls": t["calls"]}
        chk.case(("calls", json.dumps(t["calls"])), nontrivial=any(c_[0] == "cansend" and len(c_[2]) > 0 and c_[2][0] < 10 ** 6 for c_ in t["calls"]))
    chk.extra["send_path_schedules"]["serial_whole_call_replays"] = min(nw, len(serial3))
    for t in sp.stress(6 if quick else 60, 300, tid0=tid):
        traces.append(t)
        info[t["id"]] = {"kind": "free-running threads", "messages": 300}
        chk.case(("stress", t["id"]), nontrivial=True)
    _judge(chk, traces, "C12", info)
    return 0
