"""Interfere.tla -- "the result is a function of the arguments" under the node's two threads -- as a stage of C02, C05, C16, C18:
preemption-point exploration on real threads (thread A stopped before every line it executes in the consensus modules, thread B's
computation run entirely at stop k, and the other way round); every result is compared with what the computation returns alone."""
import hashlib

from harness import tlc, tracecheck, preempt, sk
from harness.common import machinery_failure

FILES = ("skepticoin/consensus.py", "skepticoin/pow.py", "skepticoin/balances.py", "skepticoin/merkletree.py", "skepticoin/datatypes.py",
         "skepticoin/serialization.py", "skepticoin/hash.py", "skepticoin/signing.py", "skepticoin/coinstate.py")


def _digest(x):
    return hashlib.sha256(repr(x).encode()).hexdigest()[:16]


def design(chk, pid):
    for memo, expect in (("none", None), ("shared", "I_ResultIsAFunctionOfTheArgument")):
        r = tracecheck.model("Interfere", "Spec", {"Args": ("<-", "ArgsDef"), "Memo": memo}, invariants=["I_ResultIsAFunctionOfTheArgument"], workers=2, timeout=300,
                             extra_defs='ArgsDef == [t \\in {"net", "miner"} |-> IF t = "net" THEN 1 ELSE 2]')
        tlc.require_clean(r, "Interfere")
        chk.add_tlc("Interfere Memo=%s (two threads asking a function of the argument)" % memo, r, expect_violation=expect)
        if (expect is None) != (not r.violated):
            return machinery_failure(pid, "Interfere Memo=%s: unexpected %s" % (memo, r.violated))
    return 0


def explore_pair(chk, pid, what, fa, fb, quick, rng, files=FILES, max_points=None):
    """fa, fb: zero-argument callables returning a value (exceptions are values).  Both directions."""
    def val(f):
        try:
            return ("ok", f())
        except Exception as e:
            return ("exc", type(e).__name__)
    sk.reset_module_state()
    alone_a, alone_b = _digest(val(fa)), _digest(val(fb))
    if _digest(val(fa)) != alone_a or _digest(val(fb)) != alone_b:
        chk.notes.append("%s: not deterministic when run alone; skipped" % what)
        return []
    traces = []
    for (x, y, ax, ay, tag) in ((fa, fb, alone_a, alone_b, "A"), (fb, fa, alone_b, alone_a, "B")):
        def make(x=x, y=y):
            out = {}
            return {"a": lambda: out.__setitem__("x", val(x)), "b": lambda: out.__setitem__("y", val(y)), "observe": lambda: dict(out)}
        n = preempt.count_stops(make, files, sk.reset_module_state)
        ks = list(range(0, n + 1))
        cap = max_points or (160 if quick else 2000)
        if len(ks) > cap:
            ks = sorted(set(rng.sample(ks, cap - 20) + ks[:10] + ks[-10:]))
        for (k, nn, blocked, obs, errs) in preempt.explore(make, files, ks=ks, reset=sk.reset_module_state):
            traces.append({"id": 0, "prop": pid, "what": what, "alone": ax, "got": _digest(obs.get("x")), "other_alone": ay, "other_got": _digest(obs.get("y")),
                           "errors": errs, "k": k, "of": nn, "stepped": tag})
            chk.case(("interfere", what, tag, k), nontrivial=True)
    return traces


def judge(chk, traces, pid):
    if not traces:
        return
    for i, t in enumerate(traces):
        t["id"] = i + 1
    v, r = tracecheck.run("TraceInterfere", traces, {}, ids=[t["id"] for t in traces], workers=1, timeout=900)
    chk.traces_validated += len(traces)
    chk.states += r.distinct
    chk.extra.setdefault("interference_points", 0)
    chk.extra["interference_points"] += len(traces)
    for t_id, (clause, line) in v.items():
        if clause != "ok":
            t = traces[t_id - 1]
            chk.violation(clause, {"computation": t["what"], "stepped_thread": t["stepped"], "other_thread_ran_before_line_stop": t["k"], "of": t["of"],
                                   "result_alone": t["alone"], "result_under_interference": t["got"], "errors": t["errors"]}, {"clause": clause})
