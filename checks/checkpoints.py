"""C18: checkpoints (Ledger rule R_checkpoint, MC_LedgerCkpt) and the recorded blocks of the real network.

(a) TLC: below the horizon a block at a checkpointed height enters through AddBlock only with the checkpointed id (I_C18).
(b) every checkpointed height of the real table (all of them), right-id and wrong-id candidates, plus non-checkpointed heights
    below and above the horizon, through the real validate_block_in_coinstate / add_block; judged by TLC with the real table.
(c) genesis and the recorded real blocks keep their ids and pass full validation with the real scrypt; header rules
    re-judged by TLC (real constants, 32-byte targets)."""
import os
import random

from harness import tlc, sk, ledger_drv, indep, tracecheck
from harness.common import Check, seed, machinery_failure
from checks.ledger import judge


def bulk_download_stage(chk, quick, pid):
    """An alternative history on the real genesis delivered to a node as answers to its block requests (the bulk-download path, which validates
    only some heights): one block per checkpointed height (heights are self-declared below the horizon), each with an id that is not the
    checkpoint's, in order, through all checkpointed heights; with the real constants.  No alternative history can pass a checkpoint: when the
    peer is through, none of those blocks is part of the node's chain state or of its store.  Judged by TLC (TraceFacts)."""
    from harness import fakenet, netmsg
    sk.restore_cfg()
    import skepticoin.consensus as c
    import skepticoin.networking.messages as M
    from skepticoin.genesis import genesis_block_data
    from skepticoin.datatypes import Block, BlockHeader, BlockSummary, PowEvidence
    from skepticoin.coinstate import CoinState
    from skepticoin.signing import SECP256k1PublicKey
    from skepticoin.humans import computer
    g = Block.deserialize(genesis_block_data)
    heights = sorted(h for h in c.KNOWN_HASHES if 0 < h <= c.MAX_KNOWN_HASH_HEIGHT)
    if len(heights) < 100:
        return machinery_failure(pid, "only %d checkpointed heights" % len(heights))
    now = g.timestamp + 10 ** 7
    clock = fakenet.Clock(now)
    node = fakenet.Node(CoinState.empty().add_block_no_validation(g), g, clock=clock)
    facts = []
    try:
        node.connect("p", host="10.0.0.2", port=5000, direction="OUTGOING", their_port=2412, nonce=55)
        node.take_sent("p")
        pk = SECP256k1PublicKey(b"\x09" * 64)
        prev, alt = g, []
        mid = 5000
        for H in heights:
            cb = c.construct_coinbase_transaction(H, [], {}, b"alt", pk)
            nonce = 0
            while True:
                summ = BlockSummary(H, prev.hash(), c.calc_merkle_root_hash([cb]), prev.timestamp + 1, b"\xff" * 32, nonce)
                b = Block(BlockHeader(summ, PowEvidence(b"\x00" * 32, b"\x00" * 32, b"\x00" * 32)), [cb])
                if b.hash() != computer(c.KNOWN_HASHES[H]):
                    break
                nonce += 1
            alt.append(b)
            prev = b
            if node.is_open("p"):
                mid += 1
                node.use_store()
                node.deliver("p", netmsg.frame(netmsg.body(M.DataMessage(M.DATA_BLOCK, b), mid, 77, ts=now)))
        cs = node.chain()
        in_state = [b.height for b in alt if b.hash() in cs.block_by_hash]
        try:
            rows = {b.hash() for b in node.store_rows()}
        except Exception:
            rows = set()
        on_disk = [b.height for b in alt if b.hash() in rows]
        facts.append({"clause": "C18:alternative_history_passed_a_checkpoint_on_the_bulk_download_path", "holds": not in_state,
                      "what": "%d blocks with wrong ids at checkpointed heights remain in the chain state (first heights %s)" % (len(in_state), in_state[:5])})
        facts.append({"clause": "C18:alternative_history_through_checkpoints_was_written_to_the_store", "holds": not on_disk,
                      "what": "%d such blocks are in the store (first heights %s)" % (len(on_disk), on_disk[:5])})
        chk.extra["bulk_download_of_an_alternative_history"] = {"checkpointed_heights_offered": len(heights), "left_in_state": len(in_state), "left_in_store": len(on_disk),
                                                               "escaped": [e_[1][:80] for e_ in node.escaped[:3]]}
        chk.case(("bulk_alt_history", len(heights)), nontrivial=True)
    finally:
        node.close()
    # ... and pushed, not requested: a block with a wrong id at a checkpointed height announced by a peer (in_response_to = 0) -- on a quiet
    # connection, and while the node's own request for blocks to that very peer is still unanswered
    for situation in ("quiet connection", "our GetBlocks to that peer is outstanding", "the peer advertised the block first and we asked for it"):
        node = fakenet.Node(CoinState.empty().add_block_no_validation(g), g, clock=fakenet.Clock(now))
        try:
            node.connect("p", host="10.0.0.2", port=5000, direction="OUTGOING", their_port=2412, nonce=55)
            node.take_sent("p")
            H = heights[0]
            b = alt[0]
            if situation.startswith("our GetBlocks"):
                cm = node.local.chain_manager
                for _ in range(3):
                    cm.step((now // 60 + 1) * 60)
                node.pump_writes()
                node.take_sent("p")
            elif situation.startswith("the peer advertised"):
                node.deliver("p", netmsg.frame(netmsg.body(M.InventoryMessage([M.InventoryItem(M.DATA_BLOCK, b.hash())]), 7001, 0, ts=now)))
                node.take_sent("p")
            node.use_store()
            node.deliver("p", netmsg.frame(netmsg.body(M.DataMessage(M.DATA_BLOCK, b), 7002, 0, ts=now)))
            ok_ = b.hash() not in node.chain().block_by_hash
            facts.append({"clause": "C18:announced_block_with_a_wrong_id_at_a_checkpointed_height_accepted", "holds": ok_,
                          "what": "height %d, %s" % (H, situation)})
            chk.case(("pushed_wrong_id", situation), nontrivial=True)
        finally:
            node.close()
    v, r = tracecheck.run("TraceFacts", facts, {}, ids=[1], workers=1, timeout=300)
    chk.traces_validated += 1
    chk.states += r.distinct
    for (line, clause) in tlc.tagged(r, "FINDING"):
        chk.violation(clause, {"observed": facts[line - 1]["what"]}, {"clause": clause})
    return 0


def run(pid, tier, replay=None):
    chk = Check(pid, tier)
    quick = tier != "thorough"
    rng = random.Random(seed() + 18)
    sk.setup()
    import copy
    # (a)
    r = tlc.run("MC_Ledger", "MC_LedgerCkpt.cfg", workers=16, timeout=300)
    if getattr(r, "timed_out", False):
        return machinery_failure(pid, "MC_LedgerCkpt timed out")
    tlc.require_clean(r, "MC_LedgerCkpt")
    chk.add_tlc("MC_LedgerCkpt.cfg (horizon 4, checkpoints at heights 0/2/4, every header mutation on every parent)", r)
    if r.violated:
        return machinery_failure(pid, "MC_LedgerCkpt violates %s" % r.violated)

    import skepticoin.consensus as c
    import skepticoin.cheating as ch
    from skepticoin.datatypes import Block, BlockHeader, BlockSummary, PowEvidence
    from skepticoin.coinstate import CoinState
    from skepticoin.genesis import genesis_block_data
    from skepticoin.humans import computer
    real = sk.read_real_constants()
    known_real = dict(c.KNOWN_HASHES)
    horizon_real = c.MAX_KNOWN_HASH_HEIGHT
    table_ok = (known_real == ch.KNOWN_HASHES and horizon_real == ch.MAX_KNOWN_HASH_HEIGHT and len(known_real) >= 327
                and sorted(known_real) == list(range(0, max(known_real) + 1, 500)))
    if not table_ok:
        chk.violation("C18:checkpoint_table_in_the_validator_differs_from_the_built_in_table",
                      {"validator_entries": len(known_real), "builtin_entries": len(ch.KNOWN_HASHES)})
    keys = sk.Keys(2)

    # (b) every checkpointed height, right and wrong id
    cfg = sk.Cfg(horizon=horizon_real, known=known_real, stub_scrypt=True, **real)
    sk.apply_cfg(cfg)
    g = Block.deserialize(genesis_block_data)
    w = sk.World(cfg, keys)
    w.by_abs[0] = g
    w.register(g)
    w.balias(g.hash())
    known_alias = {h: w.balias(computer(v)) for h, v in sorted(known_real.items())}
    traces, recs = [], []
    heights = sorted(known_real)
    others = [1, 250, 499, 501, horizon_real - 1, horizon_real + 1, horizon_real + 500]
    tid = 0
    B = 60
    cases = []
    for h in heights:
        cases.append((h, "right"))
        cases.append((h, "wrong"))
        if not quick or h % 5000 == 0:
            cases.append((h, "wrong_header_hash_right"))
    for h in others:
        cases.append((h, "any"))
    for k in range(0, len(cases), B):
        tid += 1
        rec = ledger_drv.Recorder(w, tid, full=False, snapshots=False)
        rec.start(g)
        for (h, kind) in cases[k:k + B]:
            cb = w.coinbase(min(h, 0xffffffff), [(1, 1)], data=b"c%d" % h)
            target = b"\xff" * 32
            blk = w.mine(g.hash(), h, g.timestamp + 1 + (h % 1000), target, [cb])
            want = computer(known_real[h]) if h in known_real else None
            if kind == "right":
                blk = Block(blk.header, blk.transactions, hash=want)
            elif kind == "wrong":
                bad = bytes([want[0] ^ 0x40]) + want[1:]
                blk = Block(blk.header, blk.transactions, hash=bad)
            elif kind == "wrong_header_hash_right":
                pass        # the block's own (header) id, which is not the checkpoint
            rec.add(blk, blk.timestamp + 5, validated=True, label={"height": h, "candidate": kind})
            chk.case((h, kind), nontrivial=True)
        traces.append(rec.trace())
        recs.append(rec)
    chk.sample({"source": "checkpoint candidates", "steps": recs[0].abstract[:6]})
    judge(chk, traces, recs, cfg, {pid}, known=known_alias)
    acc = sum(1 for rec in recs for e in rec.events if e["res"] == "ok")
    chk.extra["checkpoint_candidates_accepted"] = acc
    if acc < len(heights) - 1:
        chk.notes.append("fewer right-id candidates accepted than checkpointed heights: %d" % acc)

    # (b1) the wire format at the real network's heights: a header's id is the hash of its encoding, and the height is a variable-length
    #      quantity in it; what the code writes (and reads back) for a header at a checkpointed height / at every length boundary of the
    #      quantity must be the network's format as specified in Wire.tla (validated against all recorded real blocks by C07)
    from harness import indep as _indep
    import io as _io
    hs = set(heights) | {horizon_real, horizon_real + 1}
    for k_ in range(0, 29, 7):
        for d_ in (-2, -1, 0, 1, 2):
            if 0 <= (1 << k_) + d_ < (1 << 28):          # Wire's decoder covers quantities below 2^28
                hs.add((1 << k_) + d_)
    for _ in range(100 if quick else 2000):
        hs.add(rng.randrange(0, 2 * horizon_real))
    fev = []
    for h in sorted(hs):
        summ = BlockSummary(h, bytes(32), bytes(range(32)), 1_600_000_000, b"\x00" * 3 + b"\xff" * 29, 7)
        try:
            bts = summ.serialize()
            back = BlockSummary.deserialize(bts)
            dec, re_eq = True, back.serialize() == bts and back.height == h
        except Exception:
            bts, dec, re_eq = b"", False, False
        fev.append({"t": "BlockSummary", "b": list(bts), "kind": "netfmt", "dec": dec, "consumed": len(bts), "reenc_equal": re_eq, "id_equal": True,
                    "roundtrip": True, "same_enc": True})
        chk.case(("netfmt", h), nontrivial=True)
    # every height up to 2^21 against the independent encoder (harness-side fact, reported through the same clause)
    from skepticoin.serialization import stream_serialize_vlq
    bad_h = []
    for h in range(0, 1 << 21 if not quick else 200_000):
        f_ = _io.BytesIO()
        try:
            stream_serialize_vlq(f_, h)
        except Exception:
            pass
        if f_.getvalue() != _indep.vlq(h):
            bad_h.append(h)
    if bad_h:
        chk.violation("C18:header_encoding_at_a_real_network_height_is_not_the_wire_format_of_the_network",
                      {"heights_whose_encoding_differs": bad_h[:10], "count": len(bad_h)})
    vv, rfm = tracecheck.run("TraceWire", fev, {"StrictVLQ": True, "Scaled": False}, ids=[1], workers=1, timeout=1200)
    chk.states += rfm.distinct
    chk.traces_validated += len(fev)
    for (line, clause) in tlc.tagged(rfm, "FINDING"):
        chk.violation(clause, {"height": sorted(hs)[line - 1], "bytes_hex": bytes(fev[line - 1]["b"]).hex()})

    # (b2) model-sized table (horizon 4, checkpoints at 0/2/4 of a harness chain): competing, otherwise fully valid blocks at every
    #      height, offered to nodes whose own head is anywhere from below the candidate to beyond the horizon
    from checks.ledger import MODEL_CFG
    from checks.store import cb as cbd, blk as blkd
    for variant in range(2 if quick else 8):
        cfg0 = sk.Cfg(horizon=-1, known={}, **MODEL_CFG)
        sk.apply_cfg(cfg0)
        wm = sk.World(cfg0, keys, tag=b"ck%d" % variant)
        gm = wm.make_genesis()
        main = {0: gm}
        for hh in range(1, 8):
            d = blkd(hh, hh - 1, hh, [cbd(hh, hh, cfg0.subsidy(hh))])
            d["ts"] = 10 + hh * 2
            main[hh] = wm.concretise(d)
        forks = {}
        for hh in range(1, 8):
            d = blkd(100 + hh, hh - 1, hh, [cbd(100 + hh, hh, cfg0.subsidy(hh), k=2)])
            d["ts"] = 10 + hh * 2 - 1
            forks[hh] = wm.concretise(d)
        known_m = {0: gm.hash().hex(), 2: main[2].hash().hex(), 4: main[4].hash().hex()}
        cfgm = sk.Cfg(horizon=4, known=known_m, **MODEL_CFG)
        sk.apply_cfg(cfgm)
        known_alias_m = {hh: wm.balias(bytes.fromhex(v)) for hh, v in known_m.items()}
        rec = ledger_drv.Recorder(wm, 7000 + variant, full=False, snapshots=False)
        rec.start(gm)
        order = list(range(1, 8))
        for L in order:
            rec.add(main[L], main[L].timestamp + 3, validated=True, label={"main": L})
            hs = list(range(1, L + 2)) if variant % 2 == 0 else rng.sample(range(1, L + 2), min(3, L + 1))
            for hh in hs:
                if hh in forks:
                    rec.add(forks[hh], forks[hh].timestamp + 30, validated=True, label={"fork_at": hh, "head_height": L})
                    chk.case(("fork", variant, L, hh), nontrivial=True)
        judge(chk, [rec.trace()], [rec], cfgm, {pid}, known=known_alias_m)
        chk.sample({"source": "model-sized checkpoints: competing blocks vs head height", "steps": rec.abstract[:10]})

    # (c) recorded real blocks, real scrypt, nothing patched but the horizon
    cfg2 = sk.Cfg(horizon=-1, known={}, stub_scrypt=False, **real)
    sk.apply_cfg(cfg2)
    w2 = sk.World(cfg2, keys)
    g2 = Block.deserialize(genesis_block_data)
    w2.by_abs[0] = g2
    w2.register(g2)
    rec = ledger_drv.Recorder(w2, 9000, full=True, snapshots=False)
    rec.start(g2)
    if g2.hash() != computer(known_real.get(0, "00")) or indep.blockid(g2) != g2.hash():
        chk.violation("C18:genesis_id_differs_from_checkpoint_0", {"id": g2.hash().hex()})
    ev0 = indep.evidence(g2.header.summary, 0, g2.transactions, None, indep.real_scrypt)
    e0 = g2.header.pow_evidence
    if ev0 != (e0.summary_hash, e0.chain_sample, e0.block_hash):
        chk.violation("C18:genesis_evidence_not_reproduced_with_real_scrypt", {})
    d = os.path.join(sk.REPO, "tests/testdata/chain")
    names = sorted(os.listdir(d))
    # (c0) -- before anything else in this process validates them -- the real blocks when invalid look-alikes were offered first: same parent, transactions and nonce, but a timestamp one
    #      second later / the very same summary, with junk evidence ground (cheap double SHA-256 only) until the id is below the target.
    #      They must be refused, and whatever the node remembered while refusing them must not make it refuse the real block.
    from skepticoin.datatypes import BlockHeader, BlockSummary, PowEvidence
    w4 = sk.World(cfg2, keys)
    g4 = Block.deserialize(genesis_block_data)
    w4.by_abs[0] = g4
    w4.register(g4)
    rec3 = ledger_drv.Recorder(w4, 9002, full=True, snapshots=False)
    rec3.start(g4)

    def lookalike(b, dts):
        s_ = b.header.summary
        summ = BlockSummary(s_.height, s_.previous_block_hash, s_.merkle_root_hash, s_.timestamp + dts, s_.target, s_.nonce)
        for k in range(200000):
            ev_ = PowEvidence(indep.sha256d(b"junk%d" % k), b.header.pow_evidence.chain_sample, indep.sha256d(b"junk-bh%d" % k))
            la = Block(BlockHeader(summ, ev_), list(b.transactions))
            if indep.blockid(la) < s_.target:
                return la
        return None
    for fn in names[:3 if quick else len(names)]:
        b = Block.deserialize(open(os.path.join(d, fn), "rb").read())
        for dts in (1, 0):
            la = lookalike(b, dts)
            if la is None:
                continue
            res = rec3.add(la, b.timestamp + 2, validated=True, label={"lookalike_of": b.height, "dts": dts})
            chk.case(("lookalike", fn, dts), nontrivial=True)
            if res == "ok":
                chk.violation("C18:block_with_forged_evidence_accepted_next_to_a_recorded_block", {"height": b.height, "timestamp_shift": dts})
        res = rec3.add(b, b.timestamp + 1, validated=True, label={"recorded": fn})
        if res != "ok":
            chk.violation("C18:recorded_real_block_rejected_by_full_validation",
                          {"file": fn, "rule": rec3.events[-1]["rule"], "scenario": "invalid look-alikes of the block were offered first"})
            break
    for fn in names:
        b = Block.deserialize(open(os.path.join(d, fn), "rb").read())
        hh, idhex = fn.split("-")
        if b.hash().hex() != idhex or indep.blockid(b).hex() != idhex or b.height != int(hh):
            chk.violation("C18:recorded_block_id_differs_from_its_recorded_name", {"file": fn, "id": b.hash().hex()})
        res = rec.add(b, b.timestamp + 1, validated=True, label={"recorded": fn})
        chk.case(("recorded", fn), nontrivial=True)
        if res != "ok":
            chk.violation("C18:recorded_real_block_rejected_by_full_validation", {"file": fn, "rule": rec.events[-1]["rule"]})
        if not rec.events[-1]["blk"]["evok"]:
            chk.violation("C18:recorded_block_evidence_not_reproduced_with_real_scrypt", {"file": fn})
    chk.sample({"source": "recorded real blocks", "files": names})
    # (c2) the same real blocks when a competing block (mined once with the real scrypt, data/competitor_h2.json) arrived first:
    #      the real blocks then sit on a side branch until they overtake it; all of them must still pass full validation
    import json as _json
    comp_path = os.path.join(os.path.dirname(os.path.dirname(os.path.abspath(__file__))), "data", "competitor_h2.json")
    if os.path.exists(comp_path):
        comp = Block.deserialize(bytes.fromhex(_json.load(open(comp_path))["block_hex"]))
        w3 = sk.World(cfg2, keys)
        g3 = Block.deserialize(genesis_block_data)
        w3.by_abs[0] = g3
        w3.register(g3)
        rec2 = ledger_drv.Recorder(w3, 9001, full=True, snapshots=False)
        rec2.start(g3)
        real_blocks = [Block.deserialize(open(os.path.join(d, fn), "rb").read()) for fn in names]
        seq = [("real", real_blocks[0]), ("competitor", comp)] + [("real", b) for b in real_blocks[1:]]
        for kind, b in seq:
            res = rec2.add(b, b.timestamp + 1, validated=True, label={kind: b.height})
            chk.case(("fork", kind, b.height), nontrivial=True)
            if kind == "real" and res != "ok":
                chk.violation("C18:recorded_real_block_rejected_by_full_validation",
                              {"height": b.height, "rule": rec2.events[-1]["rule"], "scenario": "a competing block at height 2 arrived first"})
            if kind == "competitor" and res != "ok":
                chk.notes.append("the stored competing block is no longer accepted (%s): fork scenario skipped" % rec2.events[-1]["rule"])
                break
        else:
            if rec2.cs.current_chain_hash != real_blocks[-1].hash():
                chk.violation("C18:node_does_not_end_on_the_real_chain", {"head_height": rec2.cs.head().height})
        verdicts2, drifts2, r4 = ledger_drv.validate([rec2.trace()], cfg2, {"C05", "C18"}, workers=1)
        chk.states += r4.distinct
        chk.traces_validated += 1
        for t_id, (clause, line) in verdicts2.items():
            if clause != "ok":
                chk.violation("C18:real_block_fails_header_rule(%s)" % clause, {"event": rec2.events[line - 1]["blk"]["height"], "scenario": "fork"}, {"clause": clause})
    # header rules of the real blocks re-judged by TLC with the real constants
    verdicts, drifts, r3 = ledger_drv.validate([rec.trace()], cfg2, {"C05", "C18"}, workers=1)
    chk.states += r3.distinct
    chk.transitions += r3.generated
    chk.traces_validated += 1
    for t_id, (clause, line) in verdicts.items():
        if clause != "ok":
            chk.violation("C18:real_block_fails_header_rule(%s)" % clause, {"event": rec.events[line - 1]["blk"]["height"]}, {"clause": clause})
    for dft in drifts:
        chk.model_drift(str(dft))
    sk.restore_cfg()
    chk.extra["exhaustive"] = True
    # (e) the recorded real blocks stay valid while the miner's thread builds proof-of-work evidence on the same chain: the verdict of full
    #     validation (real scrypt, memoised per input for this stage) is a function of the block and the chain (Interfere.tla; every
    #     preemption point of the evidence construction and of the validation, both directions)
    from checks import interfere
    rc_ = interfere.design(chk, pid)
    if rc_:
        return rc_
    sk.apply_cfg(cfg2)
    memo = {}
    real_scrypt_fn = c.scrypt

    def memo_scrypt(a_, b_):
        k_ = (bytes(a_), bytes(b_))
        if k_ not in memo:
            memo[k_] = real_scrypt_fn(a_, b_)
        return memo[k_]
    c.scrypt = memo_scrypt
    try:
        gI = Block.deserialize(genesis_block_data)
        realblocks = [Block.deserialize(open(os.path.join(d, fn), "rb").read()) for fn in sorted(os.listdir(d))]
        realblocks = sorted([b_ for b_ in realblocks if b_.height > 0], key=lambda b_: b_.height)[:5]
        csI = CoinState.empty().add_block_no_validation(gI)
        for b_ in realblocks[:-1]:
            csI = csI.add_block_no_validation(b_)
        last = realblocks[-1]
        prev = realblocks[-2]

        def fa_():
            out = []
            for (b_, st_) in ((last, csI),):
                try:
                    c.validate_block_in_coinstate(b_, st_)
                    out.append("valid")
                except Exception as e_:
                    out.append(type(e_).__name__ + ": " + str(e_)[:40])
            return out
        cand_cb = c.construct_coinbase_transaction(last.height, [], csI.unspent_transaction_outs_by_hash[prev.hash()], b"x", last.transactions[0].outputs[0].public_key)

        def fb_():
            summ = c.construct_minable_summary(csI, [cand_cb], prev.timestamp + 77, 12345)
            ev_ = c.construct_pow_evidence(csI, summ, last.height, [cand_cb])
            return ev_.serialize().hex()
        if fa_() != ["valid"]:
            chk.violation("C18:recorded_real_block_rejected_by_full_validation", {"height": last.height, "verdict": fa_()})
        else:
            itr = interfere.explore_pair(chk, pid, "validation_of_a_recorded_real_block", fa_, fb_, quick, rng,
                                         files=("skepticoin/pow.py", "skepticoin/consensus.py", "skepticoin/datatypes.py", "skepticoin/serialization.py"),
                                         max_points=400 if quick else 5000)
            interfere.judge(chk, itr, pid)
    finally:
        c.scrypt = real_scrypt_fn
    chk.extra["rule"] = ("every one of the %d checkpointed heights with a right-id and a wrong-id candidate (block objects carrying that id), non-checkpointed heights below/above the "
                         "horizon; genesis + %d recorded real blocks with the real scrypt" % (len(heights), len(names)))
    chk.assumptions.append("the validator's checkpoint rule is probed at every checkpointed height; on the bulk-download path the node validates only every 10,000th block by design, so an alternative history is judged when the peer is through with it (bulk_download_stage)")
    rc_ = bulk_download_stage(chk, quick, pid)
    if rc_:
        return rc_
    return chk.finish()
