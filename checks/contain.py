"""C20: Contain.tla -- malformed input is contained to the offending connection.

(a) TLC: the class table of Contain.tla over every sequence of inputs on 3 connections (A_C20).
(b) every class concretised into many byte streams (mutations of valid traffic placed by the Wire grammar, truncation, splicing,
    reordering, random bytes), delivered in random fragmentation to a real LocalPeer while two other peers are connected and have a
    frame half delivered; after each input: manager step, the other peers' pending frames completed; judged by TLC (TraceContain)."""
import json
import random
import struct

from harness import tlc, sk, tracecheck, node_drv, netmsg, wiregen, indep
from harness.common import Check, seed, machinery_failure
from checks.store import cb, tx, blk
from checks.ledger import RandomTree
from checks.node import NodeRec

MODEL_CFG = dict(period=1000, timespan=4, initial_subsidy=8, halving=2, max_money=30)


def frame_of(msg, mid, irt=0, ts=5000):
    return netmsg.frame(netmsg.body(msg, mid, irt, ts=ts))


class Gen:
    def __init__(self, run, rt, rng):
        self.run, self.rt, self.rng = run, rt, rng
        self.mid = 1000

    def nid(self):
        self.mid += 1
        return self.mid

    def valid_block_desc(self, mut_hdr="", txmut=""):
        """A candidate block on the current head via RandomTree internals (not delivered)."""
        raise NotImplementedError

    def make(self, cls):
        """-> bytes for one input of class cls (may return None if not constructible now)."""
        from skepticoin.networking import messages as M
        from ipaddress import IPv6Address
        rng, w, run = self.rng, self.run.w, self.run
        cs = run.node.chain()
        head = cs.block_by_hash[cs.current_chain_hash]
        good = frame_of(M.GetDataMessage(M.DATA_BLOCK, head.hash()), self.nid())
        if cls == "bad_magic":
            i = rng.randrange(4)
            return good[:i] + bytes([good[i] ^ (1 << rng.randrange(8))]) + good[i + 1:]
        if cls == "astronomic_number_in_a_field":
            raw = indep.enc_block(head)
            end, fields = wiregen.layout("Block", raw)
            hf = [(off, wd) for (off, wd, kind, path) in fields if kind == "vlq" and path.endswith("BlockSummary.0")]
            if not hf:
                return None
            off, wd = hf[0]
            n = rng.choice([2 ** 40, 2 ** 64 + 1, 10 ** 4400, 10 ** 5000 + 7])
            digits = []
            while True:
                digits.append(n & 0x7f)
                n >>= 7
                if n == 0:
                    break
            digits.reverse()
            enc = bytes([d | 0x80 for d in digits[:-1]] + [digits[-1]])
            alt = raw[:off] + enc + raw[off + wd:]
            body = netmsg.body(M.DataMessage(M.DATA_BLOCK, head), self.nid(), 0, ts=5000)
            if not body.endswith(raw):
                return None
            return netmsg.frame(body[:-len(raw)] + alt)
        if cls == "oversize_length":
            return netmsg.MAGIC + struct.pack(">I", rng.choice([32 * 1024 * 1024 + 1, 0xffffffff, 1 << 30])) + b"abc"
        if cls == "zero_length":
            return netmsg.MAGIC + struct.pack(">I", 0)
        if cls == "truncated_frame":
            return good[:rng.randrange(1, len(good))]
        if cls == "undecodable_header":
            n = rng.randrange(1, 53)
            return netmsg.frame(good[8:8 + n])
        if cls == "undecodable_payload":
            body = good[8:]
            kind = rng.choice(["cut", "tag", "mut"])
            if kind == "cut":
                return netmsg.frame(body[:rng.randrange(53, len(body))])
            ms = [m for (name, m) in wiregen.mutations("Frame", body, rng, budget=30)
                  if name.startswith(("truncate", "count", "lp1"))]
            return netmsg.frame(rng.choice(ms)) if ms else netmsg.frame(body[:60])
        if cls == "unknown_message_type":
            body = bytearray(good[8:])
            body[53:55] = struct.pack(">H", rng.choice([7, 8, 255, 0xffff]))
            return netmsg.frame(bytes(body))
        if cls == "unknown_data_type":
            b = netmsg.body(M.DataMessage(M.DATA_BLOCK, head), self.nid())
            b = bytearray(b)
            b[56:58] = struct.pack(">H", rng.choice([3, 9, 0xffff]))
            return netmsg.frame(bytes(b))
        if cls == "header_only_data":
            return frame_of(M.DataMessage(M.DATA_HEADER, head.header), self.nid())
        if cls == "oversize_inventory":
            items = [M.InventoryItem(M.DATA_BLOCK, indep.sha256d(b"%d" % i)) for i in range(501)]
            return frame_of(M.InventoryMessage(items), self.nid())
        if cls == "getdata_transaction_type":
            return frame_of(M.GetDataMessage(M.DATA_TRANSACTION, head.hash()), self.nid())
        if cls == "getdata_unknown_hash":
            return frame_of(M.GetDataMessage(M.DATA_BLOCK, indep.sha256d(b"nope")), self.nid())
        if cls == "peers_with_unusable_addresses":
            return frame_of(M.PeersMessage([M.Peer(1, IPv6Address("2001:db8::1"), 2412), M.Peer(2, IPv6Address("::1"), 1)]), self.nid())
        if cls == "repeated_greeting":
            return frame_of(netmsg.hello(nonce=4242, my_port=3000), self.nid())
        if cls == "empty_inventory":
            return frame_of(M.InventoryMessage([]), self.nid())
        if cls == "get_peers":
            return frame_of(M.GetPeersMessage(), self.nid())
        if cls == "duplicate_block":
            return frame_of(M.DataMessage(M.DATA_BLOCK, head), self.nid())
        if cls == "trailing_garbage_frame":
            return good + b"\x00\x01\x02\x03garbage"
        if cls == "random_bytes":
            return bytes(rng.randrange(256) for _ in range(rng.randint(1, 300)))
        if cls == "bit_flipped_frame":
            src = rng.choice([good, frame_of(M.DataMessage(M.DATA_BLOCK, head), self.nid()), frame_of(netmsg.hello(), self.nid())])
            i = rng.randrange(len(src))
            return src[:i] + bytes([src[i] ^ (1 << rng.randrange(8))]) + src[i + 1:]
        if cls == "spliced_frames":
            a = frame_of(M.DataMessage(M.DATA_BLOCK, head), self.nid())
            i, j = rng.randrange(8, len(a)), rng.randrange(8, len(good))
            return a[:i] + good[j:] + good
        if cls == "truncated_then_valid":
            return good[:rng.randrange(9, len(good))] + good
        return None

    def block_input(self, cls):
        """Blocks are produced through RandomTree so that they sit on the node's real chain."""
        rt, rng = self.rt, self.rng
        return None


def run(pid, tier, replay=None):
    chk = Check(pid, tier)
    quick = tier != "thorough"
    rng = random.Random(seed() * 7 + 20)
    sk.setup()
    # (a) design level
    r = tracecheck.model("Contain", "CSpec", {"Conns": {"p", "q", "r"}}, properties=["A_C20", "A_C20_StateOnlyByValidTraffic"],
                         invariants=["I_Alive"], workers=4, timeout=600)
    tlc.require_clean(r, "Contain")
    chk.add_tlc("Contain (3 connections, every sequence of inputs over the class table)", r)
    if r.violated:
        return machinery_failure(pid, "Contain.tla violates %s" % r.violated)

    cfg = sk.Cfg(**MODEL_CFG)
    sk.apply_cfg(cfg)
    keys = sk.Keys(3)
    from skepticoin.networking import messages as M
    byte_classes = ["bad_magic", "oversize_length", "zero_length", "truncated_frame", "undecodable_header", "undecodable_payload",
                    "unknown_message_type", "unknown_data_type", "header_only_data", "oversize_inventory", "getdata_transaction_type",
                    "getdata_unknown_hash", "peers_with_unusable_addresses", "repeated_greeting", "empty_inventory", "get_peers",
                    "duplicate_block", "trailing_garbage_frame", "random_bytes", "bit_flipped_frame", "spliced_frames", "truncated_then_valid",
                    "astronomic_number_in_a_field"]
    bulk_cls = "invalid_block_in_bulk_then_a_rejected_block"
    import skepticoin.networking.remote_peer as rp_c
    ibd_skip = rp_c.IBD_VALIDATION_SKIP
    block_classes = {"block_invalid_by_itself": ["merkle", "badpow", "cb_height", "no_reward", "two_rewards", "cb_blank"],
                     "block_invalid_in_state": ["badtarget", "ts_equal", "evidence", "evidence_otherchain", "evidence_otherchain", "evidence_otherchain", "evidence_otherchain", "height_plus", "reward+1"],
                     "block_that_cannot_be_applied": ["ghost", "spent"],
                     "orphan_block": ["orphan"], "valid_block": [""]}
    tx_classes = {"transaction_invalid": ["wrongkey", "sig_outs", "overspend", "ghost", "noouts", "dupin", "blank"],
                  "transaction_amount_out_of_range": ["zeroout", "overmax"], "valid_transaction": [""]}
    traces = []
    counts = {}
    ntr, nev = (20, 30) if quick else (200, 60)
    for i in range(ntr):
        w = sk.World(cfg, keys, tag=b"c%d" % i)
        g = w.make_genesis(ts=5000)
        run_ = node_drv.NodeRun(w, g, peers=["p", "q", "r"], tid=i + 1, clock0=5000)
        try:
            rec = NodeRec(run_, rng)
            rt = RandomTree(w, rec, rng, nkeys=3, p_mut=0.0)
            # every fourth node is fresh from its start-up path: nothing has been validated in this run when the first input arrives
            for _ in range(0 if i % 4 == 0 else 3 if i % 2 else 6):
                rt.step()
            run_.events, run_.labels = [], []
            gen = Gen(run_, rt, rng)
            names = ["p", "q", "r"]
            nextpeer = [0]

            def lock_free():
                # the chain manager's lock guards every state change and the miner's reads: if an input leaves it held, the next block,
                # transaction or miner request blocks the thread that needs it, for ever
                lk = run_.node.local.chain_manager.lock
                if lk.acquire(timeout=1.0):
                    lk.release()
                    return True
                return False

            def snapshot(others_served=True):
                p = run_.post()
                return {"lock_free": lock_free(), "open": p["open"], "served": p["served"], "head": p["head"], "pool": p["pool"],
                        "rows": sorted(x[0] for x in p["rows"]), "buffer": p["buffer"], "escaped": p["escaped"], "running": p["running"],
                        "others_served": others_served}
            initial = snapshot()
            events = []

            def hconnect(direction=None, hello=True, host3=1):
                nextpeer[0] += 1
                nm = "n%d" % nextpeer[0]
                run_.peers.append(nm)
                run_.node.connect(nm, host="10.0.%d.%d" % (host3, nextpeer[0]), port=6000 + nextpeer[0],
                                  direction=direction or rng.choice(["INCOMING", "OUTGOING"]), hello=hello,
                                  their_port=3100 + nextpeer[0], nonce=500 + nextpeer[0])
                run_.node.take_sent(nm)
                events.append({"op": "harness_connect", "peer": nm})
                return nm

            def hclose(nm):
                if run_.node.is_open(nm):
                    run_.node.local.disconnect(run_.node.peers[nm][0], "harness: remote side hangs up")
                events.append({"op": "harness_close", "peer": nm})

            for k in range(nev):
                openp = [n for n in run_.peers if run_.node.is_open(n)]
                while len(openp) < 3:                      # keep three connections: a new peer replaces a closed one
                    hconnect()
                    openp = [n for n in run_.peers if run_.node.is_open(n)]
                peer = rng.choice(openp)
                allc = byte_classes + list(block_classes) + list(tx_classes) + ["non_greeting_first", bulk_cls]
                cls = rng.choice(allc)
                if k == 0 and i % 4 == 0:
                    cls = bulk_cls              # also as the very first thing a freshly started node sees (nothing validated yet in this run)
                if cls == "non_greeting_first":
                    peer = hconnect(direction="INCOMING", hello=False, host3=2)
                    openp = [n for n in run_.peers if run_.node.is_open(n)]
                others = [n for n in openp if n != peer]
                # the other connections have a request half delivered
                cs = run_.node.chain()
                head = cs.block_by_hash[cs.current_chain_hash]
                pend = {}
                for o in others:
                    fr = frame_of(M.GetDataMessage(M.DATA_BLOCK, head.hash()), 7000 + k)
                    cut = rng.randrange(1, len(fr))
                    run_.node.deliver(o, fr[:cut])
                    pend[o] = fr[cut:]
                before_ids = set(cs.block_by_hash.keys())
                data = None
                blk_ = None
                if cls == bulk_cls:
                    x1 = make_block(rt, w, rng, rng.choice(["reward+1", "badtarget", "evidence"]))
                    x2 = make_block(rt, w, rng, rng.choice(["reward+1", "ts_equal"]))
                    if x1 is None or x2 is None or x1.height % ibd_skip == 0:
                        cls, data = "get_peers", gen.make("get_peers")
                    else:
                        data = frame_of(M.DataMessage(M.DATA_BLOCK, x1), gen.nid(), irt=77) + frame_of(M.DataMessage(M.DATA_BLOCK, x2), gen.nid())
                elif cls in block_classes:
                    m = rng.choice(block_classes[cls])
                    blk_ = make_block(rt, w, rng, m)
                    if blk_ is None:
                        cls, data = "get_peers", gen.make("get_peers")
                    else:
                        data = frame_of(M.DataMessage(M.DATA_BLOCK, blk_), gen.nid())
                elif cls in tx_classes:
                    m = rng.choice(tx_classes[cls])
                    t_ = make_tx(rt, w, rng, run_, m)
                    if t_ is None:
                        cls, data = "get_peers", gen.make("get_peers")
                    else:
                        data = frame_of(M.DataMessage(M.DATA_TRANSACTION, t_), gen.nid())
                elif cls == "non_greeting_first":
                    data = gen.make(rng.choice(["get_peers", "empty_inventory", "getdata_unknown_hash"]))
                else:
                    data = gen.make(cls)
                if data is None:
                    data, cls = gen.make("get_peers"), "get_peers"
                # random fragmentation
                chunks, pos = [], 0
                while pos < len(data):
                    c = rng.choice([1, 2, 3, 7, 50, 400, 1024, len(data)])
                    chunks.append(c)
                    pos += c
                run_.node.use_store()
                run_.node.deliver(peer, data, chunk=chunks)
                run_.node.step_managers()
                # complete the other peers' requests: they must be answered
                served_ok = True
                for o in others:
                    if not run_.node.is_open(o):
                        continue
                    run_.node.take_sent(o)
                    run_.node.deliver(o, pend[o])
                    got = [m_ for (h_, m_) in run_.node.take_sent(o) if type(m_).__name__ == "DataMessage"]
                    if head.hash() in run_.node.chain().block_by_hash and not got:
                        served_ok = False
                if cls == "valid_block" and blk_ is not None and blk_.hash() in run_.node.chain().block_by_hash and blk_.hash() not in before_ids:
                    register_block(rt, w, blk_)
                events.append({"op": "input", "peer": peer, "class": cls, "bytes": len(data), "post": snapshot(served_ok)})
                counts[cls] = counts.get(cls, 0) + 1
                if not events[-1]["post"]["lock_free"]:
                    break                                  # anything further that needs the lock would hang this run
                chk.case((i, k, cls), nontrivial=cls not in ("valid_block", "valid_transaction", "get_peers"))
                # a connection left in the middle of a frame is abandoned by its remote side (so that later requests on it are clean)
                if run_.node.is_open(peer):
                    rcv = run_.node.peers[peer][0].receiver
                    if rcv.buffer or rcv.magic_read or rcv.len is not None:
                        hclose(peer)
            # the half-frame peers were closed by the harness itself: reflect that as "open" for TLC (not the node's doing)
            traces.append({"id": i + 1, "initial": initial, "events": events})
        finally:
            run_.close()
    chk.sample({"source": "malformed-input sequence", "events": [[e["peer"], e.get("class", e["op"]), e.get("bytes", 0)] for e in traces[0]["events"][:12]]})
    chk.extra["inputs_per_class"] = counts
    verdicts, r2 = tracecheck.run("TraceContain", traces, {"Conns": {"p", "q", "r"}}, ids=[t["id"] for t in traces], workers=4, timeout=3000)
    chk.states += r2.distinct
    chk.transitions += r2.generated
    chk.traces_validated += len(traces)
    by = {t["id"]: t for t in traces}
    for t_id, (clause, line) in verdicts.items():
        if clause != "ok":
            ev = by[t_id]["events"]
            chk.violation(clause, {"events": [[e["peer"], e.get("class", e["op"]), e.get("bytes", 0)] for e in ev[:line]], "post": ev[line - 1].get("post")},
                          {"clause": clause, "class": ev[line - 1].get("class")})
    for dft in tlc.tagged(r2, "DRIFT"):
        chk.model_drift("trace %s event %s: %s" % tuple(dft[:3]))
    chk.extra["rule"] = ("inputs drawn from 33 classes (framing faults, undecodable header/payload placed by the Wire grammar, unknown types, protocol order, oversize inventory, "
                         "structurally invalid / in-state invalid / unappliable blocks, invalid and out-of-range transactions, random bytes, bit flips, splices), random fragmentation, "
                         "two other connections with a half-delivered request; non-trivial = not plain valid traffic")
    chk.assumptions.append("in-memory sockets; each input is followed by one manager step and by completion of the other peers' pending requests")
    rc_ = bulk_flood_stage(chk, quick, pid, cfg, keys)
    if rc_:
        return rc_
    return chk.finish()


def bulk_flood_stage(chk, quick, pid, cfg, keys):
    """A long chain that fails the in-state rules (self-declared easy target, no evidence) sent as answers to block requests -- more than a
    thousand blocks, more than any buffer of the node is likely to hold -- followed by a relayed block that is validated and rejected: when
    the peer is through, chain state and block store are what they were.  Judged by TLC (TraceFacts)."""
    from harness import fakenet, netmsg
    import skepticoin.consensus as c
    import skepticoin.networking.messages as M
    import skepticoin.networking.remote_peer as rp_
    from skepticoin.datatypes import Block, BlockHeader, BlockSummary, PowEvidence
    from skepticoin.signing import SECP256k1PublicKey
    sk.apply_cfg(cfg)
    w = sk.World(cfg, keys, tag=b"flood")
    g = w.make_genesis(ts=5000)
    now = 5000 + 100000
    node = fakenet.Node(w.T["CoinState"].empty().add_block_no_validation(g), g, clock=fakenet.Clock(now))
    facts = []
    n = 1100 if quick else 2300
    try:
        node.connect("p", host="10.0.0.2", port=5000, direction="OUTGOING", their_port=2412, nonce=55)
        node.connect("q", host="10.0.0.3", port=5001, direction="INCOMING", their_port=2413, nonce=56)
        node.take_sent("p")
        pk = SECP256k1PublicKey(keys.pub[1])
        prev, junk = g, []
        before_ids = set(node.chain().block_by_hash.keys())
        before_rows = {b.hash() for b in node.store_rows()}
        mid = 9000
        for i in range(1, n + 1):
            H = prev.height + 1
            if H % rp_.IBD_VALIDATION_SKIP == 0:
                break
            cb = c.construct_coinbase_transaction(H, [], {}, b"junk", pk)
            summ = BlockSummary(H, prev.hash(), c.calc_merkle_root_hash([cb]), prev.timestamp + 1, b"\xff" * 32, 0)
            b = Block(BlockHeader(summ, PowEvidence(b"\x00" * 32, b"\x00" * 32, b"\x00" * 32)), [cb])
            junk.append(b)
            prev = b
            if node.is_open("p"):
                mid += 1
                node.use_store()
                node.deliver("p", netmsg.frame(netmsg.body(M.DataMessage(M.DATA_BLOCK, b), mid, 77, ts=now)))
        taken = sum(1 for b in junk if b.hash() in node.chain().block_by_hash)
        # the block that is validated: relayed, child of the last junk block, fails the same rules
        H = prev.height + 1
        cb = c.construct_coinbase_transaction(H, [], {}, b"junk", pk)
        summ = BlockSummary(H, prev.hash(), c.calc_merkle_root_hash([cb]), prev.timestamp + 1, b"\xff" * 32, 0)
        last = Block(BlockHeader(summ, PowEvidence(b"\x00" * 32, b"\x00" * 32, b"\x00" * 32)), [cb])
        if node.is_open("p"):
            node.use_store()
            node.deliver("p", netmsg.frame(netmsg.body(M.DataMessage(M.DATA_BLOCK, last), mid + 1, 0, ts=now)))
        after_ids = set(node.chain().block_by_hash.keys())
        try:
            after_rows = {b.hash() for b in node.store_rows()}
        except Exception:
            after_rows = {b"?"}
        facts.append({"clause": "C20:malformed_input_changed_chain_state", "holds": after_ids == before_ids,
                      "what": "%d of %d junk blocks were taken unvalidated; %d blocks more than before are in the chain state after the rejection" % (taken, len(junk), len(after_ids - before_ids))})
        facts.append({"clause": "C20:malformed_input_changed_block_store", "holds": after_rows == before_rows,
                      "what": "%d blocks more than before are in the block store after the rejection" % len(after_rows - before_rows)})
        facts.append({"clause": "C20:exception_escaped_the_event_handler_or_manager_step", "holds": not node.escaped, "what": "%s" % node.escaped[:2]})
        facts.append({"clause": "C20:malformed_input_affected_another_connection", "holds": node.is_open("q"), "what": "the other connection"})
        chk.extra["bulk_flood"] = {"junk_blocks_sent": len(junk), "taken_unvalidated": taken}
        chk.case(("bulk_flood", n), nontrivial=True)
        if taken < 1000:
            chk.notes.append("bulk flood: only %d junk blocks were taken unvalidated" % taken)
    finally:
        node.close()
    v, r = tracecheck.run("TraceFacts", facts, {}, ids=[1], workers=1, timeout=300)
    chk.traces_validated += 1
    for (line, clause) in tlc.tagged(r, "FINDING"):
        chk.violation(clause, {"bulk_flood": facts[line - 1]["what"]}, {"clause": clause, "class": "bulk_flood"})
    return 0


def register_block(rt, w, cand):
    rt.stored.append(rt.next_id)
    w.by_abs[rt.next_id] = cand
    rt.ts[rt.next_id] = cand.timestamp
    rt.height[rt.next_id] = cand.height
    for pos, t_ in enumerate(cand.transactions):
        rt._index_tx(rt.next_id * 10 + pos, t_)
        w.tx_by_abs[rt.next_id * 10 + pos] = t_
    rt.next_id += 1


class _Capture:
    """rec-like object that captures the block RandomTree builds instead of delivering it."""

    def __init__(self, cs):
        self._cs = cs
        self.block = None

    @property
    def cs(self):
        return self._cs

    def add(self, block, now, validated=True, label=None):
        self.block = block
        return "rej"


def make_block(rt, w, rng, mut):
    """One candidate block with the named defect ('' = valid) on the node's current chain, built by RandomTree."""
    real_rec = rt.rec
    cap = _Capture(real_rec.cs)
    rt.rec = cap
    try:
        for _ in range(6):
            cap.block = None
            res, m = rt.step(force=mut)
            if cap.block is not None and m == mut:
                return cap.block
    finally:
        rt.rec = real_rec
    return None


def make_tx(rt, w, rng, run_, mut):
    cs = run_.node.chain()
    head_abs = [a for a in rt.stored if w.by_abs[a].hash() == cs.current_chain_hash]
    if not head_abs:
        return None
    t = rt.valid_tx(rt.utxo_of(head_abs[0]), 70000 + rng.randrange(10000), set())
    if t is None:
        return None
    if mut:
        t = rt.mutate_tx(t, mut, head_abs[0], 0) or t
    td = {k_: v for k_, v in t.items() if k_ not in ("_pick", "_fee")}
    td.setdefault("_owner", {0: t["ins"][0]["signer"] if t["ins"] and t["ins"][0]["signer"] > 0 else 1})
    return w.concretise_tx(td)
