"""C15: wallet keys (Wallet.tla key pool), faithful file (dump/load), balance, atomic save (AtomicFile.tla).

(a) TLC: Wallet.tla key-pool properties over every sequence of hand-outs / restores / saves / loads; MC_AtomicFile over every
    chunking of the save with a crash point in every state (necessity runs: in-place write, rename before everything is written).
(b) TLC-generated and randomized operation sequences on the real Wallet and the real wallet.json -> TraceWallet.
(c) a real subprocess running save_wallet under strace -> TraceAtomicFile (every prefix of the system-call sequence is a crash point);
    and every crash point materialised: the save is killed (os._exit) at each boundary and wallet.json must load as the old or the new wallet.
(d) reported balance vs TLC's ledger (TraceLedger, clause C15)."""
import json
import os
import random
import shutil
import subprocess
import tempfile

from harness import tlc, sk, tracecheck, strace_fs, ledger_drv, store_drv
from harness.common import Check, seed, machinery_failure, ROOT
from checks.ledger import RandomTree, judge

MODEL_CFG = dict(period=1000, timespan=4, initial_subsidy=8, halving=2, max_money=30)


# annotations a user (or the node) may give a handed-out key: the empty one (`skepticoin-receive ""`), blanks, the miner's reservation,
# text that needs JSON escaping, a long one, words that look like JSON literals
ANNOTATIONS = ["", " ", "reserved for potentially mined block", "change", 'say "hi" \\ there', "line1\nline2", "null", "0", "false",
               "x" * 300, "{}", "a0"]


def proj(wallet, keys):
    al = lambda pub: keys.by_pub.get(pub, 0)
    kp = sorted(al(pub) for pub, priv in wallet.keypairs.items() if al(pub) and keys.sk[al(pub)].to_string() == priv)
    return {"unused": [al(p) for p in wallet.unused_public_keys],
            "annotated": sorted([al(p), a] for p, a in wallet.public_key_annotations.items()),
            "keypairs": kp}


def fresh_wallet(keys, n):
    from skepticoin.wallet import Wallet
    w = Wallet.empty()
    for k in range(1, n + 1):
        w.keypairs[keys.pub[k]] = keys.sk[k].to_string()
        w.unused_public_keys.append(keys.pub[k])
    return w


def run_ops(ops, keys, nkeys, tid, workdir):
    """ops: list of ("handout",ann) / ("restore",) / ("save",) / ("load",) on a real wallet + wallet.json in workdir."""
    import skepticoin.wallet as W
    cwd = os.getcwd()
    os.chdir(workdir)
    try:
        w = fresh_wallet(keys, nkeys)
        W.save_wallet(w)
        initial = proj(w, keys)
        events = []
        handed = []
        for op in ops:
            if op[0] == "handout":
                import contextlib, io
                with contextlib.redirect_stdout(io.StringIO()):
                    k = w.get_annotated_public_key(op[1])
                handed.append(k)
                events.append({"op": "handout", "key": keys.by_pub.get(k, 0), "post": proj(w, keys)})
            elif op[0] == "restore":
                if not handed:
                    continue
                k = handed.pop()
                if k not in w.public_key_annotations:
                    continue
                w.restore_annotated_public_key(k, "x")
                events.append({"op": "restore", "key": keys.by_pub.get(k, 0), "post": proj(w, keys)})
            elif op[0] == "save":
                W.save_wallet(w)
                f = W.Wallet.load(open("wallet.json"))
                events.append({"op": "save", "key": 0, "post": proj(w, keys), "file": proj(f, keys)})
            elif op[0] == "load":
                w = W.Wallet.load(open("wallet.json"))
                events.append({"op": "load", "key": 0, "post": proj(w, keys)})
        return {"id": tid, "initial": initial, "events": events}
    finally:
        os.chdir(cwd)


def run(pid, tier, replay=None):
    chk = Check(pid, tier)
    quick = tier != "thorough"
    rng = random.Random(seed() * 17 + 15)
    sk.setup()
    keys = sk.Keys(4)

    # ---- (a) design level
    defs = "OutsDef == << >>"
    base = {"Outs": ("<-", "OutsDef"), "Amounts": set(), "Fees": set(), "MarkBeforeKnown": False, "KeyIds": {1, 2, 3}, "MaxOps": 6 if quick else 7}
    r = tracecheck.model("Wallet", "WSpec", base, properties=["A_C15_NoKeyTwice", "A_C15_ReuseOnlyWhenExhausted"],
                         invariants=["I_C15_UnusedDisjoint"], workers=8, timeout=900, extra_defs=defs)
    tlc.require_clean(r, "Wallet keys")
    chk.add_tlc("Wallet key pool (3 keys, every sequence of <= %d hand-outs/restores/saves/loads)" % base["MaxOps"], r, constants=str(base))
    if r.violated:
        return machinery_failure(pid, "Wallet.tla (key pool) violates %s" % r.violated)
    for (inplace, early, promote, expect) in ((False, False, False, None), (True, False, False, "I_C15_Atomic"), (False, True, False, "I_C15_Atomic"),
                                              (False, False, True, "I_C15_Atomic")):
        c = {"Target": "wallet.json", "NewSize": 5, "Side": "wallet.json.new", "InPlace": inplace, "RenameEarly": early, "PromoteSide": promote}
        ra = tracecheck.model("MC_AtomicFile", "Spec", c, invariants=["I_C15_Atomic", "I_DoneIsNew"], workers=2, timeout=300)
        tlc.require_clean(ra, "MC_AtomicFile")
        chk.add_tlc("MC_AtomicFile InPlace=%s RenameEarly=%s PromoteSideOnRestart=%s (every chunking, crash in every state, restart, save again)" % (inplace, early, promote),
                    ra, expect_violation=expect)
        if (expect is None) != (not ra.violated):
            return machinery_failure(pid, "MC_AtomicFile: unexpected result %s for InPlace=%s RenameEarly=%s PromoteSide=%s" % (ra.violated, inplace, early, promote))

    # ---- (b) operation sequences on the real wallet + file
    traces = []
    tid = 0
    n = 150 if quick else 2000
    for i in range(n):
        d = tempfile.mkdtemp(prefix="wk_", dir=sk.scratch())
        nk = rng.choice([1, 2, 3, 4])
        ops = []
        for _ in range(rng.randint(3, 10)):
            ops.append(rng.choice([("handout", "a%d" % rng.randint(0, 3)), ("handout", "receive"), ("restore",), ("save",), ("load",), ("save",), ("load",),
                                   ("handout", rng.choice(ANNOTATIONS))]))
        tid += 1
        t = run_ops(ops, keys, nk, tid, d)
        if t["events"]:
            traces.append(t)
        chk.case(json.dumps(ops), nontrivial=any(o[0] == "load" for o in ops) and sum(1 for o in ops if o[0] == "handout") >= 2)
        shutil.rmtree(d, ignore_errors=True)
    chk.sample({"source": "randomized wallet operation sequence", "events": [[e["op"], e["key"]] for e in traces[0]["events"]]})
    wc = {"Outs": ("<-", "OutsDef"), "Amounts": set(), "Fees": set(), "MarkBeforeKnown": False, "KeyIds": {1, 2, 3, 4}, "MaxOps": 99}
    verdicts, r2 = tracecheck.run("TraceWallet", traces, wc, ids=[t["id"] for t in traces], workers=4, extra_defs=defs)
    chk.states += r2.distinct
    chk.transitions += r2.generated
    chk.traces_validated += len(traces)
    by = {t["id"]: t for t in traces}
    for t_id, (clause, line) in verdicts.items():
        if clause != "ok":
            chk.violation(clause, {"events": by[t_id]["events"][:line], "initial": by[t_id]["initial"]}, {"clause": clause})
    for dft in tlc.tagged(r2, "DRIFT"):
        chk.model_drift("trace %s event %s: %s" % tuple(dft[:3]))

    # ---- (c) the real save under strace, and every crash point materialised
    import skepticoin.wallet as W
    for nk, label, extra in ((3, "small", 0), (3, "medium", 150)) + (() if quick else ((4, "large", 2000),)):
        d = tempfile.mkdtemp(prefix="wsave_", dir=sk.scratch())
        cwd = os.getcwd()
        os.chdir(d)
        try:
            old = fresh_wallet(keys, nk)
            W.save_wallet(old)
            new = fresh_wallet(keys, nk)
            new.get_annotated_public_key("mined")
            if extra:
                new.generate_keys(extra)         # a larger wallet: several OS-level write() calls
            with open("new_wallet_source.json", "w") as f:
                new.dump(f)
            newsize = os.path.getsize("new_wallet_source.json")
            old_proj, new_proj = json.load(open("wallet.json")), json.load(open("new_wallet_source.json"))
        finally:
            os.chdir(cwd)
        code = ("import skepticoin.wallet as W\n"
                "w = W.Wallet.load(open('new_wallet_source.json'))\n"
                "W.save_wallet(w)\n")
        ev = strace_fs.run(code, d, {"wallet.json", "wallet.json.new"})
        if not any(e["op"] in ("rename", "write") for e in ev):
            return machinery_failure(pid, "strace recorded no write/rename on the wallet paths: %s" % ev[:5])
        tr = [{"id": 1, "prop": "C15", "newsize": newsize, "events": ev}]
        verdicts, r3 = tracecheck.run("TraceAtomicFile", tr, {"Target": "wallet.json", "NewSize": newsize}, ids=[1], workers=1)
        chk.states += r3.distinct
        chk.transitions += r3.generated
        chk.traces_validated += 1
        clause, line = verdicts[1]
        chk.sample({"source": "strace of save_wallet (%s wallet)" % label, "syscalls": ev[:8]})
        if clause != "ok":
            chk.violation(clause, {"syscalls": ev, "failing_call": line}, {"clause": clause})
        # materialise every crash point
        p = subprocess.run(["/venv/bin/python", os.path.join(ROOT, "harness/crashrun.py"), sk.REPO, "wallet", "0"], cwd=d, capture_output=True, text=True)
        m = [l for l in p.stdout.splitlines() if l.startswith("BOUNDARIES")]
        if p.returncode != 0 or not m:
            return machinery_failure(pid, "crashrun failed: %s %s" % (p.returncode, p.stderr[-800:]))
        nb = int(m[0].split()[1])
        points = range(1, nb + 1) if nb <= 60 else sorted(set(list(range(1, 20)) + rng.sample(range(20, nb), 30) + [nb - 1, nb]))
        for k in points:
            os.chdir(d)
            try:
                with open("wallet.json", "w") as f:
                    json.dump(old_proj, f, indent=4)
                if os.path.exists("wallet.json.new"):
                    os.remove("wallet.json.new")
            finally:
                os.chdir(cwd)
            pr = subprocess.run(["/venv/bin/python", os.path.join(ROOT, "harness/crashrun.py"), sk.REPO, "wallet", str(k)], cwd=d, capture_output=True, text=True)
            chk.case(("crash", label, k), nontrivial=True)
            state = None
            try:
                got = json.load(open(os.path.join(d, "wallet.json")))
                W.Wallet.load(open(os.path.join(d, "wallet.json")))
                state = "old" if got == old_proj else "new" if got == new_proj else "other"
            except Exception as e:
                state = "unreadable: %r" % e
            if pr.returncode != 9 and k <= nb:
                return machinery_failure(pid, "crash point %d did not kill the save (rc=%s)" % (k, pr.returncode))
            if state not in ("old", "new"):
                chk.violation("C15:wallet_file_neither_complete_old_nor_complete_new_after_crash",
                              {"crash_before_boundary": k, "of": nb, "file_state": state}, {"clause": "crash"})
            # restart: the program's own start-up path for the wallet (scripts/utils.open_or_init_wallet) runs on what the crash left behind
            rs = subprocess.run(["/venv/bin/python", "-c", "import sys; sys.dont_write_bytecode = True; sys.path.insert(0, %r); "
                                 "from skepticoin.scripts.utils import open_or_init_wallet; w = open_or_init_wallet(); "
                                 "print('KEYS', len(w.keypairs), len(w.unused_public_keys))" % sk.REPO], cwd=d, capture_output=True, text=True)
            try:
                got2 = json.load(open(os.path.join(d, "wallet.json")))
                state2 = "old" if got2 == old_proj else "new" if got2 == new_proj else "other"
            except Exception as e:
                state2 = "unreadable: %r" % e
            if state2 not in ("old", "new") or rs.returncode != 0:
                chk.violation("C15:wallet_file_neither_complete_old_nor_complete_new_after_crash_and_restart",
                              {"crash_before_boundary": k, "of": nb, "file_state_after_crash": state, "file_state_after_restart": state2,
                               "restart_exit": rs.returncode, "restart_stderr": rs.stderr[-300:]}, {"clause": "crash_restart"})
        chk.extra.setdefault("crash_points_materialised", {})[label] = len(list(points))
        # an operating-system fault instead of a crash: the file system takes only L bytes of the new file (a full disk, a quota: the write is cut
        # short, then fails) -- the save may fail, the wallet file must stay the complete previous or become the complete new wallet
        newsize_ = len(json.dumps(new_proj, indent=4))
        for L in sorted({1, 4096, newsize_ // 3, newsize_ - 10}):
            if L <= 0:
                continue
            os.chdir(d)
            try:
                with open("wallet.json", "w") as f:
                    json.dump(old_proj, f, indent=4)
                if os.path.exists("wallet.json.new"):
                    os.remove("wallet.json.new")
            finally:
                os.chdir(cwd)
            pr = subprocess.run(["/venv/bin/python", os.path.join(ROOT, "harness/crashrun.py"), sk.REPO, "wallet_limit", str(L)], cwd=d, capture_output=True, text=True)
            chk.case(("file_size_limit", label, L), nontrivial=True)
            try:
                got = json.load(open(os.path.join(d, "wallet.json")))
                W.Wallet.load(open(os.path.join(d, "wallet.json")))
                state = "old" if got == old_proj else "new" if got == new_proj else "other"
            except Exception as e:
                state = "unreadable: %r" % e
            if state not in ("old", "new"):
                chk.violation("C15:wallet_file_neither_complete_old_nor_complete_new_after_a_save_on_a_full_file_system",
                              {"bytes_the_file_system_accepts": L, "new_wallet_bytes": newsize_, "file_state": state, "save": pr.stdout.strip()[:200]}, {"clause": "short_write"})
        # the same for the receive script as a whole (its real main(): whatever it does to the wallet file before and after save_wallet)
        os.chdir(d)
        try:
            with open("wallet.json", "w") as f:
                json.dump(old_proj, f, indent=4)
        finally:
            os.chdir(cwd)
        p = subprocess.run(["/venv/bin/python", os.path.join(ROOT, "harness/crashrun.py"), sk.REPO, "receive_script", "0"], cwd=d, capture_output=True, text=True)
        m = [l for l in p.stdout.splitlines() if l.startswith("BOUNDARIES")]
        if p.returncode != 0 or not m:
            return machinery_failure(pid, "crashrun (receive script) failed: %s %s" % (p.returncode, p.stderr[-800:]))
        nbr = int(m[0].split()[1])
        new_after_script = json.load(open(os.path.join(d, "wallet.json")))
        for k in range(1, nbr + 1) if nbr <= 40 else sorted(set(list(range(1, 15)) + rng.sample(range(15, nbr), 20) + [nbr - 1, nbr])):
            os.chdir(d)
            try:
                for fn in os.listdir("."):
                    if fn.startswith("wallet.json"):
                        os.remove(fn)
                with open("wallet.json", "w") as f:
                    json.dump(old_proj, f, indent=4)
            finally:
                os.chdir(cwd)
            subprocess.run(["/venv/bin/python", os.path.join(ROOT, "harness/crashrun.py"), sk.REPO, "receive_script", str(k)], cwd=d, capture_output=True, text=True)
            chk.case(("crash_receive_script", label, k), nontrivial=True)
            try:
                got = json.load(open(os.path.join(d, "wallet.json")))
                state = "old" if got == old_proj else "new" if got == new_after_script else "other"
            except Exception as e:
                state = "missing or unreadable: %r" % e
            if state not in ("old", "new"):
                chk.violation("C15:wallet_file_neither_complete_old_nor_complete_new_after_a_crash_of_the_receive_script",
                              {"crash_before_boundary": k, "of": nbr, "file_state": state}, {"clause": "crash_script"})
        chk.extra.setdefault("crash_points_of_the_receive_script", {})[label] = nbr
        shutil.rmtree(d, ignore_errors=True)

    # ---- (c2) the miner's main loop (the real MinerWatcher.__call__: start-up, message loop, shutdown path) hands keys out too: runs that
    #      find a block and then stop -- normally, or because storing the found block fails (disk full) -- followed by a restart of a wallet
    #      script: the key the found block paid must not be handed out again while unused keys remain
    from harness import minerloop, node_drv
    from checks import node as nodechk
    cfg_m = sk.Cfg(**nodechk.MODEL_CFG)
    sk.apply_cfg(cfg_m)
    keys_m = sk.Keys(6)
    facts = []
    for fault in (None, "flush", "save"):
        for script in (["idle", "mine", "idle"], ["mine"], ["mine", "mine"]):
            w_m, g_m, blocks_m, txs_m = nodechk.build_universe(cfg_m, keys_m)
            run_m = node_drv.NodeRun(w_m, g_m, peers=["p"], tid=1, clock0=5000)
            try:
                run_m.deliver_block("p", blocks_m[1])
                out_m = minerloop.run(run_m, script, fault=fault)
                handed, unused_before = minerloop.restart_handout(out_m["wallet_dir"])
            finally:
                run_m.close()
            what = "miner loop %s, storing the found block %s" % (script, "fails (%s)" % fault if fault else "succeeds")
            facts.append({"clause": "C15:key_paid_by_a_found_block_is_handed_out_again_after_the_miner_stopped_and_a_restart",
                          "holds": not (handed in out_m["paid_keys"] and unused_before > 1), "what": what})
            chk.case(("minerloop", str(script), fault), nontrivial=bool(out_m["found"]))
    if not any(True for f_ in facts):
        return machinery_failure(pid, "miner loop runs produced no fact")
    vf, rf = tracecheck.run("TraceFacts", facts, {}, ids=[1], workers=1, timeout=600)
    chk.traces_validated += len(facts)
    for (line, clause) in tlc.tagged(rf, "FINDING"):
        chk.violation(clause, {"run": facts[line - 1]["what"]}, {"clause": clause})
    sk.restore_cfg()

    # ---- (c3) the wallet scripts themselves (scripts/send.py, scripts/receive.py: their real main()) killed after every visible step -- a key
    #      handed out, wallet.json saved, the key leaving the process (printed address / change output of the broadcast spend) -- then a
    #      restart handing out a key (KeyEscape.tla; TraceKeyEscape)
    from harness import scripts_drv
    for sbe, expect in ((True, None), (False, "I_C15_EscapedKeyNotHandedOutAgain")):
        rk = tracecheck.model("KeyEscape", "Spec", {"Keys": [1, 2, 3], "SaveBeforeEscape": sbe}, workers=2, timeout=300,
                              invariants=["I_C15_EscapedKeyNotHandedOutAgain", "I_EscapedKeysAreUsedOnDisk"])
        tlc.require_clean(rk, "KeyEscape")
        chk.add_tlc("KeyEscape SaveBeforeEscape=%s (hand-out / save / escape with a crash before and after each, restart)" % sbe, rk, expect_violation=expect)
        if (expect is None) != (not rk.violated):
            return machinery_failure(pid, "KeyEscape SaveBeforeEscape=%s: unexpected %s" % (sbe, rk.violated))
    sk.apply_cfg(cfg_m)
    w_s, g_s, blocks_s, txs_s = nodechk.build_universe(cfg_m, keys_m)
    cs_s = w_s.T["CoinState"].empty().add_block_no_validation(g_s).add_block_no_validation(blocks_s[1])
    from skepticoin.humans import human
    target_addr = "SKE" + human(keys_m.pub[6]) + "PTI"
    ktraces, kinfo = [], {}
    for script, argv in (("send", ["3", "sashimi", target_addr]), ("receive", ["for the shop"])):
        k_ = 0
        while k_ <= 8:
            evs, killed, code, raised, nkeys = scripts_drv.run(script, keys_m, cs_s, argv, k_)
            tid_ = len(ktraces) + 1
            ktraces.append({"id": tid_, "script": script, "nkeys": nkeys, "events": evs})
            kinfo[tid_] = {"script": script, "killed_after_visible_step": k_ if killed else None, "exit": code, "raised": raised, "events": evs}
            chk.case(("script", script, k_), nontrivial=True)
            if k_ == 0:
                nvis = len([e for e in evs if e["op"] in ("handout", "save", "escape")])
                if nvis < 3 or raised:
                    return machinery_failure(pid, "the %s script did not run through its visible steps (%s; %s)" % (script, evs, raised))
            elif not killed:
                break
            k_ += 1
    vk, rk2 = tracecheck.run("TraceKeyEscape", ktraces, {}, ids=[t["id"] for t in ktraces], workers=1, timeout=600)
    chk.traces_validated += len(ktraces)
    chk.states += rk2.distinct
    for t_id, (clause, line) in vk.items():
        if clause != "ok":
            chk.violation(clause, kinfo[t_id], {"clause": clause})
    for dft in tlc.tagged(rk2, "DRIFT"):
        chk.model_drift("wallet script run %s event %s: %s" % tuple(dft[:3]))
    chk.extra["wallet_script_runs_with_a_kill_after_each_visible_step"] = len(ktraces)
    sk.restore_cfg()

    # ---- (d) reported balance
    cfg = sk.Cfg(**MODEL_CFG)
    sk.apply_cfg(cfg)
    ltr, lrec = [], []
    for i in range(12 if quick else 120):
        w = sk.World(cfg, keys, tag=b"k%d" % i)
        rec = ledger_drv.Recorder(w, 5000 + i, full=False, snapshots=False)
        rec.start(w.make_genesis(miner=rng.choice([1, 2, 4])))
        rt = RandomTree(w, rec, rng, nkeys=4, p_mut=0.0)
        wal = fresh_wallet(keys, 3)
        for _ in range(rng.randint(0, 2)):
            wal.get_annotated_public_key("x")
        for _ in range(8):
            rt.step()
            ev = rec.events[-1]
            ev["post"]["walletbal"] = wal.get_balance(rec.cs)
            ev["post"]["walletkeys"] = [1, 2, 3]
        ltr.append(rec.trace())
        lrec.append(rec)
        chk.case(("balance", i), nontrivial=True)
    judge(chk, ltr, lrec, cfg, {pid})
    chk.extra["rule"] = ("cases: randomized sequences of 3-10 wallet operations on 1-4 keys with the real wallet.json; every boundary (open, each OS-level write, close, "
                         "rename) of a real save as a crash point (process killed, file reloaded); one real save under strace; balances after each of 8 random blocks")
    chk.assumptions += ["atomicity is with respect to process crashes (POSIX rename); no fsync is issued, power loss is out of scope as in the property",
                        "crash points are injected at Python level (open/write/close/replace wrappers, os._exit) and cross-checked by the strace system-call sequence"]
    return chk.finish()
