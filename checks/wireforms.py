"""Blocks that reach the node in another encoding than the canonical one: a reward transaction with 64 outputs whose output count is written in
the one-octet form of standard VLQ (the format's own encoder writes two octets for 64..127), with the block's commitment computed over the
bytes as sent.  A node whose decoder takes such bytes files the transaction under the hash of what it received; the store and every replay
use the hash of the node's own encoding.  P (C03): the unspent outputs the node reports at every block it holds equal a replay of the blocks'
own encodings; (C08): after a restart the node holds the same blocks with the same transaction ids and bytes as before.  The unchanged tree
refuses the bytes (non-canonical), which is the third acceptable outcome.  Facts judged by TLC (TraceFacts)."""
from harness import sk, tlc, tracecheck, indep, node_drv, netmsg, wiregen
from checks import node as nodechk
from checks.store import cb, blk


def stage(chk, quick, rng, pid):
    import skepticoin.networking.messages as M
    from skepticoin.datatypes import Block
    cfg = sk.Cfg(**nodechk.MODEL_CFG)
    sk.apply_cfg(cfg)
    facts = []
    try:
        keys = sk.Keys(3)
        w, g, blocks, txs = nodechk.build_universe(cfg, keys)
        run = node_drv.NodeRun(w, g, peers=["p", "q"], tid=1, clock0=5000)
        try:
            run.deliver_block("p", blocks[1])
            parent = blocks[1]
            h = 2
            sub = cfg.subsidy(h)
            cbt = w.coinbase(h, [(sub, 1)] + [(0, 2)] * 63, data=b"wide")
            canon_tx = indep.enc_tx(cbt)
            end, fields = wiregen.layout("Transaction", canon_tx)
            counts = [(off, wd) for (off, wd, kind, path) in fields if kind == "count" and canon_tx[off:off + wd] == b"\x80\x40"]
            if not counts:
                chk.notes.append("wire forms: the encoder does not write 64 as 80 40; stage skipped")
                return 0
            off, wd = counts[-1]
            short_tx = canon_tx[:off] + b"\x40" + canon_tx[off + wd:]
            target = w.expected_target(parent, parent.timestamp + 1)
            x = w.mine(indep.blockid(parent), h, parent.timestamp + 1, target, [cbt], txids=[indep.sha256d(short_tx)])
            canon_block = indep.enc_block(x)
            if not canon_block.endswith(canon_tx):
                chk.notes.append("wire forms: unexpected block layout; stage skipped")
                return 0
            short_block = canon_block[:-len(canon_tx)] + short_tx
            body = netmsg.body(M.DataMessage(M.DATA_BLOCK, x), 7700, 0, ts=run.clock())
            if not body.endswith(canon_block):
                chk.notes.append("wire forms: unexpected message layout; stage skipped")
                return 0
            run.node.use_store()
            run.node.deliver("p", netmsg.frame(body[:-len(canon_block)] + short_block))
            cs = run.node.chain()
            xid = indep.blockid(x)
            accepted = xid in cs.block_by_hash
            chk.extra["wire_forms"] = {"short_vlq_block_accepted": accepted, "connection_open_afterwards": run.node.is_open("p")}
            chk.case(("wireforms", "short_count_64"), nontrivial=True)

            def ledger_ok(cs_):
                ok = True
                for hh, b in cs_.block_by_hash.items():
                    chain, y = [], b
                    while True:
                        chain.append(y)
                        ph = y.header.summary.previous_block_hash
                        if ph not in cs_.block_by_hash:
                            break
                        y = cs_.block_by_hash[ph]
                    utxo = {}
                    for bb in reversed(chain):
                        for t in bb.transactions:
                            for i in t.inputs:
                                r = i.output_reference
                                utxo.pop((r.hash, r.index), None)
                            tid = indep.txid(t)
                            for n, o in enumerate(t.outputs):
                                utxo[(tid, n)] = o.value
                    real = {(r.hash, r.index): o.value for r, o in cs_.unspent_transaction_outs_by_hash[hh].items()}
                    if real != utxo:
                        ok = False
                return ok
            facts.append({"clause": "C03:ledger_at_block_differs_from_replay", "holds": ledger_ok(cs), "what": "after a block in the short VLQ form (accepted: %s)" % accepted})
            before = {hh: ([t.hash() for t in b.transactions], indep.enc_block(b)) for hh, b in cs.block_by_hash.items()}
            run.node.local.disk_interface.flush_blocks() if hasattr(run.node.local, "disk_interface") else None
            run.restart()
            cs2 = run.node.chain()
            after = {hh: ([t.hash() for t in b.transactions], indep.enc_block(b)) for hh, b in cs2.block_by_hash.items()}
            on_disk = {hh for hh in before if hh in after}
            same = all(before[hh] == after[hh] for hh in on_disk) and (not accepted or xid in after)
            facts.append({"clause": "C08:block_content_differs_on_read_back", "holds": same,
                          "what": "blocks held before and after a restart (short VLQ block accepted: %s, held after the restart: %s)" % (accepted, xid in after)})
            facts.append({"clause": "C03:ledger_at_block_differs_from_replay", "holds": ledger_ok(cs2), "what": "after the restart"})
        finally:
            run.close()
    finally:
        sk.restore_cfg()
    mine = [f for f in facts if f["clause"].startswith(pid + ":")]
    if not mine:
        return 0
    v, r = tracecheck.run("TraceFacts", mine, {}, ids=[1], workers=1, timeout=300)
    chk.traces_validated += 1
    seen = set()
    for (line, clause) in tlc.tagged(r, "FINDING"):
        if clause not in seen:
            seen.add(clause)
            chk.violation(clause, {"wire_forms": mine[line - 1]["what"]}, {"clause": clause})
    return 0
