"""C11: Framing.tla -- TLC enumerates every cutting of small streams (model-sized limit), the cuts are replayed
into the real MessageReceiver; real-width streams of real framed messages are cut exhaustively (2-way, 3-way)
and randomly, and every read is judged by TLC against the reference parse (TraceFraming)."""
import itertools
import random

from harness import tlc, sk, tracecheck, netmsg
from harness.common import Check, seed, machinery_failure

MAGIC = [77, 65, 74, 73]


class RecPeer:
    def __init__(self):
        self.ids = []

    def handle_message_received(self, header, message):
        self.ids.append(header.id)


def label_frames(b, max_size):
    """[body_start, id] for every complete frame of the byte string, in order, up to the first wrong magic / over-limit length:
    id = the decoded header's id if the protocol decoder (MessageHeader + Message, messages.py) accepts exactly the frame's bytes,
    -2 if it rejects them.  The frame boundaries themselves are decided by Framing!Ref in TLC; these are only the payload labels."""
    import io
    from skepticoin.networking.messages import MessageHeader, Message
    out, p = [], 0
    while len(b) - p >= 8 and b[p:p + 4] == netmsg.MAGIC:
        n = int.from_bytes(b[p + 4:p + 8], "big")
        if n > max_size or len(b) - p - 8 < n:
            break
        f = io.BytesIO(b[p + 8:p + 8 + n])
        try:
            h = MessageHeader.stream_deserialize(f)
            Message.stream_deserialize(f)
            out.append([p + 8, h.id])
        except Exception:
            out.append([p + 8, -2])
        p += 8 + n
    return out


def run_cuts(stream_bytes, cuts, raw=False):
    """Feed the real receiver; returns events (one per read)."""
    import skepticoin.networking.remote_peer as rp
    peer = RecPeer()
    rc = rp.MessageReceiver(peer)
    if raw:                 # model-sized bodies are not decodable: record the raw body instead (M-layer replay only)
        rc.handle_message_data = lambda data: peer.ids.append(len(data))
    pos = 0
    events = []
    for k in cuts:
        chunk = stream_bytes[pos:pos + k]
        pos += k
        refused = False
        try:
            rc.receive(chunk)
        except Exception:
            refused = True
        events.append({"k": k, "ids": list(peer.ids), "refused": refused, "buflen": len(rc.buffer),
                       "magic": bool(rc.magic_read), "len": -1 if rc.len is None else min(rc.len, 2 ** 31 - 1)})
        if refused:
            break
    return events


_NODE = {}


def run_socket(stream_bytes, arrivals):
    """Feed a real LocalPeer's read handler through a non-blocking in-memory socket; one event per arrival."""
    import selectors
    from harness import fakenet, sk
    if "n" not in _NODE:
        cfg = sk.Cfg()
        w = sk.World(cfg, sk.Keys(2))
        g = w.make_genesis()
        cs = w.T["CoinState"].empty().add_block_no_validation(g)
        _NODE["n"] = fakenet.Node(cs, g, real_store=False)
        _NODE["k"] = 0
    node = _NODE["n"]
    _NODE["k"] += 1
    name = "c%d" % _NODE["k"]
    peer = node.connect(name, host="10.0.9.%d" % (_NODE["k"] % 250 + 1), port=6000 + _NODE["k"], hello=False)
    rec = RecPeer()
    peer.handle_message_received = rec.handle_message_received        # record what the receiver hands over; no protocol handling
    sock = node.peers[name][1]
    rc = peer.receiver
    pos, events = 0, []
    for k in arrivals:
        sock.inbox += stream_bytes[pos:pos + k]
        pos += k
        guard = 0
        while sock.inbox and not sock.closed and guard < 100000:
            guard += 1
            key = selectors.SelectorKey(sock, sock.fd, selectors.EVENT_READ, peer)
            node.local.handle_remote_peer_selector_event(key, selectors.EVENT_READ)
        refused = sock.closed or not node.is_open(name)
        events.append({"k": k, "ids": list(rec.ids), "refused": bool(refused), "buflen": len(rc.buffer),
                       "magic": bool(rc.magic_read), "len": -1 if rc.len is None else min(rc.len, 2 ** 31 - 1)})
        if refused:
            break
    return events


def run_socket_protocol(stream_bytes, arrivals):
    """Like run_socket, with the connection's real message handling: -> (ids of the messages handled, dropped?, addresses the peer book learnt)."""
    import selectors
    from harness import fakenet, sk
    if "p" not in _NODE:
        cfg = sk.Cfg()
        w = sk.World(cfg, sk.Keys(2))
        g = w.make_genesis()
        _NODE["p"] = (w, g)
    w, g = _NODE["p"]
    node = fakenet.Node(w.T["CoinState"].empty().add_block_no_validation(g), g, real_store=False)
    try:
        peer = node.connect("x", host="10.0.8.1", port=6100, hello=False)
        sock = node.peers["x"][1]
        handled = []
        orig = peer.handle_message_received

        def rec(header, message):
            handled.append(header.id)
            return orig(header, message)
        peer.handle_message_received = rec
        pos = 0
        for k in arrivals:
            if sock.closed or not node.is_open("x"):
                break
            sock.inbox += stream_bytes[pos:pos + k]
            pos += k
            guard = 0
            while sock.inbox and not sock.closed and node.is_open("x") and guard < 100000:
                guard += 1
                key = selectors.SelectorKey(sock, sock.fd, selectors.EVENT_READ, peer)
                try:
                    node.local.handle_remote_peer_selector_event(key, selectors.EVENT_READ)
                except Exception as e:
                    node.escaped.append(("event_read", repr(e)))
        nm = node.local.network_manager
        book = sorted((k_[0], k_[1]) for k_ in list(nm.disconnected_peers.keys()) + list(nm.connected_peers.keys()) if k_[1] == 2412)
        return [list(handled), bool(sock.closed or not node.is_open("x")), book, len(node.escaped)]
    finally:
        node.close()


def run(pid, tier, replay=None):
    chk = Check(pid, tier)
    quick = tier != "thorough"
    rng = random.Random(seed() + 11)
    sk.setup()
    import skepticoin.networking.remote_peer as rp
    real_max = rp.MAX_MESSAGE_SIZE
    if real_max != 32 * 1024 * 1024:
        chk.notes.append("MAX_MESSAGE_SIZE in the tree is %d (the specification run uses the tree's value)" % real_max)

    # (a) design level + (b) spec -> code with the model-sized limit
    small = {"Magic": MAGIC, "MaxSize": 5, "MaxFrames": 2 if quick else 3, "MaxBody": 2, "EmitCuts": True}
    r = tracecheck.model("MC_Framing", "Spec", small, workers=1 if quick else 8, timeout=1500, view="View",
                         invariants=["I_C11_SameAsReference", "I_C11_RefusedAtThatPoint", "I_ExactlyOnceInOrder", "I_Emit"])
    tlc.require_clean(r, "MC_Framing")
    chk.add_tlc("MC_Framing (<= %d frames, body <= 2, limit 5, every cutting)" % small["MaxFrames"], r, constants=str(small))
    if r.violated:
        return machinery_failure(pid, "MC_Framing violates %s" % r.violated)
    cutsets = tlc.tagged(r, "CUTS")
    if len(cutsets) < 50:
        return machinery_failure(pid, "only %d behaviours emitted" % len(cutsets))
    streams, traces, ids = [], [], []
    sidx = {}
    rp.MAX_MESSAGE_SIZE = 5
    try:
        for n, (sb, cuts) in enumerate(cutsets if not quick else cutsets[:1500]):
            key = bytes(sb)
            if key not in sidx:
                streams.append({"bytes": sb, "ids": []})
                sidx[key] = len(streams)
            ev = run_cuts(key, cuts, raw=True)
            # raw mode logs body lengths, not ids: translate into the id convention (-1 = unknown id) for TLC
            for e in ev:
                e["ids"] = [-1] * len(e["ids"])
            traces.append({"id": n + 1, "s": sidx[key], "events": ev})
            ids.append(n + 1)
            chk.case(("model", key, tuple(cuts)), nontrivial=len(cuts) > 1)
    finally:
        rp.MAX_MESSAGE_SIZE = real_max
    verdicts, r1 = tracecheck.run("TraceFraming", {"streams": streams, "traces": traces}, {"Magic": MAGIC, "MaxSize": 5}, ids=ids, workers=4)
    collect(chk, verdicts, r1, traces, streams)
    chk.sample({"source": "MC_Framing behaviour", "stream": streams[0]["bytes"], "cuts": [e["k"] for e in traces[0]["events"]]})

    # (c) real widths, real messages
    msgs = netmsg.sample_messages()
    shapes = []
    def mk(parts):
        b, idmap, mid = b"", [], 100
        for p in parts:
            if p == "badmagic":
                b += b"MAJ\x00" + b"\x00\x00\x00\x01x"
            elif p == "badmagic0":
                b += b"\x00AJI" + b"\x00\x00\x00\x01x"
            elif p == "oversize":
                b += netmsg.MAGIC + (real_max + 1).to_bytes(4, "big") + b"xx"
            elif p == "maxlen":
                b += netmsg.MAGIC + b"\xff\xff\xff\xff" + b"xx"
            elif isinstance(p, tuple) and p[0] == "len_then_body":        # over-limit length directly followed by a decodable body
                mid += 1
                b += netmsg.MAGIC + p[1].to_bytes(4, "big") + netmsg.body(msgs[p[2]], mid) + b"z" * p[3]
            elif isinstance(p, tuple) and p[0] == "declared":             # a frame whose length field is off by p[2] (negative: under-declared)
                mid += 1
                body = netmsg.body(msgs[p[1]], mid)
                b += netmsg.MAGIC + max(len(body) + p[2], 0).to_bytes(4, "big") + body
            elif p == "zero":                                             # a frame of declared length 0 followed by a message body
                mid += 1
                b += netmsg.MAGIC + (0).to_bytes(4, "big") + netmsg.body(msgs[7], mid)
            elif p == "truncated":
                body = netmsg.body(msgs[4], mid)
                b += netmsg.MAGIC + len(body).to_bytes(4, "big") + body[:-5]
            else:
                mid += 1
                body = netmsg.body(msgs[p], mid)
                idmap.append([len(b) + 8, mid])
                b += netmsg.frame(body)
        return b, idmap
    shape_defs = [[7, 4], [0, 7, 4], [4, 3, 7], [7, "badmagic", 4], [4, "oversize", 7], [7, 7, 7], [3, "maxlen"], [4, "truncated"],
                  ["badmagic0"], [1, 2], [8, 7], [7, 4, "badmagic"],
                  [7, ("len_then_body", 0xffffffff, 7, 1), 7], [("len_then_body", 0xfffffffc, 7, 4), 4], [7, ("len_then_body", 0x80000000, 7, 0)],
                  [("len_then_body", real_max + 1, 7, 0), 7], [7, ("len_then_body", 0x7fffffff, 4, 3)],
                  # corrupted length fields: under-declared (the payload's tail and whatever follows sit behind the frame end), zero, over-declared
                  [7, ("declared", 4, -1), 7], [("declared", 7, -5), 4], [4, "zero", 7], [("declared", 3, 8), 7, 7], [7, ("declared", 1, -30), 4, 7],
                  [("declared", 0, -2), 7]]
    if not quick:
        shape_defs += [[5], [6, 4], [0, 1, 2, 3, 4, 7, 8]]
    streams, traces, ids = [], [], []
    tid = 0
    for sd_ in shape_defs:
        b, idmap0 = mk(sd_)
        idmap = label_frames(b, real_max)
        corrupted_len = any(p_ == "zero" or (isinstance(p_, tuple) and p_[0] == "declared") for p_ in sd_)
        if not corrupted_len and idmap != idmap0[:len(idmap)]:
            return machinery_failure(pid, "frame labels of shape %r disagree with the way the stream was built" % (sd_,))
        streams.append({"bytes": list(b), "ids": idmap})
        s = len(streams)
        L = len(b)
        cutsets = [[L], [1] * L]
        if L <= 260:
            cutsets += [[i, L - i] for i in range(1, L)]                       # every 2-way cut
        else:
            cutsets += [[i, L - i] for i in sorted(rng.sample(range(1, L), 200))]
        n3 = 300 if quick else 6000
        if L <= 130 and not quick:
            cutsets += [[i, j - i, L - j] for i in range(1, L) for j in range(i + 1, L)]    # every 3-way cut
        else:
            for _ in range(n3):
                i, j = sorted(rng.sample(range(1, L), 2))
                cutsets.append([i, j - i, L - j])
        for _ in range(30 if quick else 300):                                       # random many-way cuts
            pts = sorted(rng.sample(range(1, L), min(L - 1, rng.randint(3, 12))))
            cutsets.append([b_ - a_ for a_, b_ in zip([0] + pts, pts + [L])])
        for cuts in cutsets:
            tid += 1
            traces.append({"id": tid, "s": s, "events": run_cuts(b, cuts)})
            ids.append(tid)
            chk.case(("real", s, tuple(cuts)), nontrivial=len(cuts) > 1)
    chk.sample({"source": "real framed messages", "stream_shape": shape_defs[3], "cuts": [e["k"] for e in traces[5]["events"]]})
    B = 4000
    for k in range(0, len(traces), B):
        verdicts, r2 = tracecheck.run("TraceFraming", {"streams": streams, "traces": traces[k:k + B]},
                                      {"Magic": MAGIC, "MaxSize": real_max}, ids=ids[k:k + B], workers=4, timeout=3000)
        collect(chk, verdicts, r2, traces[k:k + B], streams)
    # (d) the same through the node's socket read path: LocalPeer.handle_remote_peer_selector_event on a non-blocking in-memory socket.
    # An "arrival" is what the transport has delivered when the selector reports the socket readable; the node is given read events
    # while bytes are pending.  Arrival sizes include exact multiples of the read size.
    from harness import fakenet
    long_parts = [0, 5, 6, 1, 2, 5, 4, 7, 8, 6, 5, 3, 7, 5, 6, 0, 4]
    sock_shapes = [long_parts, long_parts[3:] + ["badmagic", 4], [5, 6, 5, "oversize", 7], [6, 5, 5, ("len_then_body", 0xffffffff, 7, 1), 7], [7, 4], [5]]
    straces, sids, sstreams = [], [], []
    for sd_ in sock_shapes:
        b, _ = mk(sd_)
        # pad with whole GetPeers frames so that the total length is an exact multiple of 1024 for one variant of every shape
        sstreams.append({"bytes": list(b), "ids": label_frames(b, real_max)})
        s = len(sstreams)
        L = len(b)
        arrs = [[L], [1024] * (L // 1024) + ([L % 1024] if L % 1024 else []), [2048] * (L // 2048) + ([L % 2048] if L % 2048 else []),
                [1023, 1025] + ([L - 2048] if L > 2048 else []), [1, 1024, 1023] + ([L - 2048] if L > 2048 else []), [3072, L - 3072] if L > 3072 else [L]]
        for _ in range(6 if quick else 60):
            pts = sorted(rng.sample(range(1, L), min(L - 1, rng.randint(1, 6))))
            pts = sorted(set(pts + [x for x in (1024, 2048, 4096) if x < L and rng.random() < 0.5]))
            arrs.append([b_ - a_ for a_, b_ in zip([0] + pts, pts + [L])])
        for arr in arrs:
            arr = [a for a in arr if a > 0]
            if sum(arr) != L:
                continue
            tid += 1
            straces.append({"id": tid, "s": s, "events": run_socket(b, arr)})
            sids.append(tid)
            chk.case(("socket", s, tuple(arr)), nontrivial=True)
    chk.sample({"source": "socket read path", "stream_shape": sock_shapes[1], "arrivals": [e["k"] for e in straces[1]["events"]]})
    verdicts, r3 = tracecheck.run("TraceFraming", {"streams": sstreams, "traces": straces}, {"Magic": MAGIC, "MaxSize": real_max}, ids=sids, workers=4, timeout=3000)
    collect(chk, verdicts, r3, straces, sstreams)
    chk.extra["rule"] = ("(stream, cutting) pairs: every behaviour of MC_Framing replayed; real streams of 1-7 real framed messages (with wrong magic, "
                         "over-limit length, truncated tail) under all-at-once, byte-at-a-time, every 2-way cut, %s 3-way cuts and random many-way cuts; "
                         "non-trivial = more than one read" % ("sampled" if quick else "every (short streams) / sampled"))
    # ---- the same bytes, the same handling: streams delivered to the node's real connection object (the real message handlers, not a recorder)
    #      under many fragmentations -- a well-formed session, and sessions the node refuses at the protocol level (first message is not a
    #      greeting; a second greeting) with further frames behind the refusal point.  What was handled, whether the connection was dropped and
    #      what the peer book learnt must be the same for every fragmentation (the reference is byte-wise delivery).
    from skepticoin.networking import messages as M_
    h1, gp = netmsg.hello(nonce=4711, my_port=2412), M_.GetPeersMessage()
    sessions = {"greeting_then_requests": [h1, gp, gp], "no_greeting_first": [gp, h1, gp], "request_greeting_greeting": [gp, h1, h1, gp]}
    pfacts = []
    for sname, msgs_ in sessions.items():
        sb = b"".join(netmsg.frame(netmsg.body(m_, 300 + j_)) for j_, m_ in enumerate(msgs_))
        cuts = [[1] * len(sb), [len(sb)], [1024] * (len(sb) // 1024 + 1)]
        for c_ in range(1, len(sb), max(1, len(sb) // (25 if quick else 200))):
            cuts.append([c_, len(sb) - c_])
        for _ in range(20 if quick else 300):
            pts = sorted(rng.sample(range(1, len(sb)), rng.randint(2, 5)))
            cuts.append([b_ - a_ for a_, b_ in zip([0] + pts, pts + [len(sb)])])
        ref_out = None
        for ci, arr in enumerate(cuts):
            out_ = run_socket_protocol(sb, arr)
            if ci == 0:
                ref_out = out_
            pfacts.append({"clause": "C11:messages_handled_depend_on_how_the_bytes_were_split", "holds": out_ == ref_out,
                           "what": "session %s, reads of %s bytes: %s (byte-wise: %s)" % (sname, arr[:6], out_, ref_out)})
            chk.case(("session", sname, ci), nontrivial=len(arr) > 1)
    vf_, rf_ = tracecheck.run("TraceFacts", pfacts, {}, ids=[1], workers=1, timeout=600)
    chk.traces_validated += 1
    seen_ = 0
    for (line, clause) in tlc.tagged(rf_, "FINDING"):
        if seen_ < 5:
            chk.violation(clause, {"run": pfacts[line - 1]["what"]}, {"clause": clause})
        seen_ += 1
    return chk.finish()


def collect(chk, verdicts, r, traces, streams):
    chk.states += r.distinct
    chk.transitions += r.generated
    chk.traces_validated += len(traces)
    by = {t["id"]: t for t in traces}
    for tid, (clause, line) in verdicts.items():
        if clause == "ok":
            continue
        if clause.startswith("machinery"):
            raise tlc.MachineryError("trace %s: %s" % (tid, clause))
        t = by[tid]
        chk.violation(clause, {"stream_hex": bytes(streams[t["s"] - 1]["bytes"]).hex(), "cuts": [e["k"] for e in t["events"]],
                               "failing_read": line, "observed": t["events"][line - 1]})
    for dft in tlc.tagged(r, "DRIFT"):
        chk.model_drift("trace %s read %s: %s" % tuple(dft[:3]))
