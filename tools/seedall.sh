#!/bin/bash
# re-confirms every seeded change under /verif/seeded against the current checks (sequential: it patches /repo itself)
cd /verif
for d in seeded/*/; do
  n=$(basename $d); pid=$(python3 -c "import json;print(json.load(open('$d/meta.json'))['property'])")
  tools/seedtest.sh $n $pid /verif/seeded/$n 2>&1 | tail -1
done
