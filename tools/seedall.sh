#!/bin/bash
VROOT="$(cd "$(dirname "$0")/.." && pwd)"; REPO="${VERIF_REPO:-/repo}"; export VERIF_REPO="$REPO"
# re-confirms every seeded change under /verif/seeded against the current checks (sequential: it patches /repo itself)
cd $VROOT
for d in seeded/*/; do
  n=$(basename $d); [ -f $d/meta.json ] || continue; pid=$(python3 -c "import json;print(json.load(open('$d/meta.json'))['property'])")
  tools/seedtest.sh $n $pid $VROOT/seeded/$n 2>&1 | tail -1
done
for d in seeded/refactors/*/; do
  n=$(basename $d); tools/refactest.sh $n $VROOT/seeded/refactors/$n 2>&1 | tail -1
done
