#!/bin/bash
VROOT="$(cd "$(dirname "$0")/.." && pwd)"; REPO="${VERIF_REPO_BASE:-/repo}"
# usage: tools/refactest_wt.sh <name> [<srcdir>]   -- like refactest.sh but in a scratch worktree (never touches /repo): a behaviour-preserving
#   refactoring (patch.diff, equiv.py, pids.json in <srcdir>, default /tmp/refac/<name>) must NOT raise an alarm: the repository's tests pass, the
#   equivalence digest is the same without and with the patch, the quick checks of the listed properties exit 0 without a VIOLATION line.
name=$1; src=${2:-/tmp/refac/$name}
out=$VROOT/seeded/refactors/$name
mkdir -p $out
[ "$src" != "$out" ] && cp $src/patch.diff $src/pids.json $src/equiv.py $out/ 2>/dev/null
[ "$src" != "$out" ] && [ -f $src/meta.json ] && cp $src/meta.json $out/agent_meta.json
wt=/tmp/wt_refac_$name; git -C $REPO worktree remove --force $wt >/dev/null 2>&1
git -C $REPO worktree add -q -f --detach $wt HEAD || exit 2
d0=""; d1=""
if [ -f $out/equiv.py ]; then t=$(mktemp -d); d0=$(cd $t && PYTHONPATH=$wt timeout 900 /venv/bin/python $out/equiv.py 2>/dev/null | grep -oiE "[0-9a-f]{64}" | tail -1 | tr "[:upper:]" "[:lower:]"); rm -rf $t; fi
git -C $wt apply $out/patch.diff || { echo "$name: patch does not apply"; git -C $REPO worktree remove --force $wt; exit 2; }
if [ -f $out/equiv.py ]; then t=$(mktemp -d); d1=$(cd $t && PYTHONPATH=$wt timeout 900 /venv/bin/python $out/equiv.py 2>/dev/null | grep -oiE "[0-9a-f]{64}" | tail -1 | tr "[:upper:]" "[:lower:]"); rm -rf $t; fi
( cd $wt && env -u SKEPTICOIN_VERIF flock /tmp/skepticoin_pytest.lock timeout 900 /venv/bin/python -m pytest -q -p no:cacheprovider --timeout=900 > $out/tests.log 2>&1 ); tests=$?
res=""
for pid in $(python3 -c "import json;print(' '.join(json.load(open('$out/pids.json'))['properties']))"); do
  lk=""; [ "$pid" = "C10" ] && lk="flock /tmp/skepticoin_pytest.lock"
  ( cd $VROOT && VERIF_EVIDENCE_DIR=/tmp/ev_refac_$name VERIF_REPLAY_DIR=/tmp/ev_refac_$name VERIF_REPO=$wt $lk timeout 1700 bin/check $pid --tier quick > $out/check_$pid.log 2>&1 ); rc=$?
  v=$(grep -c "^VIOLATION" $out/check_$pid.log); d=$(grep -c "^MODEL-DRIFT" $out/check_$pid.log)
  res="$res $pid:rc=$rc,viol=$v,drift=$d"
done
git -C $REPO worktree remove --force $wt; rm -rf /tmp/ev_refac_$name
VROOT=$VROOT python3 - "$name" "$tests" "$res" "$d0" "$d1" <<'PY'
import json,sys,os
name,tests,res,d0,d1=sys.argv[1:]
out=os.environ.get('VROOT','/verif')+'/seeded/refactors/%s'%name
am={}
try: am=json.load(open(out+'/agent_meta.json'))
except Exception: pass
checks={}
for tok in res.split():
    pid,rest=tok.split(':'); kv=dict(x.split('=') for x in rest.split(','))
    checks[pid]={"exit":int(kv['rc']),"violation_lines":int(kv['viol']),"model_drift_lines":int(kv['drift'])}
meta={"refactoring":name,"summary":am.get("summary"),"repo_tests_pass":tests=="0","digest_unchanged":d0,"digest_refactored":d1,"digest_equal":bool(d0) and d0==d1,
      "checks":checks,"false_alarm":any(c["exit"]!=0 or c["violation_lines"] for c in checks.values())}
json.dump(meta,open(out+'/meta.json','w'),indent=1)
print(name,"tests",tests,"digest_equal",meta["digest_equal"],res,"FALSE-ALARM" if meta["false_alarm"] else "quiet")
PY
