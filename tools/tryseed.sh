#!/bin/bash
# usage: tools/tryseed.sh <seed-name> [<property-id>] [quick|thorough]   -- apply seeded/<name>/patch.diff in a scratch worktree, run the property's check there
VROOT="$(cd "$(dirname "$0")/.." && pwd)"; REPO="${VERIF_REPO_BASE:-/repo}"
n=$1; pid=${2:-$(python3 -c "import json;print(json.load(open('$VROOT/seeded/$n/meta.json'))['property'])")}; tier=${3:-quick}
wt=/tmp/wt_try_$n; git -C $REPO worktree remove --force $wt >/dev/null 2>&1
git -C $REPO worktree add -q -f --detach $wt HEAD || exit 2
git -C $wt apply $VROOT/seeded/$n/patch.diff || { echo "$n: patch does not apply"; git -C $REPO worktree remove --force $wt; exit 2; }
out=$(cd $VROOT && VERIF_EVIDENCE_DIR=/tmp/ev_try_$n VERIF_REPLAY_DIR=/tmp/ev_try_$n VERIF_REPO=$wt timeout 1500 bin/check $pid --tier $tier 2>&1); rc=$?
echo "$n $pid rc=$rc violations=$(echo "$out" | grep -c '^VIOLATION') drift=$(echo "$out" | grep -c '^MODEL-DRIFT') | $(echo "$out" | grep -m1 'clause:') | $(echo "$out" | tail -1 | cut -c1-200)"
[ -n "$VERBOSE" ] && echo "$out" | tail -30
git -C $REPO worktree remove --force $wt; rm -rf /tmp/ev_try_$n
