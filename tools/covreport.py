#!/venv/bin/python
"""usage: tools/covreport.py <covdir> [--missing]   -- aggregate tools/cov output against the executable lines of /repo/skepticoin."""
import glob
import json
import os
import sys

root = os.path.realpath((os.environ.get("VERIF_REPO") or "/repo")) + "/skepticoin/"
seen = {}
for f in glob.glob(os.path.join(sys.argv[1], "*.json")):
    for fn, ln in json.load(open(f)):
        seen.setdefault(fn, set()).add(ln)


def exec_lines(path):
    src = open(path).read()
    out = set()

    def walk(co):
        for _, _, ln in co.co_lines():
            if ln:
                out.add(ln)
        for c in co.co_consts:
            if hasattr(c, "co_lines"):
                walk(c)
    walk(compile(src, path, "exec"))
    return out


tot_e = tot_h = 0
rows = []
for dp, dn, fns in os.walk(root):
    for fn in fns:
        if not fn.endswith(".py"):
            continue
        p = os.path.join(dp, fn)
        rel = p[len(root):]
        e = exec_lines(p)
        h = seen.get(rel, set()) & e
        rows.append((rel, len(h), len(e), sorted(e - h)))
        tot_e += len(e)
        tot_h += len(h)
for rel, h, e, miss in sorted(rows):
    print("%-40s %4d/%4d  %3d%%" % (rel, h, e, 100 * h // max(e, 1)))
    if "--missing" in sys.argv and miss and h:
        # compress into ranges
        rs = []
        for m in miss:
            if rs and m <= rs[-1][1] + 1:
                rs[-1][1] = m
            else:
                rs.append([m, m])
        print("      missing:", " ".join("%d-%d" % (a, b) if a != b else str(a) for a, b in rs))
print("TOTAL %d/%d %d%%" % (tot_h, tot_e, 100 * tot_h // max(tot_e, 1)))
