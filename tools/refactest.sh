#!/bin/bash
VROOT="$(cd "$(dirname "$0")/.." && pwd)"; REPO="${VERIF_REPO:-/repo}"; export VERIF_REPO="$REPO"
# usage: tools/refactest.sh <name> [<srcdir>]   -- a behaviour-preserving refactoring (patch.diff in <srcdir>, default /tmp/refac/<name>)
#   must NOT raise an alarm: applies the patch to /repo, runs the quick checks of the properties listed in pids.json, expects exit 0
#   and no VIOLATION line (MODEL-DRIFT is allowed), restores /repo.  Results: /verif/seeded/refactors/<name>/
name=$1; src=${2:-/tmp/refac/$name}
out=$VROOT/seeded/refactors/$name
mkdir -p $out
cp $src/patch.diff $src/pids.json $out/ 2>/dev/null
[ -f $src/meta.json ] && cp $src/meta.json $out/agent_meta.json
git -C $REPO status --short | grep -q . && { echo "$REPO not clean"; exit 2; }
git -C $REPO apply $out/patch.diff || { echo "$name: patch does not apply"; exit 2; }
( cd $REPO && env -u SKEPTICOIN_VERIF timeout 900 /venv/bin/python -m pytest -q -p no:cacheprovider --timeout=900 > $out/tests.log 2>&1 ); tests=$?
res=""
for pid in $(python3 -c "import json;print(' '.join(json.load(open('$out/pids.json'))['properties']))"); do
  ( cd $VROOT && timeout 1500 bin/check $pid --tier quick > $out/check_$pid.log 2>&1 ); rc=$?
  v=$(grep -c "^VIOLATION" $out/check_$pid.log); d=$(grep -c "^MODEL-DRIFT" $out/check_$pid.log)
  res="$res $pid:rc=$rc,viol=$v,drift=$d"
done
git -C $REPO checkout -- . ; git -C $REPO clean -fdq skepticoin 2>/dev/null
VROOT=$VROOT python3 - "$name" "$tests" "$res" <<'PY'
import json,sys
name,tests,res=sys.argv[1:]
out=os.environ.get('VROOT','/verif')+'/seeded/refactors/%s'%name
am={}
try: am=json.load(open(out+'/agent_meta.json'))
except Exception: pass
checks={}
for tok in res.split():
    pid,rest=tok.split(':'); kv=dict(x.split('=') for x in rest.split(','))
    checks[pid]={"exit":int(kv['rc']),"violation_lines":int(kv['viol']),"model_drift_lines":int(kv['drift'])}
meta={"refactoring":name,"summary":am.get("summary"),"repo_tests_pass":tests=="0","agent_digest_equal":am.get("digest_unchanged")==am.get("digest_refactored") if am else None,
      "checks":checks,"false_alarm":any(c["exit"]!=0 or c["violation_lines"] for c in checks.values())}
json.dump(meta,open(out+'/meta.json','w'),indent=1)
print(name,"tests",tests,res,"FALSE-ALARM" if meta["false_alarm"] else "quiet")
PY
