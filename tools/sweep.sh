#!/bin/sh
# usage: tools/sweep.sh <seed> [tier]  -- runs every check once with VERIF_SEED=<seed>; prints one line per check
cd "$(dirname "$0")/.." || exit 2
tier=${2:-quick}
for p in C01 C02 C03 C04 C05 C06 C07 C08 C09 C10 C11 C12 C13 C14 C15 C16 C17 C18 C19 C20; do
  start=$(date +%s)
  VERIF_SEED=$1 timeout 3000 bin/check $p --tier $tier > /tmp/sweep_$1_$p.log 2>&1; rc=$?
  echo "seed=$1 $p rc=$rc $(( $(date +%s) - start ))s $(grep -c '^VIOLATION' /tmp/sweep_$1_$p.log) violations $(grep -c '^MODEL-DRIFT' /tmp/sweep_$1_$p.log) drift | $(tail -1 /tmp/sweep_$1_$p.log | cut -c1-160)"
done
