#!/bin/bash
VROOT="$(cd "$(dirname "$0")/.." && pwd)"; REPO="${VERIF_REPO:-/repo}"; export VERIF_REPO="$REPO"
# usage: tools/seedtest_wt.sh <seed-name> <property-id> [<srcdir>]     (variant of seedtest.sh that never touches /repo: the check runs with
#   VERIF_REPO=<scratch worktree with the patch>, evidence and replays go to a scratch directory; safe to run several at once)
#   Confirms a seeded change (patch.diff + demo.py in <srcdir>, default /tmp/seed/<seed-name>): in a scratch worktree the patch applies,
#   the repository's tests pass with it, the demo exits 0 without and 1 with the change; then applies it to /repo, runs the
#   property's quick check (expects exit 1 with a VIOLATION line), and undoes it straight afterwards.  Results go to
#   /verif/seeded/<seed-name>/ (patch.diff, demo.py, meta.json, check.log).
name=$1; pid=$2; src=${3:-/tmp/seed/$name}
out=$VROOT/seeded/$name
mkdir -p $out
cp $src/patch.diff $src/demo.py $out/ 2>/dev/null
[ -f $src/meta.json ] && cp $src/meta.json $out/agent_meta.json
wt=/tmp/wt_confirm_$name
git -C $REPO worktree remove --force $wt >/dev/null 2>&1
git -C $REPO worktree add -q -f --detach $wt HEAD || exit 2
tmpd=$(mktemp -d)
( cd $tmpd && PYTHONPATH=$wt timeout 600 /venv/bin/python $out/demo.py > $out/demo_unchanged.log 2>&1 ); demo0=$?
git -C $wt apply $out/patch.diff; applied=$?
( cd $wt && env -u SKEPTICOIN_VERIF flock /tmp/skepticoin_pytest.lock timeout 900 /venv/bin/python -m pytest -q -p no:cacheprovider --timeout=900 > $out/tests.log 2>&1 ); tests=$?
tmpd2=$(mktemp -d)
( cd $tmpd2 && PYTHONPATH=$wt timeout 600 /venv/bin/python $out/demo.py > $out/demo_changed.log 2>&1 ); demo1=$?; rm -rf $tmpd2
rm -rf $tmpd
# now the check, against the scratch worktree that carries the patch
lk=""; [ "$pid" = "C10" ] && lk="flock /tmp/skepticoin_pytest.lock"
( cd $VROOT && VERIF_EVIDENCE_DIR=/tmp/ev_seed_$name VERIF_REPLAY_DIR=/tmp/ev_seed_$name VERIF_REPO=$wt $lk timeout 1500 bin/check $pid --tier quick > $out/check.log 2>&1 ); chk=$?
git -C $REPO worktree remove --force $wt; rm -rf /tmp/ev_seed_$name
nviol=$(grep -c "^VIOLATION property=$pid" $out/check.log)
clause=$(grep -m1 "clause:" $out/check.log | sed 's/.*clause: //')
VROOT=$VROOT python3 - "$name" "$pid" "$applied" "$tests" "$demo0" "$demo1" "$chk" "$nviol" "$clause" <<'PY'
import json,sys,os
name,pid,applied,tests,demo0,demo1,chk,nviol,clause=sys.argv[1:]
out=os.environ.get('VROOT','/verif')+'/seeded/%s'%name
am={}
try: am=json.load(open(out+'/agent_meta.json'))
except Exception: pass
meta={"seed":name,"property":pid,"summary":am.get("summary"),"needs":am.get("needs"),
 "confirmed":{"patch_applies":applied=="0","repo_tests_pass_with_change":tests=="0","demo_exit_unchanged":int(demo0),"demo_exit_changed":int(demo1)},
 "what_was_run":["git worktree of /repo HEAD; demo.py without the change; git apply patch.diff; pytest (guard off); demo.py with the change",
                 "VERIF_REPO=<scratch worktree of /repo HEAD with patch.diff applied> bin/check %s --tier quick"%pid],
 "check":{"cmd":"bin/check %s --tier quick"%pid,"exit":int(chk),"violation_lines":int(nviol),"first_clause":clause,"detected":chk=="1" and int(nviol)>0}}
json.dump(meta,open(out+'/meta.json','w'),indent=1)
print(name,pid,"applies",applied,"tests",tests,"demo",demo0,demo1,"check exit",chk,"violations",nviol,clause)
PY
