#!/bin/bash
# usage: tools/seedmatrix.sh "<VERIF_SEED values>" [<seed-name> ...]
#   Robustness of detection against the checks' own randomness: every seeded change (default: all under seeded/) is applied in a
#   scratch worktree (never in /repo) and its property's quick check is run once per VERIF_SEED value.  One line per run:
#     <seed-name> <property> VERIF_SEED=<s> rc=<exit> violations=<n>
#   The C10 checks use the repository tests' fixed TCP ports, so they are run one at a time at the end; the others 3 at a time.
VROOT="$(cd "$(dirname "$0")/.." && pwd)"; REPO="${VERIF_REPO:-/repo}"
seeds="$1"; shift
names="$@"; [ -z "$names" ] && names=$(cd $VROOT/seeded && ls -d C* )
one() {
  n=$1; s=$2
  pid=$(python3 -c "import json;print(json.load(open('$VROOT/seeded/$n/meta.json'))['property'])")
  wt=/tmp/wt_matrix_$n
  if [ ! -d $wt ]; then git -C $REPO worktree add -f --detach $wt HEAD >/dev/null 2>&1; git -C $wt apply $VROOT/seeded/$n/patch.diff || { echo "$n $pid patch does not apply"; return; }; fi
  out=$(cd $VROOT && VERIF_EVIDENCE_DIR=/tmp/ev_matrix_$n VERIF_REPLAY_DIR=/tmp/ev_matrix_$n VERIF_SEED=$s VERIF_REPO=$wt timeout 1500 bin/check $pid --tier quick 2>&1); rc=$?
  echo "$n $pid VERIF_SEED=$s rc=$rc violations=$(echo "$out" | grep -c '^VIOLATION')"
}
export -f one; export VROOT REPO
par=""; ser=""
for n in $names; do case $n in C10*) ser="$ser $n";; *) par="$par $n";; esac; done
for s in $seeds; do for n in $par; do echo "$n $s"; done; done | xargs -P 3 -L 1 bash -c 'one $0 $1'
for s in $seeds; do for n in $ser; do one $n $s; done; done
for n in $names; do git -C $REPO worktree remove --force /tmp/wt_matrix_$n >/dev/null 2>&1; rm -rf /tmp/ev_matrix_$n; done
git -C $REPO worktree prune
