#!/bin/sh
# usage: tools/sweep_order.sh <seed> <tier> <ID> [<ID> ...]  -- like sweep.sh, for the listed checks in the given order
cd "$(dirname "$0")/.." || exit 2
seed=$1; tier=$2; shift 2
for p in "$@"; do
  start=$(date +%s)
  VERIF_SEED=$seed timeout 3000 bin/check $p --tier $tier > /tmp/sweep_${seed}_$p.log 2>&1; rc=$?
  echo "seed=$seed $p rc=$rc $(( $(date +%s) - start ))s $(grep -c '^VIOLATION' /tmp/sweep_${seed}_$p.log) violations $(grep -c '^MODEL-DRIFT' /tmp/sweep_${seed}_$p.log) drift | $(tail -1 /tmp/sweep_${seed}_$p.log | cut -c1-160)"
done
