"""Line coverage of /repo/skepticoin under the checks (python 3.12 sys.monitoring; near-zero overhead: each location
reports once and is then disabled).  Active only when VERIF_COV_DIR is set; every process (checks, their pytest / crash-run
children) writes <dir>/<pid>.json at exit.  Used by tools/covreport.py to show which implementation code the conformance
harnesses actually observe."""
import os
import sys

_d = os.environ.get("VERIF_COV_DIR")
if _d and hasattr(sys, "monitoring"):
    import atexit
    import json
    _root = os.path.realpath((os.environ.get("VERIF_REPO") or "/repo")) + "/skepticoin/"
    _seen = set()
    _mon = sys.monitoring
    _TOOL = 3
    try:
        _mon.use_tool_id(_TOOL, "verifcov")

        def _line(code, lineno):
            fn = code.co_filename
            if fn.startswith(_root):
                _seen.add((fn[len(_root):], lineno))
            return _mon.DISABLE
        _mon.register_callback(_TOOL, _mon.events.LINE, _line)
        _mon.set_events(_TOOL, _mon.events.LINE)

        def _dump():
            try:
                os.makedirs(_d, exist_ok=True)
                with open(os.path.join(_d, "%d.json" % os.getpid()), "w") as f:
                    json.dump(sorted(_seen), f)
            except Exception:
                pass
        atexit.register(_dump)
        # os._exit paths (crash-point children) skip atexit: dump on every 2000 new lines is not needed; the crash children
        # call the same code as the parent does
    except Exception:
        pass
