"""Driving a real NetworkManager (peer book) with in-memory sockets and a virtual clock; TracePeerBook events."""
import contextlib
import io
import json
import os
import selectors
import tempfile

from . import sk, fakenet, netmsg


def host_of(h):
    return "10.0.0.%d" % h


def h_of(host):
    try:
        return int(host.split(".")[-1])
    except Exception:
        return 0


class PeerRun:
    def __init__(self, world, genesis, initial, tid, clock0=1000, early_traffic=None):
        """early_traffic(run): what the network thread does right after the node came up (an incoming connection from a listed peer, its
        greeting, the dial-back ...).  It is played when the start-up path reads the peer list if the thread has been started by then,
        otherwise right after the constructor: the same events in the same order either way."""
        import skepticoin.networking.local_peer as lp
        import skepticoin.networking.disk_interface as di
        from skepticoin.networking.remote_peer import DisconnectedRemotePeer
        self.tid = tid
        self.dir = tempfile.mkdtemp(prefix="peers_", dir=sk.scratch())
        self.cwd = os.getcwd()
        os.chdir(self.dir)
        cs = world.T["CoinState"].empty().add_block_no_validation(genesis)
        self.clock = fakenet.Clock(clock0)
        self.socks = {}            # key tuple -> FakeSocket
        self.new_socks = []
        self.events = []
        self.mid = 10
        self.unreachable = set()      # abstract host numbers
        self.initial = [dict(h=h, p=p, d="OUTGOING") for (h, p) in initial]
        run = self
        played = []

        class SockShim:
            AF_INET, SOCK_STREAM = 2, 1

            @staticmethod
            def socket(*a):
                s = fakenet.FakeSocket()
                # connect() to an address in run.unreachable fails on the spot (ENETUNREACH), as on a host without a route to it
                s.connect_errno = lambda addr: 101 if h_of(addr[0]) in run.unreachable else 0
                run.new_socks.append(s)
                return s
        self._orig_socket = lp.socket
        lp.socket = SockShim
        self.lp = lp

        def on_load(node):
            if node.thread_started and early_traffic is not None and not played:
                played.append(1)
                run.node = node
                real_di0 = di.DiskInterface()
                node.disk.write_peers = real_di0.write_peers
                early_traffic(run)
            return {(host_of(h), p, "OUTGOING"): DisconnectedRemotePeer(host_of(h), p, "OUTGOING", None, ban_score=0) for (h, p) in initial}
        self.node = fakenet.Node(cs, genesis, clock=self.clock, real_store=False, port=2412, on_load_peers=on_load)
        real_di = di.DiskInterface()
        self.node.disk.write_peers = real_di.write_peers          # the real file writer, peers.json in this run's directory
        if early_traffic is not None and not played:
            played.append(1)
            early_traffic(self)

    def key_of(self, peer):
        return dict(h=h_of(peer.host), p=peer.port if isinstance(peer.port, int) else 0, d=peer.direction)

    def post(self, raised=False):
        nm = self.node.local.network_manager
        conn = [{"key": dict(h=h_of(k[0]), p=k[1], d=k[2]), "hello": bool(p.hello_received), "ban": p.ban_score}
                for k, p in nm.connected_peers.items()]
        disc = [{"key": dict(h=h_of(k[0]), p=k[1], d=k[2]), "ban": p.ban_score,
                 "last": -1 if p.last_connection_attempt is None else p.last_connection_attempt}
                for k, p in nm.disconnected_peers.items()]
        try:
            f = json.load(open("peers.json"))
            file = [dict(h=h_of(r[0]), p=r[1], d=r[2]) for r in f]
        except Exception:
            file = []
        esc = len(self.node.escaped) > 0
        return {"connected": conn, "disconnected": disc, "my": sorted([h_of(a), b] for (a, b) in nm.my_addresses),
                "file": file, "raised": raised or esc, "running": bool(self.node.local.running)}

    def _find(self, key):
        nm = self.node.local.network_manager
        return nm.connected_peers.get((host_of(key["h"]), key["p"], key["d"]))

    def tick(self, dt):
        self.clock.t += dt
        self.events.append({"op": "tick", "dt": dt})

    def step(self):
        self.new_socks = []
        raised = False
        before = set(self.node.local.network_manager.connected_peers.values())
        try:
            self.node.local.network_manager.step(self.clock())
        except Exception:
            raised = True
        self.node.pump_writes()
        attempts = []
        for p in self.node.local.network_manager.connected_peers.values():
            if p not in before and p.direction == "OUTGOING" and p.sock in self.new_socks:
                attempts.append(self.key_of(p))
        # an attempt is a connect() on a new socket, whatever the node then records about it (attempts whose connection was replaced, dropped
        # or never registered within the same step still count)
        for s_ in self.new_socks:
            a_ = getattr(s_, "connect_addr", None)
            if a_ is not None:
                k_ = dict(h=h_of(a_[0]), p=a_[1], d="OUTGOING")
                if k_ not in attempts:
                    attempts.append(k_)
        self.events.append({"op": "step", "attempts": attempts, "n_sockets": len(self.new_socks), "post": self.post(raised)})
        # the selector reports the sockets whose connect() failed: the node reads, gets the error, and drops the connection
        for p in list(self.node.local.network_manager.connected_peers.values()):
            if p.sock in self.new_socks and getattr(p.sock, "connect_failed", False):
                self.close(self.key_of(p), failed_connect=True)
        return attempts

    def incoming(self, h, p):
        rp = self.node.rp
        sock = fakenet.FakeSocket()
        peer = rp.ConnectedRemotePeer(self.node.local, host_of(h), p, "INCOMING", None, sock, ban_score=0)
        raised = False
        try:
            self.node.local.selector.register(sock, selectors.EVENT_READ, data=peer)
            self.node.local.network_manager.handle_peer_connected(peer)
        except Exception:
            raised = True
        self.events.append({"op": "incoming", "h": h, "p": p, "post": self.post(raised)})

    def _deliver(self, peer, data):
        sock = peer.sock
        sock.inbox += data
        key = selectors.SelectorKey(sock, sock.fd, selectors.EVENT_READ, peer)
        try:
            self.node.local.handle_remote_peer_selector_event(key, selectors.EVENT_READ)
            return False
        except Exception as e:
            self.node.escaped.append(("event_read", repr(e)))
            return True

    def close(self, key, failed_connect=False):
        peer = self._find(key)
        was_open = peer is not None
        if peer is not None:
            peer.sock.inbox = b""
            if not failed_connect:
                peer.sock.peer_closed = True
            self._deliver(peer, b"")          # recv() returns b"": closed remotely (or raises: the connect() had failed)
        self.events.append({"op": "close", "key": key, "was_open": was_open, "failed_connect": failed_connect, "post": self.post()})

    def hello(self, key, port, is_self):
        peer = self._find(key)
        was_open = peer is not None
        if peer is not None:
            self.mid += 1
            nonce = self.node.local.nonce if is_self else (self.node.local.nonce + 1) % (1 << 32)
            self._deliver(peer, netmsg.frame(netmsg.body(netmsg.hello(nonce=nonce, my_port=port), self.mid)))
            self.node.pump_writes()
        self.events.append({"op": "hello", "key": key, "port": port, "self": bool(is_self), "was_open": was_open, "post": self.post()})

    def peers(self, key, addrs):
        from skepticoin.networking.messages import PeersMessage, Peer
        from ipaddress import IPv6Address
        peer = self._find(key)
        if peer is not None:
            self.mid += 1
            msg = PeersMessage([Peer(0, IPv6Address("::ffff:%s" % host_of(h)), p) for (h, p) in addrs])
            self._deliver(peer, netmsg.frame(netmsg.body(msg, self.mid)))
        self.events.append({"op": "peers", "key": key, "addrs": [list(a) for a in addrs], "post": self.post()})

    def trace(self):
        return {"id": self.tid, "initial": self.initial, "events": self.events}

    def finish(self):
        self.lp.socket = self._orig_socket
        os.chdir(self.cwd)
        self.node.close()
