"""Driving one real node (fakenet.Node) and recording TraceNode events."""
import contextlib
import io
from decimal import Decimal

from . import sk, fakenet, indep, netmsg


def new_miner_watcher(mining):
    """A MinerWatcher built by its own constructor (so that every attribute the tree initialises there exists), with an empty command
    line; falls back to bare allocation if the constructor does more than parse arguments."""
    import sys
    argv = sys.argv
    sys.argv = ["skepticoin-mine", "--quiet"]
    try:
        try:
            return mining.MinerWatcher()
        except BaseException:
            return mining.MinerWatcher.__new__(mining.MinerWatcher)
    finally:
        sys.argv = argv


class NodeRun:
    def __init__(self, world, genesis, peers=("p", "q", "r"), clock0=1000, tid=1):
        self.w = world
        self.genesis = genesis
        self.tid = tid
        cs = world.T["CoinState"].empty().add_block_no_validation(genesis)
        self.clock = fakenet.Clock(clock0)
        self.node = fakenet.Node(cs, genesis, clock=self.clock)
        self.peers = list(peers)
        for i, name in enumerate(self.peers):
            self.node.connect(name, host="10.0.0.%d" % (i + 2), port=5000 + i, direction="INCOMING" if i % 2 == 0 else "OUTGOING",
                              their_port=3000 + i, nonce=100 + i)
        for name in self.peers:
            self.node.take_sent(name)
        self.events = []
        self.labels = []
        self.mid = 100
        self.mw = None

    # ---- projection
    def post(self):
        n, w = self.node, self.w
        cs = n.chain()
        out = {}
        for name in self.peers:
            msgs = []
            if name in n.peers:
                for (h, m) in n.take_sent(name):
                    if type(m).__name__ == "DataMessage":
                        if type(m.data).__name__ == "Block":
                            msgs.append(["block", w.balias(m.data.hash())])
                        elif type(m.data).__name__ == "Transaction":
                            msgs.append(["tx", w.talias(indep.txid(m.data))])
            out[name] = msgs
        rows = []
        try:
            for b in n.store_rows():
                rows.append([w.balias(b.hash()), [w.talias(indep.txid(t)) for t in b.transactions]])
        except Exception as e:
            rows = [[-2, []]]
        return {"served": sorted(w.balias(h) for h in cs.block_by_hash.keys()),
                "head": w.balias(cs.current_chain_hash),
                "tips": sorted(w.balias(h) for h in cs.heads.keys()),
                "pool": [w.talias(indep.txid(t)) for t in n.pool()],
                "rows": rows,
                "buffer": [w.balias(h) for h in n.buffer_ids()],
                "out": out,
                "open": [name for name in self.peers if n.is_open(name)],
                "escaped": len(n.escaped) > 0,
                "running": bool(n.local.running)}

    # ---- events
    def deliver_block(self, peer, block, irt=0, label=None, chunk=None):
        from skepticoin.networking.messages import DataMessage, DATA_BLOCK
        self.node.use_store()
        blk = self.w.observe(block)
        self.mid += 1
        if self.node.is_open(peer):
            self.node.deliver(peer, netmsg.frame(netmsg.body(DataMessage(DATA_BLOCK, block), self.mid, irt, ts=self.clock())), chunk=chunk)
            self.w.register(block)
            self.events.append({"op": "block", "peer": peer, "irt": irt, "now": self.clock(), "blk": blk, "post": self.post()})
            self.labels.append(label)
            return True
        return False

    def advertise(self, peer, block):
        """The peer lists the block's hash in an (unsolicited) inventory; the node answers with its request for it.  No event of its own:
        the block that follows is unsolicited all the same (in_response_to = 0)."""
        from skepticoin.networking.messages import InventoryMessage, InventoryItem, DATA_BLOCK
        self.mid += 1
        try:
            self.node.deliver(peer, netmsg.frame(netmsg.body(InventoryMessage([InventoryItem(DATA_BLOCK, block.hash())]), self.mid, 0, ts=self.clock())))
        except Exception as e:
            self.node.escaped.append(("advertise", repr(e)))
        self.node.pump_writes()
        self.node.take_sent(peer)

    def deliver_tx(self, peer, tx, label=None):
        from skepticoin.networking.messages import DataMessage, DATA_TRANSACTION
        self.node.use_store()
        self.mid += 1
        if self.node.is_open(peer):
            t = self.w.observe_tx(tx)
            self.node.deliver(peer, netmsg.frame(netmsg.body(DataMessage(DATA_TRANSACTION, tx), self.mid, 0, ts=self.clock())))
            self.events.append({"op": "tx", "peer": peer, "tx": t, "post": self.post()})
            self.labels.append(label)
            return True
        return False

    # ---- miner
    def miner(self, key=1):
        """A real MinerWatcher without its argparse constructor / processes (harness recipe)."""
        import skepticoin.mining as mining
        from skepticoin.wallet import Wallet
        mining.time = self.clock
        keys = self.w.keys
        mw = new_miner_watcher(mining)
        wal = Wallet.empty()
        for k in sorted(keys.pub):
            wal.keypairs[keys.pub[k]] = keys.sk[k].to_string()
        wal.unused_public_keys = [keys.pub[k] for k in sorted(keys.pub, reverse=True)]     # pop() hands out key 1 first
        mw.wallet = wal

        class NT:
            pass
        nt = NT()
        nt.local_peer = self.node.local
        mw.network_thread = nt

        class Q:
            def __init__(self):
                self.items = []

            def put(self, x):
                self.items.append(x)
        mw.send_queues = [Q()]
        mw.mining_args = {}
        mw.hash_stats = {}
        mw.log_silencer = []
        mw.balance = Decimal(0)
        mw.start_balance = Decimal(0)
        from datetime import datetime
        mw.start_time = datetime.fromtimestamp(0)

        class A:
            quiet = True
        mw.args = A()
        mw.coinstate = self.node.chain()
        mw.public_key = wal.get_annotated_public_key("reserved for potentially mined block")
        self.mw = mw
        return mw

    def mine_request(self, nonce):
        mw = self.mw
        self.node.use_store()
        try:
            mw.handle_request_scrypt_input_message(0, nonce)
        except Exception as e:
            # the miner could not assemble a candidate from (head, pending transactions): recorded, judged by TraceNode
            self.last_error = repr(e)
            self.events.append({"op": "mine_failed", "now": self.clock(), "error": repr(e)[:200], "post": self.post()})
            self.labels.append({"request_raised": repr(e)[:120]})
            return None
        summary, height, txs = mw.mining_args[0]
        self._req = dict(now=self.clock(), pool=[self.w.talias(indep.txid(t)) for t in txs[1:]],
                         key=self.w.keys.by_pub.get(mw.public_key, 0))
        return summary, height, txs

    def mine_output(self, label=None):
        """Compute the scrypt output for the outstanding request and hand it to the watcher; records a `mine` event
        if the candidate's id is below target (a found block)."""
        import skepticoin.consensus as c
        from skepticoin.datatypes import Block, BlockHeader
        mw = self.mw
        self.node.use_store()
        summary, height, txs = mw.mining_args[0]
        sh = c.construct_summary_hash(summary, height)
        ev = c.construct_pow_evidence_after_scrypt(sh, mw.coinstate, summary, height, txs)
        cand = Block(BlockHeader(summary, ev), txs)
        found = indep.blockid(cand) < summary.target
        raised = False
        with contextlib.redirect_stdout(io.StringIO()):
            try:
                mw.handle_scrypt_output_message(0, sh)
            except Exception as e:
                raised = True
                self.last_error = repr(e)
        self.node.pump_writes()
        if not found:
            return False
        blk = self.w.observe(cand)
        self.w.register(cand)
        self.events.append({"op": "mine", "now": self.clock(), "request_now": self._req["now"], "blk": blk,
                            "miner_key": self._req["key"], "pool_at_request": self._req["pool"], "raised": raised,
                            "post": self.post()})
        self.labels.append(label)
        self.found = cand
        return True

    def restart(self):
        """Process death and a new start of the node on the same store; the peers connect again."""
        self.node = fakenet.Node.restarted(self.node, self.genesis, self.clock)
        for i, name in enumerate(self.peers):
            self.node.connect(name, host="10.0.0.%d" % (i + 2), port=5000 + i, direction="INCOMING" if i % 2 == 0 else "OUTGOING",
                              their_port=3000 + i, nonce=100 + i)
        for name in self.peers:
            self.node.take_sent(name)
        self.mw = None
        self.events.append({"op": "restart", "now": self.clock(), "read_order": [self.w.balias(h) for h in getattr(self.node, "read_order", [])],
                            "post": self.post()})
        self.labels.append("restart")

    def trace(self):
        return {"id": self.tid, "genesis": self.w.observe(self.genesis), "peers": self.peers, "events": self.events}

    def close(self):
        self.node.close()
