"""Driving CoinState along Ledger behaviours and validating the recorded traces with TraceLedger."""
import json
import os
import tempfile

from . import sk, tlc, indep
from .common import write_cfg, tla_lit


def constants_for(cfg, focus, w=32):
    return {"Period": cfg.period, "Timespan": cfg.timespan, "W": w, "MaxFuture": cfg.max_future,
            "InitialSubsidy": cfg.initial_subsidy, "HalvingInterval": cfg.halving, "MaxMoney": min(cfg.max_money, 2 ** 31 - 1), "RulesOff": set(),
            "Horizon": ("<-", "HorizonT"), "Known": ("<-", "KnownT"), "Focus": set(focus)}


class Recorder:
    """One trace = one CoinState history."""

    def __init__(self, world, tid, bal=False, full=True, snapshots=True, evidence=None):
        self.evidence = evidence          # property id: also record TracePowEvidence events for validated adds
        self.evidence_events = []
        self.w = world
        self.tid = tid
        self.bal = bal
        self.full = full
        self.events = []
        self.snapshots = snapshots
        self.states = []          # (CoinState after event k)
        self.validated_ids = set()
        self.cs = None
        self.genesis = None
        self.abstract = []

    def start(self, genesis_block):
        CoinState = self.w.T["CoinState"]
        self.genesis = genesis_block
        self.cs = CoinState.empty().add_block_no_validation(genesis_block)
        self.validated_ids.add(genesis_block.hash())
        self.w.balias(genesis_block.hash())
        return self.cs

    def add(self, block, now, validated=True, assembled=False, label=None):
        """Call the real add_block / add_block_no_validation on the current state and record the step."""
        w = self.w
        before = self.cs
        blk = w.observe(block)
        res, rule, after = "ok", "", before
        try:
            if validated:
                after = before.add_block(block, now)
            else:
                after = before.add_block_no_validation(block)
        except Exception as e:           # any raise = rejected; the receiver must be unchanged
            res, rule, after = "rej", sk.rule_of_exception(e), before
        if self.evidence and validated:
            from . import evidence_drv
            ee = evidence_drv.event(w, block, res == "ok", blk["evok"], self.evidence)
            if ee is not None:
                self.evidence_events.append(ee)
        if res == "ok":
            w.register(block)
            if validated:
                self.validated_ids.add(block.hash())
        parent = block.header.summary.previous_block_hash
        allv = validated and parent in self.validated_ids
        if res == "ok" and validated and not allv:
            self.validated_ids.discard(block.hash())
        self.cs = after
        # the receiver object itself is re-projected too: `before` must still look as it did
        post = w.project(after, full=self.full, only={block.hash(), parent}, bal=self.bal)
        resnap = {"of": 0, "post": {}}
        if self.snapshots and self.states:
            k = len(self.states)         # re-project the state that was current after the previous event
            resnap = {"of": k, "post": w.project(self.states[-1], full=self.full, only=self._only[-1], bal=self.bal)}
        self.states.append(after)
        if not hasattr(self, "_only"):
            self._only = []
        self._only.append({block.hash(), parent})
        self.events.append({"ev": "add", "blk": blk, "now": now, "validated": validated, "res": res, "rule": rule,
                            "assembled": assembled, "allvalidated": allv, "resnap": resnap, "post": post})
        self.abstract.append(label)
        return res

    def trace(self):
        return {"id": self.tid, "genesis": self.w.observe(self.genesis), "events": self.events}


def validate_evidence(chk, events, workers=1):
    """Run TracePowEvidence over evidence events; FINDING lines become violations of the property named in the event."""
    from . import tracecheck
    if not events:
        return
    B = 150
    for k in range(0, len(events), B):
        batch = events[k:k + B]
        verdicts, r = tracecheck.run("TracePowEvidence", batch, {"SampleCount": 8, "SampleSize": 4}, ids=[1], workers=workers, timeout=3000)
        chk.states += r.distinct
        chk.transitions += r.generated
        chk.traces_validated += len(batch)
        for (line, clause) in tlc.tagged(r, "FINDING"):
            e = batch[line - 1]
            chk.violation(clause, {"height": e["height"], "stated": {a: bytes(b).hex() for a, b in e["stated"].items()},
                                   "summary_hex": bytes(e["summary"]).hex()}, {"clause": clause})
        for (line, what) in tlc.tagged(r, "DRIFT"):
            chk.model_drift("evidence event %s: %s" % (k + line, what))


def replay_hist(world, hist, tid, **kw):
    """Replay one MC_Ledger history (list of action records) into the real CoinState."""
    rec = Recorder(world, tid, **kw)
    g = world.make_genesis()
    rec.start(g)
    for step in hist:
        d = step["blk"]
        try:
            blk = world.concretise(d)
        except sk.Unrealisable:
            continue
        rec.add(blk, step["now"], validated=(step["act"] == "add"),
                label={"act": step["act"], "mut": d.get("mut", ""), "txmuts": [t.get("mut", "") for t in d["txs"]],
                       "parent": d["parent"], "model_res": step["res"], "model_rule": step["rule"]})
    return rec


def validate(traces, cfg, focus, known=None, w=32, workers=1, timeout=1800):
    """Run TLC on TraceLedger over a batch of traces.  Returns (verdicts: tid -> (clause, line), drifts, TlcResult)."""
    d = tempfile.mkdtemp(prefix="trl_", dir=sk.scratch())
    tf = os.path.join(d, "traces.json")
    with open(tf, "w") as f:
        json.dump(traces, f)
    # per-run wrapper module with the literal checkpoint table
    known = known or {}
    kn = " @@ ".join("(%d :> %d)" % (h, i) for h, i in sorted(known.items())) or "[h \\in {} |-> 0]"
    wrapper = os.path.join(d, "TraceLedgerRun.tla")
    modname = os.path.basename(wrapper)[:-4]
    with open(wrapper, "w") as f:
        f.write("---- MODULE %s ----\nEXTENDS TraceLedger\nHorizonT == %s\nKnownRun == %s\n====\n" % (
            modname, ("0 - %d" % -cfg.horizon) if cfg.horizon < 0 else str(cfg.horizon), kn))
    cfgp = os.path.join(d, modname + ".cfg")
    consts = constants_for(cfg, focus, w)
    consts["Known"] = ("<-", "KnownRun")
    write_cfg(cfgp, spec="TSpec", constants=consts)
    try:
        r = tlc.run(modname, modname + ".cfg", workers=workers, env={"TRACE_FILE": tf}, timeout=timeout, spec_dir=d)
    finally:
        pass
    if r.error_lines or r.rc != 0:
        raise tlc.MachineryError("TraceLedger run failed: %s\n%s" % (r.error_lines[:3], r.out[-4000:]))
    verdicts = {}
    for v in tlc.tagged_values(r, "VERDICT"):
        verdicts[v[0]] = (v[1], v[2])
    drifts = tlc.tagged_values(r, "DRIFT")
    missing = [t["id"] for t in traces if t["id"] not in verdicts]
    if missing:
        raise tlc.MachineryError("traces without verdict: %s\n%s" % (missing[:5], r.out[-3000:]))
    return verdicts, drifts, r
