"""Events for TracePowEvidence: the inputs of the evidence data flow of one block (summary bytes, ancestors' bytes,
transaction-list bytes) and tables of the hash applications performed while following the documented data flow."""
from . import indep


def event(world, block, accepted, evok, prop):
    s = block.header.summary
    e = block.header.pow_evidence
    h = s.height
    if h < 0 or h >= (1 << 22):
        return None
    summary = indep.enc_summary(s)
    height8 = h.to_bytes(8, "big")
    scr = world.cfg.scrypt()
    # ancestors by true height along the parent chain
    anc = []
    cur = s.previous_block_hash
    guard = 0
    while cur in world.info and guard < 10000:
        guard += 1
        inf = world.info[cur]
        anc.append([inf["height"], list(inf["bytes"])])
        if inf["parent"] == b"\x00" * 32:
            break
        cur = inf["parent"]
    if h > 0 and not anc:
        return None
    sha_tab, sh = [], scr(summary, height8)
    by_h = {a[0]: bytes(a[1]) for a in anc}
    sample = b""
    if h == 0:
        sample = b"\x00" * 32
    else:
        c = sh
        for i in range(indep.CHAIN_SAMPLE_COUNT):
            hs = int.from_bytes(c[:8], "big") % h
            if hs not in by_h:
                break
            blk = by_h[hs]
            start = int.from_bytes(c[8:12], "big") % len(blk)
            piece = b""
            while len(piece) < indep.CHAIN_SAMPLE_SIZE:
                piece += blk[start:start + indep.CHAIN_SAMPLE_SIZE - len(piece)]
                start = 0
            sample += piece
            if i != indep.CHAIN_SAMPLE_COUNT - 1:
                nxt = indep.sha256d(c + piece)
                sha_tab.append([list(c + piece), list(nxt)])
                c = nxt
    txl = indep.enc_txlist(block.transactions)
    blake_in = sh + sample + txl
    # keep the selected ancestors only (the specification re-derives which ones it needs; a missing one is reported)
    return {"prop": prop, "height": h, "height8": list(height8), "summary": list(summary), "txlist": list(txl),
            "ancestors": anc, "scrypt": [[list(summary + height8), list(sh)]], "sha": sha_tab,
            "blake": [[list(blake_in), list(indep.blake2(blake_in))]],
            "stated": {"summary_hash": list(e.summary_hash), "chain_sample": list(e.chain_sample), "block_hash": list(e.block_hash)},
            "accepted": bool(accepted), "evok": bool(evok)}
