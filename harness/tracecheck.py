"""Generic trace validation: write a batch of traces as JSON, run TLC on a Trace* module (specification TSpec),
collect the total verdicts printed as PrintT(<<"VERDICT", id, clause, line>>)."""
import json
import os
import tempfile

from . import sk, tlc
from .common import write_cfg, split_consts


def run(module, traces, constants, ids=None, workers=1, timeout=1800, extra_defs="", dfs=False, xmx="6g"):
    """traces: any JSON value the module's JsonDeserialize(IOEnv.TRACE_FILE) expects.
    ids: the trace ids for which a VERDICT line must appear.  Returns (verdicts, other_tagged, TlcResult)."""
    d = tempfile.mkdtemp(prefix="trc_", dir=sk.scratch())
    tf = os.path.join(d, "traces.json")
    with open(tf, "w") as f:
        json.dump(traces, f)
    modname = module + "Run"
    cfgc, defs = split_consts(constants)
    with open(os.path.join(d, modname + ".tla"), "w") as f:
        f.write("---- MODULE %s ----\nEXTENDS %s\n%s\n%s\n====\n" % (modname, module, defs, extra_defs))
    write_cfg(os.path.join(d, modname + ".cfg"), spec="TSpec", constants=cfgc)
    r = tlc.run(modname, modname + ".cfg", workers=workers, env={"TRACE_FILE": tf}, timeout=timeout, spec_dir=d,
                dfs=dfs, xmx=xmx)
    if getattr(r, "timed_out", False):
        raise tlc.MachineryError("%s: trace validation timed out" % module)
    if r.error_lines or r.rc != 0:
        raise tlc.MachineryError("%s run failed: %s\n%s" % (module, r.error_lines[:3], r.out[-4000:]))
    verdicts = {}
    for v in tlc.tagged_values(r, "VERDICT"):
        verdicts.setdefault(v[0], (v[1], v[2]))
    if ids is not None:
        missing = [i for i in ids if i not in verdicts]
        if missing:
            raise tlc.MachineryError("%s: traces without verdict: %s\n%s" % (module, missing[:5], r.out[-3000:]))
    return verdicts, r


def digits(n):
    """Natural number as big-endian base-256 digits (BigNat)."""
    if n == 0:
        return [0]
    return list(n.to_bytes((n.bit_length() + 7) // 8, "big"))


def model(module, spec, constants, invariants=(), properties=(), workers=16, timeout=1800, view=None, constraint=None,
          coverage=False, extra_defs="", simulate=None, depth=None, seed=None, next_=None, init=None):
    """Run TLC on a (non-trace) module with constants given as Python values (sequences allowed)."""
    d = tempfile.mkdtemp(prefix="mc_", dir=sk.scratch())
    modname = module + "MC"
    cfgc, defs = split_consts(constants)
    with open(os.path.join(d, modname + ".tla"), "w") as f:
        f.write("---- MODULE %s ----\nEXTENDS %s\n%s\n%s\n====\n" % (modname, module, defs, extra_defs))
    write_cfg(os.path.join(d, modname + ".cfg"), spec=spec, constants=cfgc, invariants=invariants, properties=properties,
              view=view, constraint=constraint, init=init, next_=next_)
    return tlc.run(modname, modname + ".cfg", workers=workers, timeout=timeout, spec_dir=d, coverage=coverage,
                   simulate=simulate, depth=depth, seed=seed)
