"""Thin runner around TLC / SANY (tla2tools 1.8.0).

Everything here is machinery: a failure of TLC itself (parse error, crash, timeout) is raised as
MachineryError and ends a check with exit status 2 -- never as a property violation.
"""
import json
import os
import re
import shutil
import subprocess
import tempfile
import time

JAR = "/opt/veriftools/tla/tla2tools.jar"
CM = "/opt/veriftools/tla/CommunityModules-deps.jar"
SPEC_DIR = os.path.join(os.path.dirname(os.path.dirname(os.path.abspath(__file__))), "spec")


class MachineryError(Exception):
    pass


class TlcResult:
    def __init__(self, rc, out, wall):
        self.rc = rc
        self.out = out
        self.wall = wall
        self.generated = 0
        self.distinct = 0
        self.violated = []          # names of violated invariants / properties
        self.error_lines = []
        self.printed = []           # raw PrintT lines
        self.coverage = {}          # action name -> (distinct, total)
        self.completed = False
        self._parse()

    def _parse(self):
        for line in self.out.splitlines():
            m = re.match(r"^(\d+) states generated, (\d+) distinct states found", line)
            if m:
                self.generated = int(m.group(1))
                self.distinct = int(m.group(2))
            m = re.match(r"^Error: Invariant (\S+) is violated", line)
            if m:
                self.violated.append(m.group(1))
            m = re.match(r"^Error: Action property (\S+) is violated", line)
            if m:
                self.violated.append(m.group(1))
            if line.startswith("Error: Temporal properties were violated"):
                self.violated.append("<temporal>")
            m = re.match(r"^Error: Temporal property (\S+) was violated", line)
            if m:
                self.violated.append("<temporal>")
                self.violated.append(m.group(1))
            if line.startswith("Error:"):
                self.error_lines.append(line)
            if "Model checking completed. No error has been found." in line:
                self.completed = True
            m = re.match(r"^<(\w+) line \d+, col \d+ to line \d+, col \d+ of module (\w+)(?: \([\d ]+\))?>: (\d+):(\d+)", line)
            if m:
                name = m.group(1)
                d, t = int(m.group(3)), int(m.group(4))
                od, ot = self.coverage.get(name, (0, 0))
                self.coverage[name] = (od + d, ot + t)
        # simulation mode reports differently
        if self.generated == 0:
            m = re.search(r"The number of states generated: (\d+)", self.out)
            if m:
                self.generated = int(m.group(1))
                self.distinct = self.generated

    @property
    def ok(self):
        return self.completed and not self.violated and not self.error_lines


def _java(xmx="4g", xss="256m", extra_props=()):
    cmd = ["java", "-Xmx" + xmx, "-Xss" + xss, "-XX:+UseParallelGC", "-DTLA-Library=" + SPEC_DIR]
    cmd += list(extra_props)
    cmd += ["-cp", JAR + ":" + CM]
    return cmd


def sany(module_path):
    p = subprocess.run(_java("1g", "64m") + ["tla2sany.SANY", module_path],
                       capture_output=True, text=True, cwd=os.path.dirname(module_path))
    ok = p.returncode == 0 and "Semantic errors" not in p.stdout and "***Parse Error***" not in p.stdout \
        and "Fatal errors" not in p.stdout and "Could not find module" not in p.stdout
    return ok, p.stdout + p.stderr


def run(module, cfg, *, workers=16, env=None, timeout=1800, simulate=None, depth=None, seed=None,
        coverage=False, xmx="6g", dfs=False, deadlock=False, extra=(), spec_dir=SPEC_DIR, keep=False):
    """Run TLC on spec/<module>.tla with spec/<cfg>. Returns TlcResult.

    simulate: None or "num=N" (string appended to -simulate)."""
    meta = tempfile.mkdtemp(prefix="tlcmeta_")
    props = ["-Djava.io.tmpdir=" + meta]      # TLC unpacks its standard modules into the JVM's temporary directory: keep that inside the run's own
    if dfs:
        props.append("-Dtlc2.tool.queue.IStateQueue=StateDeque")
    cmd = _java(xmx=xmx, extra_props=props) + ["tlc2.TLC", "-workers", str(workers), "-metadir", meta,
                                               "-noGenerateSpecTE", "-config", cfg]
    if not deadlock:
        cmd += ["-deadlock"]          # "-deadlock" DISABLES deadlock checking in TLC
    if simulate is not None:
        cmd += ["-simulate", simulate]
    if depth is not None:
        cmd += ["-depth", str(depth)]
    if seed is not None:
        cmd += ["-seed", str(seed)]
    if coverage:
        cmd += ["-coverage", "1"]
    cmd += list(extra)
    cmd += [module]
    e = dict(os.environ)
    if env:
        e.update({k: str(v) for k, v in env.items()})
    t0 = time.time()
    try:
        p = subprocess.run(cmd, capture_output=True, text=True, cwd=spec_dir, env=e, timeout=timeout)
    except subprocess.TimeoutExpired as ex:
        shutil.rmtree(meta, ignore_errors=True)
        out = (ex.stdout or b"")
        if isinstance(out, bytes):
            out = out.decode("utf-8", "replace")
        r = TlcResult(-9, out, time.time() - t0)
        r.timed_out = True
        return r
    finally:
        if not keep:
            shutil.rmtree(meta, ignore_errors=True)
    r = TlcResult(p.returncode, p.stdout + p.stderr, time.time() - t0)
    r.timed_out = False
    return r


def require_clean(r, what):
    """Machinery guard: TLC must have finished normally (violations are handled by the caller)."""
    bad = [l for l in r.error_lines if not re.match(r"^Error: (Invariant|Action property) \S+ is violated", l)
           and not re.match(r"^Error: Temporal property \S+ was violated", l)
           and "Temporal properties were violated" not in l and "The behavior up to this point" not in l
           and "The following behavior constitutes a counter-example" not in l]
    if bad or (r.rc not in (0, 12, 13) and not r.violated):
        raise MachineryError("%s: TLC failed (rc=%s): %s\n%s" % (what, r.rc, bad[:3], r.out[-3000:]))


def tagged(r, tag):
    """Values printed with PrintT(ToJson(<<tag, a, b, ...>>)): one JSON string per line -> list of [a, b, ...]."""
    res = []
    for line in r.out.splitlines():
        line = line.strip()
        if not (line.startswith('"[') and line.endswith(']"')):
            continue
        try:
            v = json.loads(json.loads(line))
        except ValueError:
            continue
        if isinstance(v, list) and v and v[0] == tag:
            res.append(v[1:])
    return res


def tagged_json(r, tag):
    return [v[0] for v in tagged(r, tag)]


def tagged_values(r, tag):
    return tagged(r, tag)


def apalache(module, args, timeout=900):
    """Run apalache-mc check on spec/<module>.tla; -> (verdict, wall, tail) with verdict in 'ok' | 'error' | 'timeout' | 'failed'."""
    out = tempfile.mkdtemp(prefix="apa_")
    t0 = time.time()
    try:
        p = subprocess.run(["apalache-mc", "check", "--out-dir=" + out, "--run-dir=" + out] + list(args) + [module + ".tla"],
                           capture_output=True, text=True, cwd=SPEC_DIR, timeout=timeout)
    except subprocess.TimeoutExpired:
        return "timeout", time.time() - t0, ""
    except OSError as e:
        return "failed", time.time() - t0, repr(e)
    finally:
        shutil.rmtree(out, ignore_errors=True)
    txt = p.stdout + p.stderr
    if "EXITCODE: OK" in txt and p.returncode == 0:
        v = "ok"
    elif "Checker has found an error" in txt:
        v = "error"
    else:
        v = "failed"
    return v, time.time() - t0, txt[-600:]
