"""Several real LocalPeers wired by in-memory FIFO links, one shared virtual clock; message-granular delivery.

A link (a, b) is a pair of fakenet.FakeSocket objects: what node a writes to its connection "b" is parsed into frames and
queued; Deliver(a, b) hands exactly one frame to node b's connection "a" through the production read handler.
"""
import io
import struct

from . import sk, fakenet, netmsg, indep


class Net:
    def __init__(self, world, genesis, init_blocks, peers, batch=2, clock0=1_000_000):
        """init_blocks: node -> list of Block in first-seen order (after genesis); peers: node -> set of nodes."""
        import skepticoin.networking.remote_peer as rp
        import skepticoin.networking.local_peer  # noqa: F401  (must be imported before .manager: circular import)
        import skepticoin.networking.manager as mg
        self.rp, self.mg = rp, mg
        self.w = world
        self.clock = fakenet.Clock(clock0)
        self._orig_batch = rp.GET_BLOCKS_INVENTORY_SIZE
        rp.GET_BLOCKS_INVENTORY_SIZE = batch
        self.nodes = {}
        self.peers = {n: sorted(ps) for n, ps in peers.items()}
        CoinState = world.T["CoinState"]
        for n in sorted(peers):
            cs = CoinState.empty().add_block_no_validation(genesis)
            for b in init_blocks.get(n, []):
                cs = cs.add_block_no_validation(b)
            node = fakenet.Node(cs, genesis, clock=self.clock, real_store=False, port=2000 + n, nonce=1000 + n, name=str(n))
            node.disk.save_block = lambda b: None
            node.disk.flush_blocks = lambda: None
            self.nodes[n] = node
        self.queues = {(a, b): [] for a in self.nodes for b in self.peers[a]}     # frames written by a for b, not yet delivered
        # connect: a -> b is OUTGOING at a when a < b, INCOMING at b
        for a in sorted(self.nodes):
            for b in self.peers[a]:
                direction = "OUTGOING" if a < b else "INCOMING"
                self._connect(a, b, direction)
        # greeting exchange and the initial GetPeers/Peers chatter: deliver everything, then start from quiet
        for a in self.nodes:
            self.nodes[a].step_network()
        guard = 0
        while self.pump_all() and guard < 1000:
            guard += 1
        for a in self.nodes:
            self.nodes[a].step_network()
        guard = 0
        while self.pump_all() and guard < 1000:
            guard += 1
        self.choice = None
        net = self

        class Rnd:
            @staticmethod
            def choice(seq):
                seq = list(seq)
                if net.choice is not None:
                    for p in seq:
                        if p is net.choice:
                            return p
                    raise RuntimeError("chosen peer is not a candidate")
                return seq[0]
        self._orig_random = mg.random
        mg.random = Rnd
        self.sent_log = {n: [] for n in self.nodes}     # (to, kind, id, irt)

    def close(self):
        self.rp.GET_BLOCKS_INVENTORY_SIZE = self._orig_batch
        self.mg.random = self._orig_random
        for n in self.nodes.values():
            n.close()

    def _connect(self, a, b, direction):
        import selectors
        node = self.nodes[a]
        sock = fakenet.FakeSocket()
        peer = self.rp.ConnectedRemotePeer(node.local, "10.1.0.%d" % b, 2000 + b if direction == "OUTGOING" else 40000 + a, direction, None, sock, ban_score=0)
        node.local.selector.register(sock, selectors.EVENT_READ, data=peer)
        node.local.network_manager.handle_peer_connected(peer)
        node.peers[str(b)] = (peer, sock)

    # ---- moving bytes
    def collect(self):
        """Parse what every node has written into frames and append them to the link queues."""
        for a, node in self.nodes.items():
            node.pump_writes()
            for b in self.peers[a]:
                peer, sock = node.peers[str(b)]
                buf = sock.sent
                pos = 0
                while len(buf) - pos >= 8:
                    (n,) = struct.unpack(">I", buf[pos + 4:pos + 8])
                    if len(buf) - pos - 8 < n:
                        break
                    self.queues[(a, b)].append(buf[pos:pos + 8 + n])
                    if hasattr(self, "sent_log"):
                        self.sent_log[a].append((b, buf[pos:pos + 8 + n]))
                    pos += 8 + n
                sock.sent = buf[pos:]

    def pump_all(self):
        self.collect()
        moved = False
        for (a, b), q in self.queues.items():
            while q:
                self._hand(a, b, q.pop(0))
                moved = True
        self.collect()
        return moved or any(self.queues.values())

    def _hand(self, a, b, frame):
        node = self.nodes[b]
        node.deliver(str(a), frame)

    def decode(self, frame):
        from skepticoin.networking.messages import MessageHeader, Message
        f = io.BytesIO(frame[8:])
        h = MessageHeader.stream_deserialize(f)
        m = Message.stream_deserialize(f)
        return h, m

    def abstract_msg(self, frame, balias, talias):
        h, m = self.decode(frame)
        n = type(m).__name__
        if n == "GetBlocksMessage":
            return {"t": "GB", "loc": [balias(x) for x in m.potential_start_hashes]}
        if n == "InventoryMessage":
            return {"t": "INV", "items": [balias(i.hash) for i in m.items]}
        if n == "GetDataMessage":
            return {"t": "GD", "b": balias(m.hash)}
        if n == "DataMessage":
            if type(m.data).__name__ == "Block":
                return {"t": "DATA", "b": balias(m.data.hash()), "irt": h.in_response_to != 0}
            return {"t": "TX", "x": talias(indep.txid(m.data))}
        return {"t": n}

    # ---- actions of Net.tla
    def deliver(self, s, r):
        self.collect()
        q = self.queues[(s, r)]
        if not q:
            return False
        self._hand(s, r, q.pop(0))
        self.collect()
        return True

    def step(self, n, m):
        node = self.nodes[n]
        self.choice = node.peers[str(m)][0]
        try:
            node.run_once(only_chain_manager=True)             # the node's own loop: it reads the clock itself and steps its managers
        finally:
            self.choice = None
        self.collect()

    def tick(self, dt=61):
        self.clock.t += dt

    def originate(self, n, tx):
        node = self.nodes[n]
        ok = node.local.chain_manager.add_transaction_to_pool(tx)
        if ok:
            node.local.network_manager.broadcast_transaction(tx)
        self.collect()
        return ok

    def quiet(self):
        self.collect()
        return not any(self.queues.values())

    # ---- projection
    def project(self, balias, talias):
        self.collect()
        now = self.clock()
        nodes = {}
        for n, node in self.nodes.items():
            cs = node.chain()
            cm = node.local.chain_manager
            waiting, backoff, inv = {}, {}, {}
            for b in self.peers[n]:
                peer = node.peers[str(b)][0]
                waiting[str(b)] = bool(peer.waiting_for_inventory)
                backoff[str(b)] = not (now > peer.last_empty_inventory_response_at + 60)
                inv[str(b)] = [[balias(i.hash) for i in ms.message.items] for ms in peer.inventory_messages]
            rev = {id(node.peers[str(b)][0]): b for b in self.peers[n]}
            fetching = [rev.get(id(p), 0) for (t, p) in cm.actively_fetching_blocks_from_peers if now < t]
            nodes[str(n)] = {"has": sorted(balias(h) for h in cs.block_by_hash.keys()), "head": balias(cs.current_chain_hash),
                             "pool": [talias(indep.txid(t)) for t in cm.transaction_pool],
                             "waiting": waiting, "backoff": backoff, "inv": inv, "fetching": fetching,
                             "open": [b for b in self.peers[n] if node.is_open(str(b))],
                             "escaped": len(node.escaped) > 0}
        chan = {}
        for (a, b), q in self.queues.items():
            chan.setdefault(str(a), {})[str(b)] = [self.abstract_msg(f, balias, talias) for f in q]
        return {"nodes": nodes, "chan": chan}
