"""Run a real subprocess under strace and turn its file system calls on the watched paths into AtomicFile events."""
import os
import re
import subprocess
import tempfile

from . import sk

_open_re = re.compile(r'^(?:\d+\s+)?openat\(AT_FDCWD, "([^"]+)", ([A-Z_|0-9]+)(?:, \d+)?\)\s+= (-?\d+)')
_write_re = re.compile(r'^(?:\d+\s+)?write\((\d+), .*\)\s+= (-?\d+)')
_close_re = re.compile(r'^(?:\d+\s+)?close\((\d+)\)\s+= (-?\d+)')
_rename_re = re.compile(r'^(?:\d+\s+)?rename(?:at2?)?\((?:AT_FDCWD, )?"([^"]+)", (?:AT_FDCWD, )?"([^"]+)"(?:, \w+)?\)\s+= (-?\d+)')
_unlink_re = re.compile(r'^(?:\d+\s+)?unlink(?:at)?\((?:AT_FDCWD, )?"([^"]+)"(?:, \w+)?\)\s+= (-?\d+)')


def run(code, cwd, watch):
    """Execute `python -c code` (cwd given) under strace; returns AtomicFile events on paths whose basename is in `watch`."""
    out = tempfile.mktemp(prefix="strace_", dir=sk.scratch())
    env = dict(os.environ, PYTHONPATH=sk.REPO, PYTHONDONTWRITEBYTECODE="1")
    p = subprocess.run(["strace", "-f", "-s", "0", "-e", "trace=openat,write,close,rename,renameat,renameat2,unlink,unlinkat",
                        "-o", out, "/venv/bin/python", "-c", code], cwd=cwd, env=env, capture_output=True, text=True, timeout=300)
    if p.returncode != 0:
        raise RuntimeError("strace subprocess failed: %s\n%s" % (p.returncode, p.stderr[-2000:]))
    events = []
    fds = {}
    for line in open(out):
        m = _open_re.match(line)
        if m and int(m.group(3)) >= 0:
            path, flags, fd = m.group(1), m.group(2), int(m.group(3))
            base = os.path.basename(path)
            wr = "O_WRONLY" in flags or "O_RDWR" in flags
            if base in watch and wr:
                fds[fd] = base
                events.append({"op": "open", "fd": fd, "path": base, "trunc": "O_TRUNC" in flags})
            else:
                fds.pop(fd, None)
            continue
        m = _write_re.match(line)
        if m and int(m.group(1)) in fds and int(m.group(2)) > 0:
            events.append({"op": "write", "fd": int(m.group(1)), "n": int(m.group(2))})
            continue
        m = _close_re.match(line)
        if m and int(m.group(1)) in fds:
            events.append({"op": "close", "fd": int(m.group(1))})
            fds.pop(int(m.group(1)), None)
            continue
        m = _rename_re.match(line)
        if m and int(m.group(3)) == 0:
            a, b = os.path.basename(m.group(1)), os.path.basename(m.group(2))
            if a in watch or b in watch:
                events.append({"op": "rename", "a": a, "b": b})
            continue
        m = _unlink_re.match(line)
        if m and int(m.group(2)) == 0 and os.path.basename(m.group(1)) in watch:
            events.append({"op": "unlink", "path": os.path.basename(m.group(1))})
    os.remove(out)
    return events
