"""Independent re-implementation of skepticoin's documented byte layouts and hash constructions.

Nothing here imports skepticoin.  It is the harness' own oracle for: the canonical encoding of
consensus objects, ids (double SHA-256), the merkle commitment, the proof-of-work evidence data
flow, the retargeting formula and the subsidy schedule -- written from the property texts and
docs, so that a self-consistent change of the repository's code is still noticed.

Objects are duck-typed (the repository's own classes are used as plain containers).
"""
import hashlib
import struct

CHAIN_SAMPLE_COUNT = 8
CHAIN_SAMPLE_SIZE = 4


def sha256d(b):
    return hashlib.sha256(hashlib.sha256(b).digest()).digest()


def blake2(b):
    return hashlib.blake2b(b, digest_size=32).digest()


def real_scrypt(password, salt):
    import scrypt as _s
    return _s.hash(password, salt, N=1 << 15, r=8, p=1, buflen=32)


def stub_scrypt(password, salt):
    return hashlib.blake2b(b"stub-scrypt" + password + b"|" + salt, digest_size=32).digest()


def vlq(i):
    """Canonical variable-length quantity: the form the node's encoder emits (bit_length//7 + 1 octets)."""
    n = i.bit_length() // 7 + 1
    out = bytearray()
    for j in reversed(range(n)):
        out.append(((i >> (7 * j)) & 0x7f) | (0x80 if j > 0 else 0))
    return bytes(out)


def enc_ref(r):
    return r.hash + struct.pack(">I", r.index)


def enc_pubkey(k):
    return b"\x02" + k.public_key


def sig_kind(s):
    n = type(s).__name__
    if n == "SignableEquivalent":
        return "blank"
    if n == "CoinbaseData":
        return "cbdata"
    if n == "SECP256k1Signature":
        return "secp"
    return "other"


def enc_sig(s):
    k = sig_kind(s)
    if k == "blank":
        return b"\x00"
    if k == "cbdata":
        return b"\x01" + struct.pack(">I", s.height) + struct.pack("B", len(s.signature)) + s.signature
    if k == "secp":
        return b"\x02" + s.signature
    raise ValueError("unknown signature class")


def enc_input(i, blank=False):
    return enc_ref(i.output_reference) + (b"\x00" if blank else enc_sig(i.signature))


def enc_output(o):
    return struct.pack(">Q", o.value) + enc_pubkey(o.public_key)


def enc_tx(t, blank=False):
    b = b"\x00" + vlq(len(t.inputs))
    for i in t.inputs:
        b += enc_input(i, blank)
    b += vlq(len(t.outputs))
    for o in t.outputs:
        b += enc_output(o)
    return b


def sign_message(t):
    """What a spend signature must cover: the transaction with every signature blanked."""
    return enc_tx(t, blank=True)


def txid(t):
    return sha256d(enc_tx(t))


def enc_summary(s):
    return (vlq(s.height) + s.previous_block_hash + s.merkle_root_hash + struct.pack(">I", s.timestamp)
            + s.target + struct.pack(">I", s.nonce))


def enc_evidence(e):
    return e.summary_hash + e.chain_sample + e.block_hash


def enc_header(h):
    return b"\x00" + enc_summary(h.summary) + enc_evidence(h.pow_evidence)


def enc_txlist(txs):
    b = vlq(len(txs))
    for t in txs:
        b += enc_tx(t)
    return b


def enc_block(b):
    return enc_header(b.header) + enc_txlist(b.transactions)


def blockid(b):
    return sha256d(enc_header(b.header))


def merkle_root(hashes):
    """Pairwise double-SHA-256, an odd element is promoted unchanged (not duplicated)."""
    level = list(hashes)
    if not level:
        raise ValueError("empty")
    while len(level) > 1:
        nxt = []
        for i in range(0, len(level), 2):
            if i + 1 < len(level):
                nxt.append(sha256d(level[i] + level[i + 1]))
            else:
                nxt.append(level[i])
        level = nxt
    return level[0]


def evidence(summary, height, txs, block_bytes_at_height, scrypt_fn):
    """(summary_hash, chain_sample, block_hash) recomputed from the summary, the ancestors it selects and the txs."""
    summary_hash = scrypt_fn(enc_summary(summary), height.to_bytes(8, "big"))
    if height == 0:
        sample = b"\x00" * (CHAIN_SAMPLE_COUNT * CHAIN_SAMPLE_SIZE)
    else:
        cur = summary_hash
        parts = []
        for i in range(CHAIN_SAMPLE_COUNT):
            h = int.from_bytes(cur[:8], "big") % height
            blk = block_bytes_at_height(h)
            start = int.from_bytes(cur[8:12], "big") % len(blk)
            piece = b""
            while len(piece) < CHAIN_SAMPLE_SIZE:
                piece += blk[start:start + CHAIN_SAMPLE_SIZE - len(piece)]
                start = 0
            parts.append(piece)
            if i != CHAIN_SAMPLE_COUNT - 1:
                cur = sha256d(cur + piece)
        sample = b"".join(parts)
    block_hash = blake2(summary_hash + sample + enc_txlist(txs))
    return summary_hash, sample, block_hash


def new_target(prev, elapsed, timespan=1209600):
    v = int.from_bytes(prev, "big") * elapsed // timespan
    return min(v, (1 << 256) - 1).to_bytes(32, "big")


def subsidy(height, initial=10 * 100_000_000, interval=1_050_000):
    e = height // interval
    return 0 if e >= 64 else initial >> e
