"""Running the real wallet scripts (scripts/send.py, scripts/receive.py: their main()) in a forked process that is killed after its k-th
visible step -- a key handed out, wallet.json saved, a key leaving the process (printed address, change output of a broadcast transaction)
-- followed by a restart through the program's own start-up path.  Events for TraceKeyEscape."""
import json
import os
import sys
import tempfile

from . import sk


def make_wallet_dir(keys, funded=1):
    """wallet.json holding every harness key; the funded key is in use (annotated), the others are unused, in key order."""
    from skepticoin.wallet import Wallet, save_wallet
    d = tempfile.mkdtemp(prefix="script_", dir=sk.scratch())
    wal = Wallet.empty()
    for k in sorted(keys.pub):
        wal.keypairs[keys.pub[k]] = keys.sk[k].to_string()
    wal.unused_public_keys = [keys.pub[k] for k in sorted(keys.pub) if k != funded]
    wal.public_key_annotations[keys.pub[funded]] = "funded"
    cwd = os.getcwd()
    os.chdir(d)
    try:
        save_wallet(wal)
    finally:
        os.chdir(cwd)
    return d, list(wal.unused_public_keys)


def _child(script, d, order, crash_after, cs, argv, advance=None):
    os.chdir(d)
    idx = {pk: i + 1 for i, pk in enumerate(order)}
    n = [0]
    logf = open("events.jsonl", "a")

    def log(ev):
        logf.write(json.dumps(ev) + "\n")
        logf.flush()
        os.fsync(logf.fileno())
        n[0] += 1
        if n[0] == crash_after:
            os._exit(9)                  # the process dies here (nothing of its memory survives; no finally clause runs)
    import importlib
    from skepticoin.wallet import Wallet
    mod = importlib.import_module("skepticoin.scripts." + script)
    last = {}
    o_get = Wallet.get_annotated_public_key

    def get(self_, annotation):
        k = o_get(self_, annotation)
        last["k"] = idx.get(k, 0)
        log({"op": "handout", "k": idx.get(k, 0)})
        return k
    Wallet.get_annotated_public_key = get
    o_save = mod.save_wallet

    def save(w):
        o_save(w)
        on_disk = Wallet.load(open("wallet.json"))
        log({"op": "save", "unused": [idx.get(k, 0) for k in on_disk.unused_public_keys]})
    mod.save_wallet = save
    mod.configure_logging_from_args = lambda a: None
    if script == "send":
        # the node of the script: a real NetworkingThread object (LocalPeer, ChainManager, NetworkManager) that is never started; what it
        # would send to its peers is logged
        import skepticoin.networking.threading as nt

        class Disk:
            def load_peers(self):
                return {}

            def write_peers(self, p):
                pass

            def save_block(self, b):
                pass

            def flush_blocks(self):
                pass

            def save_transaction_for_debugging(self, t):
                pass
        holder = {}

        def start(a, c):
            th = nt.NetworkingThread(c, port=None, disk_interface=Disk())
            o_b = th.local_peer.network_manager.broadcast_transaction

            def bt(t):
                o_b(t)
                log({"op": "escape", "keys": [idx[o.public_key.public_key] for o in t.outputs if o.public_key.public_key in idx]})
            th.local_peer.network_manager.broadcast_transaction = bt
            th.start = lambda: None
            th.stop = lambda: None
            th.join = lambda *a_: None
            holder["th"] = th
            return th

        def wait(thread, freshness=0):
            if advance is not None:
                advance(thread.local_peer)          # what the network thread does while the script waits for a fresh chain
        mod.check_chain_dir = lambda: None
        mod.read_chain_from_disk = lambda: cs
        mod.start_networking_peer_in_background = start
        mod.wait_for_fresh_chain = wait

        def sleep(_s):
            raise KeyboardInterrupt()     # the user stops watching for confirmations
        mod.sleep = sleep
        mod.print = lambda *a, **k: None
    else:
        def pr(*a, **k):
            log({"op": "escape", "keys": [last.get("k", 0)]})      # the address is on the terminal
        mod.print = pr
    sys.argv = ["skepticoin-" + script] + list(argv)

    def report():
        # the pending pool of the script's node against the ledger at its head
        th = holder.get("th") if script == "send" else None
        if th is None:
            return
        cm = th.local_peer.chain_manager
        head = cm.coinstate.current_chain_hash
        unspent = cm.coinstate.unspent_transaction_outs_by_hash[head]
        bad = 0
        refs = []
        for t in list(cm.transaction_pool):
            rs = [i.output_reference for i in t.inputs]
            if any(r not in unspent for r in rs) or any(r in refs for r in rs):
                bad += 1
            refs += rs
        with open("pool.json", "w") as f:
            json.dump({"pending": len(cm.transaction_pool), "not_valid_at_head_or_conflicting": bad}, f)
    try:
        mod.main()
    except BaseException as e:      # noqa: B902
        report()
        logf.write(json.dumps({"op": "raised", "error": repr(e)[:200]}) + "\n")
        logf.flush()
        os._exit(3)
    report()
    os._exit(0)


def run(script, keys, cs, argv, crash_after, advance=None):
    """-> (events, killed, workdir).  crash_after = k: the process is killed right after its k-th event; 0: never."""
    d, order = make_wallet_dir(keys)
    sys.stdout.flush()
    pid = os.fork()
    if pid == 0:
        try:
            devnull = os.open(os.devnull, os.O_WRONLY)
            os.dup2(devnull, 1)
            os.dup2(devnull, 2)
            _child(script, d, order, crash_after, cs, argv, advance)
        finally:
            os._exit(4)
    _, status = os.waitpid(pid, 0)
    code = os.WEXITSTATUS(status) if os.WIFEXITED(status) else -1
    events = []
    try:
        for line in open(os.path.join(d, "events.jsonl")):
            events.append(json.loads(line))
    except OSError:
        pass
    killed = code == 9
    raised = [e for e in events if e["op"] == "raised"]
    events = [e for e in events if e["op"] != "raised"]
    if killed:
        events.append({"op": "crash"})
    # restart: a later run of a wallet script
    from skepticoin.scripts.utils import open_or_init_wallet
    idx = {pk: i + 1 for i, pk in enumerate(order)}
    cwd = os.getcwd()
    os.chdir(d)
    try:
        w = open_or_init_wallet()
        unused = [idx.get(k, 0) for k in w.unused_public_keys]
        k = w.get_annotated_public_key("receive")
        if not killed:
            events.append({"op": "crash"})       # the process ended; its memory is gone either way
        events.append({"op": "restart", "k": idx.get(k, 0), "unused": unused})
    finally:
        os.chdir(cwd)
    run.last_dir = d
    return events, killed, code, raised, len(order)
