"""Grammar-directed generation of byte strings for the codecs: field layout of valid encodings (a Python mirror of
the schema table in Wire.tla, used only to *place* mutations), and the mutations themselves."""

F, Z, A1, SUB, LST, CST, VLQ, LP1, TAG = "fixed", "zeros", "any1", "sub", "list", "const", "vlq", "lp1", "tagged"

SCHEMA = {
    "OutputReference": [(F, 32), (F, 4)],
    "SigBlank": [],
    "SigCoinbase": [(F, 4), (LP1,)],
    "SigSecp": [(F, 64)],
    "Signature": [(TAG, 1, {0: "SigBlank", 1: "SigCoinbase", 2: "SigSecp"})],
    "KeySecp": [(F, 64)],
    "PublicKey": [(TAG, 1, {2: "KeySecp"})],
    "Input": [(SUB, "OutputReference"), (SUB, "Signature")],
    "Output": [(F, 8), (SUB, "PublicKey")],
    "Transaction": [(CST, 0), (LST, "Input"), (LST, "Output")],
    "BlockSummary": [(VLQ,), (F, 32), (F, 32), (F, 4), (F, 32), (F, 4)],
    "PowEvidence": [(F, 32), (F, 32), (F, 32)],
    "BlockHeader": [(CST, 0), (SUB, "BlockSummary"), (SUB, "PowEvidence")],
    "Block": [(SUB, "BlockHeader"), (LST, "Transaction")],
    "MessageHeader": [(F, 1), (F, 4), (F, 4), (F, 4), (F, 8), (Z, 32)],
    "SupportedVersion": [(F, 1)],
    "Hash32": [(F, 32)],
    "InventoryItem": [(F, 2), (F, 32)],
    "Peer": [(F, 4), (F, 16), (F, 2)],
    "Hello": [(F, 1), (F, 16), (F, 2), (F, 16), (F, 2), (F, 4), (LP1,), (LST, "SupportedVersion"), (Z, 256)],
    "GetBlocks": [(CST, 0), (LST, "Hash32"), (F, 32)],
    "Inventory": [(CST, 0), (LST, "InventoryItem")],
    "GetData": [(CST, 0), (F, 2), (F, 32)],
    "Data": [(CST, 0), (TAG, 2, {0: "Block", 1: "BlockHeader", 2: "Transaction"})],
    "GetPeers": [(CST, 0)],
    "Peers": [(CST, 0), (LST, "Peer")],
    "Message": [(TAG, 2, {0: "Hello", 1: "GetBlocks", 2: "Inventory", 3: "GetData", 4: "Data", 5: "GetPeers", 6: "Peers"})],
    "Frame": [(SUB, "MessageHeader"), (SUB, "Message")],
    "VlqOnly": [(VLQ,)],
}


def _vlq(b, p):
    v = 0
    n = 0
    while True:
        x = b[p + n]
        n += 1
        v += x & 0x7f
        if x < 128:
            return v, n
        v *= 128


def layout(t, b, p=0, out=None, path=""):
    """Walk a *valid* encoding; returns (end, fields) with fields = [(offset, width, kind, path)]."""
    out = [] if out is None else out
    for i, f in enumerate(SCHEMA[t]):
        k = f[0]
        here = "%s/%s.%d" % (path, t, i)
        if k in (F, Z):
            out.append((p, f[1], k, here))
            p += f[1]
        elif k == CST:
            out.append((p, 1, "const", here))
            p += 1
        elif k == LP1:
            n = b[p]
            out.append((p, 1, "lp1", here))
            p += 1 + n
        elif k == VLQ:
            v, n = _vlq(b, p)
            out.append((p, n, "vlq", here))
            p += n
        elif k == SUB:
            p, _ = layout(f[1], b, p, out, here)
        elif k == TAG:
            w = f[1]
            tag = int.from_bytes(b[p:p + w], "big")
            out.append((p, w, "tag", here))
            p, _ = layout(f[2][tag], b, p + w, out, here)
        elif k == LST:
            v, n = _vlq(b, p)
            out.append((p, n, "count", here))
            p += n
            for _ in range(v):
                p, _ = layout(f[1], b, p, out, here)
    return p, out


def mutations(t, b, rng, budget=60):
    """Byte strings derived from the valid encoding b of type t: (name, bytes)."""
    end, fields = layout(t, b)
    res = []
    vlqs = [f for f in fields if f[2] in ("vlq", "count")]
    for (off, w, kind, path) in vlqs:
        for extra in (1, 2, 3):
            res.append(("nonminimal_%s+%d" % (kind, extra), b[:off] + b"\x80" * extra + b[off:]))
        if kind == "count":
            v, n = _vlq(b, off)
            for nv in (v + 1, max(v - 1, 0), 0, v + 128):
                if nv != v:
                    from .indep import vlq as enc
                    res.append(("count_%d_to_%d" % (v, nv), b[:off] + enc(nv) + b[off + n:]))
        # minimal-but-not-the-encoder's form for values whose bit length is a multiple of 7
        v, n = _vlq(b, off)
        if n >= 2 and b[off] == 0x80:
            res.append(("stripped_leading_80", b[:off] + b[off + 1:]))
    for (off, w, kind, path) in fields:
        if kind in ("tag", "const"):
            for val in (0, 1, 2, 3, 4, 5, 6, 7, 255):
                nb = val.to_bytes(w, "big") if val < 256 ** w else None
                if nb is not None and nb != b[off:off + w]:
                    res.append(("%s_%d" % (kind, val), b[:off] + nb + b[off + w:]))
        if kind == "lp1":
            for nv in (b[off] + 1, max(b[off] - 1, 0), 255):
                if nv != b[off] and nv < 256:
                    res.append(("lp1_%d" % nv, b[:off] + bytes([nv]) + b[off + 1:]))
    bounds = sorted({f[0] for f in fields} | {end})
    for cut in bounds:
        if 0 < cut < len(b):
            res.append(("truncate_at_field", b[:cut]))
    for _ in range(6):
        if len(b) > 1:
            res.append(("truncate_random", b[:rng.randrange(1, len(b))]))
    res.append(("trailing_1", b + b"\x00"))
    res.append(("trailing_9", b + b"\x01" * 9))
    for _ in range(8):
        i = rng.randrange(len(b))
        res.append(("flip_byte", b[:i] + bytes([b[i] ^ (1 << rng.randrange(8))]) + b[i + 1:]))
    if len(res) > budget:
        keep = [r for r in res if r[0].startswith(("nonminimal", "stripped", "count", "tag", "const"))]
        rest = [r for r in res if r not in keep]
        rng.shuffle(rest)
        res = (keep + rest)[:max(budget, len(keep))]
    return res
