"""Preemption-point exploration on real threads: operation A runs on one thread and is stopped before every source line it executes in
the given source files; at stop number k the whole of operation B runs on a second thread (if B blocks on a lock that A holds, A is
resumed and B completes when it can), then A finishes.  One run per k, k = 0 .. number of stops.  Every such schedule is one the
interpreter may produce (a thread switch is possible between any two lines)."""
from .sendpath_drv import Stepped, watch_locks


def count_stops(make, files, reset=None):
    """Dry run of A alone: -> number of line stops."""
    if reset:
        reset()
    ctx = make()
    T = Stepped("a", {}, every_line_in=files)
    try:
        s = T.submit(ctx["a"])
        n = 0
        while s.startswith("at:"):
            n += 1
            s = T.advance()
            if n > 5000:
                break
        T.wait_idle(10)
    finally:
        T.stop()
        if "close" in ctx:
            ctx["close"]()
    return n


def explore(make, files, ks=None, lock_holders=(), reset=None):
    """make() -> {"a": callable, "b": callable, "observe": callable -> dict, "close": callable, "locks": [objects whose lock attributes
    are to be watched]}.  Yields (k, blocked, observation, errors) for every preemption point k."""
    n = count_stops(make, files, reset)
    points = list(range(0, n + 1)) if ks is None else [k for k in ks if k <= n]
    for k in points:
        if reset:
            reset()                     # every run starts from the modules' state as it was right after import (cold memos / caches)
        ctx = make()
        for o in ctx.get("locks", ()):
            watch_locks(o)
        A = Stepped("a", {}, every_line_in=files)
        B = Stepped("b", {})
        blocked = False
        try:
            s = A.submit(ctx["a"])
            i = 0
            while i < k and s.startswith("at:"):
                s = A.advance()
                i += 1
            if s == "blocked":
                blocked = True
            sb = B.submit(ctx["b"])
            if sb == "blocked":
                blocked = True
            A.run_free()
            A.wait_idle(20)
            B.run_free()
            B.wait_idle(20)
            errs = [repr(T.exc) for T in (A, B) if T.exc is not None]
            obs = ctx["observe"]()
        finally:
            A.stop()
            B.stop()
            if "close" in ctx:
                ctx["close"]()
        yield k, n, blocked, obs, errs
