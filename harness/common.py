"""Check scaffolding: verdict bookkeeping, replay files, known findings, evidence, exit codes.

exit 0  the property held on everything explored (KNOWN-FINDING / MODEL-DRIFT lines may be printed)
exit 1  at least one `VIOLATION property=<id> replay=<path>` line
exit 2  machinery failure (TLC/SANY error, vacuity, configuration probe, trace without verdict)
"""
import json
import os
import re
import sys
import time
import traceback

ROOT = os.path.dirname(os.path.dirname(os.path.abspath(__file__)))
# runs against a scratch copy of the repository (tools/seedmatrix.sh, tools/seedtest.sh) must not overwrite the evidence of /repo itself
EVIDENCE_DIR = os.environ.get("VERIF_EVIDENCE_DIR") or os.path.join(ROOT, "evidence")
REPLAY_DIR = os.environ.get("VERIF_REPLAY_DIR") or os.path.join(ROOT, "replays")
KNOWN_FILE = os.path.join(ROOT, "known_findings.json")


_PRINTED = {"violation": False}


def seed():
    try:
        return int(os.environ.get("VERIF_SEED", "0"))
    except ValueError:
        return 0


def load_known():
    if not os.path.exists(KNOWN_FILE):
        return []
    return json.load(open(KNOWN_FILE))["findings"]


class Check:
    def __init__(self, pid, tier, level="model_checking"):
        self.pid = pid
        self.tier = tier
        self.level = level
        self.t0 = time.time()
        self.violations = []        # (clause, replay_path)
        self.known_hits = {}        # finding id -> count
        self.drift = []
        self.states = 0
        self.transitions = 0
        self.traces_validated = 0
        self.evaluations = 0
        self.distinct = set()
        self.samples = []
        self.configs = []
        self.notes = []
        self.assumptions = []
        self.extra = {}
        self.known = [k for k in load_known() if k["property"] == pid]
        self._nrep = 0
        self._stages = []
        self._tmark = self.t0

    def mark(self, stage):
        """Record the wall time spent since the previous mark under `stage` (evidence: coverage.stage_wall_s)."""
        now = time.time()
        self._stages.append([stage, round(now - self._tmark, 1)])
        self._tmark = now
        if os.environ.get("VERIF_VERBOSE"):
            print("[%s] stage %s: %.1fs" % (self.pid, stage, self._stages[-1][1]), file=sys.stderr, flush=True)

    # ---- TLC model runs
    def add_tlc(self, name, r, constants="", exhaustive=True, expect_violation=None):
        self.states += r.distinct
        self.transitions += r.generated
        self.configs.append({"config": name, "distinct_states": r.distinct, "states_generated": r.generated,
                             "exhaustive": bool(exhaustive and r.completed), "wall_s": round(r.wall, 1),
                             "constants": constants,
                             "expected_counterexample": expect_violation,
                             "violated": r.violated})

    # ---- verdicts from trace validation
    def match_known(self, signature_fields):
        """signature_fields: dict describing the violating step.  A finding matches when every key of its
        `match` dict equals the corresponding field."""
        for k in self.known:
            if k.get("status") != "open":
                continue
            m = k.get("match", {})
            if m and all(signature_fields.get(a) == b for a, b in m.items()):
                return k
        return None

    def violation(self, clause, replay_obj, signature_fields=None):
        sf = dict(signature_fields or {})
        sf.setdefault("clause", clause)
        k = self.match_known(sf)
        if k is not None:
            self.known_hits[k["id"]] = self.known_hits.get(k["id"], 0) + 1
            return False
        os.makedirs(REPLAY_DIR, exist_ok=True)
        self._nrep += 1
        path = os.path.join(REPLAY_DIR, "%s_%d_%d.json" % (self.pid, os.getpid(), self._nrep))
        if len(self.violations) < 20:
            with open(path, "w") as f:
                json.dump({"property": self.pid, "clause": clause, "seed": seed(), "tier": self.tier,
                           "behaviour": replay_obj}, f, indent=1, default=str)
            _PRINTED["violation"] = True
            print("VIOLATION property=%s replay=%s" % (self.pid, path))
            print("  clause: %s" % clause)
            sys.stdout.flush()
        self.violations.append((clause, path))
        return True

    def model_drift(self, what):
        if len(self.drift) < 10:
            print("MODEL-DRIFT: property=%s %s" % (self.pid, what))
        self.drift.append(what)

    def case(self, key, nontrivial=True):
        self.evaluations += 1
        if nontrivial:
            self.distinct.add(key)

    def sample(self, s):
        if len(self.samples) < 4:
            self.samples.append(s)

    def finish(self):
        for k in self.known:
            if k.get("status") == "open" and self.known_hits.get(k["id"]):
                print("KNOWN-FINDING: property=%s %s (%s; %d occurrences this run)" % (
                    self.pid, k["what"], k["id"], self.known_hits[k["id"]]))
        wall = time.time() - self.t0
        cov = {
            "states": int(self.states), "transitions": int(self.transitions),
            "traces_validated_against_impl": int(self.traces_validated),
            "evaluations": int(self.evaluations), "distinct_nontrivial": len(self.distinct),
            "samples": self.samples or ["(no sample recorded)"],
            "tlc_configs": self.configs,
            "model_drift": len(self.drift), "drift_examples": self.drift[:5],
            "known_findings_hit": self.known_hits,
            "notes": self.notes,
        }
        cov.update(self.extra)
        if self._stages:
            cov["stage_wall_s"] = self._stages
        if "rule" not in cov:
            cov["rule"] = "see notes"
        ev = {"property_id": self.pid, "tier": self.tier, "seed": seed(), "level": self.level,
              "coverage": cov, "assumptions": self.assumptions, "wall_s": round(wall, 2),
              "violations": len(self.violations)}
        os.makedirs(EVIDENCE_DIR, exist_ok=True)
        with open(os.path.join(EVIDENCE_DIR, "%s.json" % self.pid), "w") as f:
            json.dump(ev, f, indent=1, default=str)
        print("%s %s: states=%d transitions=%d traces=%d cases=%d distinct=%d drift=%d violations=%d known=%s wall=%.1fs" % (
            self.pid, self.tier, self.states, self.transitions, self.traces_validated, self.evaluations,
            len(self.distinct), len(self.drift), len(self.violations), self.known_hits, wall))
        return 1 if self.violations else 0


def machinery_failure(pid, msg):
    print("MACHINERY-ERROR property=%s %s" % (pid, msg))
    sys.stdout.flush()
    return 2


def write_cfg(path, spec=None, init=None, next_=None, constants=None, invariants=(), properties=(),
              view=None, constraint=None, postcondition=None, extra_lines=()):
    lines = []
    if spec:
        lines.append("SPECIFICATION %s" % spec)
    if init:
        lines.append("INIT %s" % init)
    if next_:
        lines.append("NEXT %s" % next_)
    if constants:
        lines.append("CONSTANTS")
        for k, v in constants.items():
            if isinstance(v, tuple) and v[0] == "<-":
                lines.append("  %s <- %s" % (k, v[1]))
            else:
                lines.append("  %s = %s" % (k, tla_lit(v)))
    for i in invariants:
        lines.append("INVARIANT %s" % i)
    for p in properties:
        lines.append("PROPERTY %s" % p)
    if view:
        lines.append("VIEW %s" % view)
    if constraint:
        lines.append("CONSTRAINT %s" % constraint)
    if postcondition:
        lines.append("POSTCONDITION %s" % postcondition)
    lines.extend(extra_lines)
    with open(path, "w") as f:
        f.write("\n".join(lines) + "\n")


def split_consts(constants):
    """cfg files cannot hold tuples/functions: such constants become definitions of a wrapper module."""
    cfgc, defs = {}, []
    for k, v in (constants or {}).items():
        if isinstance(v, (list,)) or (isinstance(v, tuple) and (not v or v[0] != "<-")):
            defs.append("C_%s == %s" % (k, tla_lit(list(v))))
            cfgc[k] = ("<-", "C_%s" % k)
        else:
            cfgc[k] = v
    return cfgc, "\n".join(defs)


def tla_lit(v):
    if isinstance(v, bool):
        return "TRUE" if v else "FALSE"
    if isinstance(v, int):
        return str(v)
    if isinstance(v, str):
        return '"%s"' % v
    if isinstance(v, (set, frozenset)):
        return "{" + ", ".join(tla_lit(x) for x in sorted(v, key=lambda z: (str(type(z)), z))) + "}"
    if isinstance(v, (list, tuple)):
        return "<<" + ", ".join(tla_lit(x) for x in v) + ">>"
    raise ValueError(v)


def replay_file(pid, path, fn):
    """Re-execute the run that produced a replay file (same seed and tier) against the current /repo and report whether the
    same clause is violated again; prints the stored behaviour first."""
    d = json.load(open(path))
    print("replay of %s: property=%s clause=%s seed=%s tier=%s" % (path, d.get("property"), d.get("clause"), d.get("seed"), d.get("tier")))
    print("stored behaviour (abstract steps / inputs):")
    print(json.dumps(d.get("behaviour"), indent=1, default=str)[:6000])
    os.environ["VERIF_SEED"] = str(d.get("seed", 0))
    import io
    import contextlib
    buf = io.StringIO()
    with contextlib.redirect_stdout(buf):
        rc = fn(d.get("tier", "quick"))
    out = buf.getvalue()
    again = [l for l in out.splitlines() if l.strip().startswith("clause:") and d.get("clause", "") in l]
    print("re-run with the stored seed: exit %s, the stored clause %s (%d occurrences)" % (
        rc, "is violated again" if again else "does not occur any more", len(again)))
    for l in out.splitlines():
        if l.startswith(("VIOLATION", "KNOWN-FINDING", "MODEL-DRIFT", pid)):
            print(l)
    return rc


def run_main(pid, fn):
    """fn(tier) -> exit code.  Any unexpected exception is a machinery failure (exit 2)."""
    import argparse
    ap = argparse.ArgumentParser()
    ap.add_argument("--tier", default=os.environ.get("VERIF_TIER", "quick"))
    ap.add_argument("--replay", default=None)
    a, _ = ap.parse_known_args(sys.argv[2:])
    try:
        if a.replay:
            return replay_file(pid, a.replay, fn)
        rc = fn(a.tier)
    except SystemExit:
        raise
    except Exception:
        traceback.print_exc()
        rc = machinery_failure(pid, "unexpected exception in the check (see traceback)")
    if rc == 2 and _PRINTED["violation"]:
        # a later stage could not run on this tree (often *because* of what the earlier stage reported): the violation stands
        print("%s: a later stage failed after violations had been reported; exit status 1" % pid)
        return 1
    return rc
