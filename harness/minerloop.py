"""The real MinerWatcher.__call__ (start-up, message loop, shutdown path) with its collaborators that reach outside the process replaced:
no worker processes (the harness plays the worker: it answers every scrypt_input with the summary hash), the networking thread is the
node of a NodeRun, the chain comes from that node, the wallet is a real wallet.json in a scratch directory."""
import json
import os
import tempfile

from . import sk, indep


class _Stop(KeyboardInterrupt):
    pass


def run(run_, script, fault=None, nkeys=6):
    """run_: node_drv.NodeRun.  script: list of "mine" (requests until a block is found, then the result message) / "idle" (one request,
    no result).  fault: None | "flush" | "save" -- the disk interface's flush_blocks / save_block raises OSError(ENOSPC) when the found block
    is being stored.  -> dict(found=[Block], wallet_dir, raised_in_loop, paid_keys)."""
    import skepticoin.mining as mining
    import skepticoin.consensus as c
    from skepticoin.wallet import Wallet, save_wallet
    from skepticoin.datatypes import Block, BlockHeader
    keys = run_.w.keys
    d = tempfile.mkdtemp(prefix="minerloop_", dir=sk.scratch())
    cwd = os.getcwd()
    os.chdir(d)
    saved = {k: getattr(mining, k) for k in ("check_chain_dir", "read_chain_from_disk", "start_networking_peer_in_background", "wait_for_fresh_chain",
                                             "configure_logging_from_args", "Process", "MAX_KNOWN_HASH_HEIGHT", "time")}
    found = []
    out = {"raised_in_loop": "", "found": found, "wallet_dir": d}
    try:
        wal = Wallet.empty()
        for k in sorted(keys.pub)[:nkeys]:
            wal.keypairs[keys.pub[k]] = keys.sk[k].to_string()
        wal.unused_public_keys = [keys.pub[k] for k in sorted(keys.pub, reverse=True)[-nkeys:]]
        save_wallet(wal)
        node = run_.node

        class NT:
            local_peer = node.local

            def stop(self):
                pass

            def join(self):
                pass
        sent = []

        class FakeProcess:
            def __init__(self, target=None, daemon=None, args=()):
                self.args = args

            def start(self):
                sent.append(self.args[2])          # the queue the watcher sends scrypt inputs to

            def join(self):
                pass

        class SendQ:
            def __init__(self):
                self.items = []

            def put(self, x):
                self.items.append(x)

        node.local.show_stats = lambda: None
        mining.check_chain_dir = lambda: None
        mining.read_chain_from_disk = lambda: node.chain()
        mining.start_networking_peer_in_background = lambda args, cs: NT()
        mining.wait_for_fresh_chain = lambda *a, **k: None
        mining.configure_logging_from_args = lambda a: None
        mining.Process = FakeProcess
        mining.MAX_KNOWN_HASH_HEIGHT = -1
        mining.time = run_.clock
        mining.print = lambda *a, **k: None
        mining.Queue = SendQ
        from .node_drv import new_miner_watcher
        mw = new_miner_watcher(mining)
        mw.args.n = 1
        steps = list(script)
        state = {"nonce": 1000, "await": None}
        real_flush, real_save = node.disk.flush_blocks, node.disk.save_block

        class RecvQ:
            def get(self_):
                q = mw.send_queues[0]
                if state["await"] is not None:
                    # the worker got its scrypt input: answer with the summary hash
                    (kind, (summary, height)) = q.items.pop()
                    sh = c.construct_summary_hash(summary, height)
                    mine = state["await"] == "mine"
                    state["await"] = None
                    if mine:
                        txs = mw.mining_args[0][2]
                        cand = Block(BlockHeader(summary, c.construct_pow_evidence_after_scrypt(sh, mw.coinstate, summary, height, txs)), txs)
                        if indep.blockid(cand) < summary.target:
                            found.append(cand)
                            if fault == "flush":
                                def boom():
                                    raise OSError(28, "No space left on device")
                                node.disk.flush_blocks = boom
                            elif fault == "save":
                                def boom2(b):
                                    raise OSError(28, "No space left on device")
                                node.disk.save_block = boom2
                            steps.pop(0)
                        return (0, "scrypt_output", sh)
                    steps.pop(0)            # "idle": one request, the result is not awaited (a worker that is still computing)
                    return self_.get()
                if not steps:
                    raise _Stop()
                state["nonce"] += 1
                state["await"] = steps[0]
                return (0, "request_scrypt_input", state["nonce"])
        mw.recv_queue = RecvQ()
        try:
            mw()
        except BaseException as e:      # noqa: B902
            out["raised_in_loop"] = repr(e)[:160]
        finally:
            node.disk.flush_blocks, node.disk.save_block = real_flush, real_save
        out["paid_keys"] = [b.transactions[0].outputs[0].public_key.public_key.hex() for b in found if b.hash() in node.chain().block_by_hash]
        out["wallet_file"] = json.load(open(os.path.join(d, "wallet.json")))
    finally:
        for k, v in saved.items():
            setattr(mining, k, v)
        os.chdir(cwd)
    return out


def restart_handout(wallet_dir):
    """A later run of any wallet script: the wallet is opened through the program's start-up path and a key is handed out."""
    from skepticoin.scripts.utils import open_or_init_wallet
    cwd = os.getcwd()
    os.chdir(wallet_dir)
    try:
        w = open_or_init_wallet()
        unused_before = len(w.unused_public_keys)
        k = w.get_annotated_public_key("receive")
        return k.hex(), unused_before
    finally:
        os.chdir(cwd)
