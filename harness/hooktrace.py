"""Traces recorded by the repository's own integration tests (real threads, real sockets) with the verification hooks on,
turned into *local* TraceNet traces: one per node, the messages a node receives are inputs from the environment, and every
handled message / periodic step must change that node's state exactly as Net.tla says (per-connection bookkeeping included).
"""
import json
import os
import subprocess
import tempfile

from . import sk


def run_test(test_id, timeout=120):
    d = tempfile.mkdtemp(prefix="hook_", dir=sk.scratch())
    tf = os.path.join(d, "trace.ndjson")
    env = dict(os.environ, SKEPTICOIN_VERIF="1", SKEPTICOIN_VERIF_TRACE=tf, PYTHONDONTWRITEBYTECODE="1")
    p = subprocess.run(["/venv/bin/python", "-m", "pytest", "-q", "-p", "no:cacheprovider", "--timeout=100", test_id],
                       cwd=sk.REPO, env=env, capture_output=True, text=True, timeout=timeout)
    ev = []
    if os.path.exists(tf):
        for line in open(tf):
            try:
                ev.append(json.loads(line))
            except ValueError:
                pass
    ev.sort(key=lambda e: e["seq"])
    return p.returncode, p.stdout[-1500:], ev


def chain_universe():
    """The recorded chain of tests/testdata/chain + genesis: id = height; Parent[h] = h-1."""
    sk.setup()
    from skepticoin.datatypes import Block
    from skepticoin.genesis import genesis_block_data
    blocks = [Block.deserialize(genesis_block_data)]
    d = os.path.join(sk.REPO, "tests/testdata/chain")
    for fn in sorted(os.listdir(d)):
        blocks.append(Block.deserialize(open(os.path.join(d, fn), "rb").read()))
    return {b.hash().hex(): i for i, b in enumerate(blocks)}


def local_traces(events, id_of, tid0=1):
    """-> list of (trace, parent, init, peers) for TraceNet in local mode."""
    nodes = sorted({e["post"]["node"] for e in events if e["post"].get("node")})
    out = []
    for ni, node in enumerate(nodes):
        evs = [e for e in events if e["post"]["node"] == node]
        # connections of this node -> pseudo-node ids 11, 12, ...
        conn_id = {}

        def cid(key):
            k = "%s:%s:%s" % (key[0], key[1], key[2]) if isinstance(key, list) else key
            if k not in conn_id:
                conn_id[k] = 11 + len(conn_id)
            return conn_id[k]
        for e in evs:
            for k in e["post"]["peers"]:
                cid(k)
            if e["ev"] == "msg":
                cid(e["peer"])
        me = 1
        peers = {me: set(conn_id.values())}
        for c in conn_id.values():
            peers[c] = {me}
        first = evs[0]["post"]
        init = {me: {id_of.get(h, -5) for h in first["has"]}}
        for c in conn_id.values():
            init[c] = {0}
        parent = {i: max(i - 1, 0) for i in sorted(set(id_of.values()))}

        last = {str(c): (False, False, []) for c in conn_id.values()}

        def proj(post):
            ps = post["peers"]
            # a connection that has gone (closed) keeps its last observed bookkeeping: Net has no disconnects
            for k, v in ps.items():
                last[str(conn_id[k])] = (v["waiting"], v["backoff"], [[id_of.get(h, -5) for h in m] for m in v["inv"]])
            waiting = {c: last[c][0] for c in last}
            backoff = {c: last[c][1] for c in last}
            inv = {c: last[c][2] for c in last}
            n = {"has": sorted(id_of.get(h, -5) for h in post["has"]), "head": id_of.get(post["head"], -5),
                 "pool": [1 for _ in post["pool"]], "waiting": waiting, "backoff": backoff, "inv": inv,
                 "fetching": [conn_id[k] for k in post["fetching"] if k in conn_id],
                 "open": sorted(conn_id.values()), "escaped": False}
            nodes_ = {str(me): n}
            for c in conn_id.values():
                nodes_[str(c)] = {"has": [0], "head": 0, "pool": [], "waiting": {str(me): False}, "backoff": {str(me): False},
                                  "inv": {str(me): []}, "fetching": [], "open": [me], "escaped": False}
            return {"nodes": nodes_, "chan": {}}
        tev = []
        skipped = 0
        for e in evs:
            if e["ev"] == "step":
                if e["stage"] == "idle":
                    continue
                m = cid(e["chosen"]) if e["chosen"] else sorted(conn_id.values())[0]
                tev.append({"a": "step", "n": me, "m": m, "compare": True, "settled": False, "only": me, "relays": [],
                            "post": proj(e["post"]), "msg": {"t": "none"}})
            else:
                mm = e["msg"]
                t = mm["type"]
                c = cid(e["peer"])
                if t == "GetBlocksMessage":
                    am = {"t": "GB", "loc": [id_of.get(h, -5) for h in mm["loc"]]}
                elif t == "InventoryMessage":
                    am = {"t": "INV", "items": [id_of.get(h, -5) for h in mm["items"]]}
                elif t == "GetDataMessage":
                    am = {"t": "GD", "b": id_of.get(mm["hash"], -5)}
                elif t == "DataMessage" and mm.get("data_type") == "Block":
                    am = {"t": "DATA", "b": id_of.get(mm["hash"], -5), "irt": mm["irt"] != 0}
                elif t == "DataMessage":
                    am = {"t": "TX", "x": 1}
                else:
                    skipped += 1
                    continue
                ev_ = {"a": "inject", "n": c, "m": me, "compare": True, "settled": False, "only": me, "relays": [],
                       "post": proj(e["post"]), "msg": am}
                if e.get("raised"):
                    ev_["post"]["nodes"][str(me)]["escaped"] = True
                tev.append(ev_)
        if tev:
            out.append(({"id": tid0 + ni, "events": tev}, parent, init, peers, {"node": node, "connections": conn_id, "skipped_non_sync_messages": skipped}))
    return out
