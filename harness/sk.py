"""Access to the repository under test: import from the *current working tree*, configure it by
assigning module attributes (no source change), build concrete objects for abstract descriptors,
and observe concrete objects back into abstract facts for TLC.
"""
import atexit
import hashlib
import os
import shutil
import sys
import tempfile

from . import indep

REPO = os.environ.get("VERIF_REPO") or "/repo"

_state = {"scratch": None}


class ConfigProbeError(Exception):
    pass


class Unrealisable(Exception):
    """The abstract candidate has no concrete counterpart (e.g. an id >= target when the target is 2^256-1)."""


def setup():
    """chdir into a fresh scratch directory (importing skepticoin.blockstore creates ./chain.db) and
    put the repository's working tree first on sys.path."""
    if _state["scratch"]:
        return _state["scratch"]
    d = tempfile.mkdtemp(prefix="skverif_")
    _state["scratch"] = d
    atexit.register(lambda: shutil.rmtree(d, ignore_errors=True))
    os.chdir(d)
    sys.dont_write_bytecode = True
    os.environ["PYTHONDONTWRITEBYTECODE"] = "1"
    os.environ.setdefault("SKEPTICOIN_VERIF", "1")
    if REPO not in sys.path:
        sys.path.insert(0, REPO)
    import contextlib
    import io
    with contextlib.redirect_stdout(io.StringIO()):
        import skepticoin.blockstore  # noqa: F401  (creates ./chain.db in the scratch directory, prints a line)
    _snapshot_module_state()
    return d


_PRISTINE = {}
_NAMES_AT_IMPORT = {}
_CONSENSUS_MODULES = ("skepticoin.consensus", "skepticoin.pow", "skepticoin.balances", "skepticoin.merkletree", "skepticoin.datatypes",
                      "skepticoin.serialization", "skepticoin.hash", "skepticoin.signing", "skepticoin.coinstate")


def _snapshot_module_state():
    """Module-level data of the consensus modules as it is right after import (before anything was computed): whatever a module keeps
    between calls -- the tree keeps nothing, a change might add a memo or a cache -- can be put back to this state between two runs of
    an exploration (reset_module_state), so that every run starts cold."""
    import copy
    import importlib
    import types
    for mn in _CONSENSUS_MODULES:
        try:
            m = importlib.import_module(mn)
        except Exception:
            continue
        snap = {}
        for k, v in list(vars(m).items()):
            if k.startswith("__") or callable(v) or isinstance(v, (types.ModuleType, type)):
                continue
            try:
                snap[k] = copy.deepcopy(v)
            except Exception:
                pass
        _PRISTINE[mn] = snap
        _NAMES_AT_IMPORT[mn] = set(vars(m))


def reset_module_state():
    import copy
    import importlib
    import types
    for mn, snap in _PRISTINE.items():
        m = importlib.import_module(mn)
        cur = vars(m)
        for k, v in snap.items():
            if k == "KNOWN_HASHES":
                continue                     # replaced by apply_cfg
            if k.isupper() and isinstance(v, (int, bytes, str, tuple, float, bool, type(None))):
                continue                     # a constant (possibly set to a model-sized value by apply_cfg)
            try:
                cur[k] = copy.deepcopy(v)
            except Exception:
                pass
        # names that did not exist at import time hold state created later: drop them so that the code re-creates them
        for k in [k for k, v in list(cur.items()) if k not in _NAMES_AT_IMPORT.get(mn, cur) and not k.startswith("__") and not callable(v)
                  and not isinstance(v, (types.ModuleType, type))]:
            del cur[k]


def scratch():
    return _state["scratch"] or setup()


class Cfg:
    """Model-sized configuration of the consensus constants (DESIGN.md section 5)."""

    def __init__(self, period=10080, timespan=1209600, max_future=30, initial_subsidy=10 * 100_000_000,
                 halving=1_050_000, max_money=2_099_999_986_350_000, horizon=-1, known=None, stub_scrypt=True):
        self.period = period
        self.timespan = timespan
        self.max_future = max_future
        self.initial_subsidy = initial_subsidy
        self.halving = halving
        self.max_money = max_money
        self.horizon = horizon
        self.known = known or {}
        self.stub_scrypt = stub_scrypt

    def scrypt(self):
        return indep.stub_scrypt if self.stub_scrypt else indep.real_scrypt

    def subsidy(self, h):
        return indep.subsidy(h, self.initial_subsidy, self.halving)


REAL_CONSTANTS = dict(period=10080, timespan=1209600, max_future=30, initial_subsidy=1_000_000_000,
                      halving=1_050_000, max_money=2_099_999_986_350_000)


def read_real_constants():
    """The constants as the working tree defines them (before any patching)."""
    setup()
    import importlib
    c = importlib.import_module("skepticoin.consensus")
    return dict(period=c.BLOCKS_BETWEEN_TARGET_READJUSTMENT, timespan=c.DESIRED_TARGET_READJUSTMENT_TIMESPAN,
                max_future=c.MAX_FUTURE_BLOCK_TIME, initial_subsidy=c.INITIAL_SUBSIDY,
                halving=c.SUBSIDY_HALVING_INTERVAL, max_money=c.MAX_SASHIMI)


_orig = {}


def apply_cfg(cfg):
    setup()
    import skepticoin.consensus as c
    if not _orig:
        for n in ("BLOCKS_BETWEEN_TARGET_READJUSTMENT", "DESIRED_TARGET_READJUSTMENT_TIMESPAN",
                  "MAX_FUTURE_BLOCK_TIME", "INITIAL_SUBSIDY", "SUBSIDY_HALVING_INTERVAL", "MAX_SASHIMI",
                  "MAX_KNOWN_HASH_HEIGHT", "KNOWN_HASHES", "scrypt"):
            _orig[n] = getattr(c, n)
    c.BLOCKS_BETWEEN_TARGET_READJUSTMENT = cfg.period
    c.DESIRED_TARGET_READJUSTMENT_TIMESPAN = cfg.timespan
    c.MAX_FUTURE_BLOCK_TIME = cfg.max_future
    c.INITIAL_SUBSIDY = cfg.initial_subsidy
    c.SUBSIDY_HALVING_INTERVAL = cfg.halving
    c.MAX_SASHIMI = cfg.max_money
    c.MAX_KNOWN_HASH_HEIGHT = cfg.horizon
    c.KNOWN_HASHES = dict(cfg.known)
    c.scrypt = cfg.scrypt()
    probe_cfg(cfg)


def restore_cfg():
    if _orig:
        import skepticoin.consensus as c
        for n, v in _orig.items():
            setattr(c, n, v)


def probe_cfg(cfg):
    """The patched constants must be observable through the public functions; otherwise the model-sized
    configuration is not in force and nothing may be concluded (machinery error, never a violation)."""
    import skepticoin.consensus as c
    probs = []
    if c.get_block_subsidy(0) != cfg.initial_subsidy or c.get_block_subsidy(cfg.halving) != cfg.initial_subsidy // 2:
        probs.append("subsidy constants not observable")
    t = (1 << 200).to_bytes(32, "big")
    if c.calculate_new_target(t, cfg.timespan) != t:
        probs.append("retarget timespan not observable")
    try:
        c.validate_sashimi_range(cfg.max_money)
    except Exception:
        probs.append("amount limit not observable (max accepted)")
    if c.scrypt(b"a", b"b") != cfg.scrypt()(b"a", b"b"):
        probs.append("scrypt stub not observable")
    if probs:
        raise ConfigProbeError("; ".join(probs))


# ----------------------------------------------------------------------------------------------
# keys

class Keys:
    def __init__(self, n=4):
        import ecdsa
        self.ecdsa = ecdsa
        self.sk = {}
        self.pub = {}
        self.by_pub = {}
        for k in range(1, n + 1):
            sk = ecdsa.SigningKey.from_secret_exponent(0x5eed0000 + k * 7919, curve=ecdsa.SECP256k1)
            self.sk[k] = sk
            self.pub[k] = sk.verifying_key.to_string()
            self.by_pub[self.pub[k]] = k
        self._vcache = {}

    def public_key(self, k):
        from skepticoin.signing import SECP256k1PublicKey
        return SECP256k1PublicKey(self.pub[k])

    def sign(self, k, message):
        return self.sk[k].sign_deterministic(message, hashfunc=hashlib.sha1)

    def alias_of_pub(self, pubkey_obj):
        return self.by_pub.get(getattr(pubkey_obj, "public_key", None), 0)

    def signer_of(self, sig_bytes, message):
        """Abstract key under which sig verifies over message (ecdsa library, independent of the repo); -1: none."""
        ck = (sig_bytes, message)
        if ck in self._vcache:
            return self._vcache[ck]
        res = -1
        for k, pub in self.pub.items():
            vk = self.ecdsa.VerifyingKey.from_string(pub, curve=self.ecdsa.SECP256k1)
            try:
                if vk.verify(sig_bytes, message):
                    res = k
                    break
            except Exception:
                pass
        self._vcache[ck] = res
        return res


# ----------------------------------------------------------------------------------------------
# exception -> rule tag of Ledger!FirstFailing

RULE_BY_MESSAGE = [
    ("hash >= target", "pow"),
    ("Block timestamp in the future", "future"),
    ("No transactions in block", "notx"),
    ("Block > MAX_BLOCK_SIZE", "size"),
    ("Coinbase transaction should have precisely 1 input", "cb_inputs"),
    ("Coinbase must create its value out of thin air", "cb_notnull"),
    ("A coinbase transaction should have CoinbaseData", "cb_nodata"),
    ("Random data > MAX_COINBASE_RANDOM_DATA_SIZE", "cb_datasize"),
    ("block.height != coinbase.height", "cb_height"),
    ("No inputs", "tx_noins"),
    ("No outputs", "tx_noouts"),
    ("transaction > MAX_BLOCK_SIZE", "tx_size"),
    ("Value out of range.", "tx_range"),
    ("Single output_reference referenced more than once", "tx_dupref"),
    ("Coinbase-like null-reference", "tx_nullref"),
    ("Non-signature Signature class", "tx_nosig"),
    ("Duplicate transaction.", "duptx"),
    ("Duplicate output_reference.", "dupref"),
    ("Incorrect merkle_root_hash", "merkle"),
    ("No forks allowed before block", "checkpoint"),
    ("previous_block_hash unknown", "parent"),
    ("Timestamps must be strictly increasing", "ts_order"),
    ("Block's reported target incorrect", "target"),
    ("POW Evidence incorrect", "evidence"),
    ("Block's reported height incorrect.", "height"),
    ("Transaction overspending (Coinbase)", "reward"),
    ("input's output_reference does not exist", "tx_missing"),
    ("Wrong signature for claimed output", "tx_sig"),
    ("Transaction overspending", "tx_overspend"),
]


def rule_of_exception(e):
    msg = str(e)
    if type(e).__name__ in ("KeyError", "IndexError", "OverflowError", "AttributeError", "TypeError",
                            "NotImplementedError", "AssertionError"):
        return "?"
    for m, r in RULE_BY_MESSAGE:
        if msg.startswith(m):
            return r
    return "?"


CLAMP = 100_000_000     # values above this are logged as CLAMP (TLC integers are 32-bit); needs max_money < CLAMP


class World:
    """Concrete chain universe for one behaviour: concretises abstract block descriptors (MC_Ledger.tla
    records) into real signed/mined objects and observes real objects back into facts for TraceLedger."""

    def __init__(self, cfg, keys, genesis_target=None, tag=b""):
        from skepticoin.datatypes import (Block, BlockHeader, BlockSummary, PowEvidence, Transaction, Input, Output,
                                          OutputReference)
        from skepticoin.signing import CoinbaseData, SECP256k1Signature, SignableEquivalent
        from skepticoin.coinstate import CoinState
        self.T = dict(Block=Block, BlockHeader=BlockHeader, BlockSummary=BlockSummary, PowEvidence=PowEvidence,
                      Transaction=Transaction, Input=Input, Output=Output, OutputReference=OutputReference,
                      CoinbaseData=CoinbaseData, SECP256k1Signature=SECP256k1Signature,
                      SignableEquivalent=SignableEquivalent, CoinState=CoinState)
        self.cfg = cfg
        self.keys = keys
        self.tag = tag
        self.by_abs = {}          # abstract block id -> Block
        self.tx_by_abs = {}       # abstract tx id -> Transaction
        self.info = {}            # block id bytes -> dict(block, parent, height, bytes)
        self.blk_alias = {}
        self.tx_alias = {}
        self.genesis_target = genesis_target or (b"\x80" + b"\x00" * 31)

    # ---- aliases
    def balias(self, h):
        if h == b"\x00" * 32:
            return -1
        if h not in self.blk_alias:
            self.blk_alias[h] = len(self.blk_alias)
        return self.blk_alias[h]

    def talias(self, h):
        if h not in self.tx_alias:
            self.tx_alias[h] = len(self.tx_alias) + 1
        return self.tx_alias[h]

    # ---- chain access for the evidence data flow
    def register(self, block):
        idb = indep.blockid(block)
        self.info[idb] = dict(block=block, parent=block.header.summary.previous_block_hash,
                              height=block.header.summary.height, bytes=indep.enc_block(block))
        return idb

    def chain_bytes(self, tip_hash, h):
        cur = tip_hash
        while True:
            inf = self.info[cur]          # KeyError: unknown ancestor
            if inf["height"] == h:
                return inf["bytes"]
            if inf["height"] < h or inf["parent"] == b"\x00" * 32:
                raise KeyError(h)
            cur = inf["parent"]

    def ancestor(self, tip_hash, h):
        cur = tip_hash
        while True:
            inf = self.info[cur]
            if inf["height"] == h:
                return inf["block"]
            if inf["height"] < h or inf["parent"] == b"\x00" * 32:
                raise KeyError(h)
            cur = inf["parent"]

    def expected_target(self, parent_block, ts):
        """The retargeting rule, computed independently from the parent's own ancestors."""
        ps = parent_block.header.summary
        h = ps.height + 1
        if h % self.cfg.period != 0:
            return ps.target
        start = self.ancestor(indep.blockid(parent_block), h - self.cfg.period)
        elapsed = ts - start.header.summary.timestamp
        if elapsed < 0:
            raise OverflowError("negative elapsed")
        return indep.new_target(ps.target, elapsed, self.cfg.timespan)

    # ---- building
    def coinbase(self, height, outs, data=b"", kind="cbdata", ref=None):
        T = self.T
        sig = T["CoinbaseData"](height, data) if kind == "cbdata" else T["SignableEquivalent"]()
        r = ref or T["OutputReference"](b"\x00" * 32, 0)
        return T["Transaction"]([T["Input"](r, sig)], [T["Output"](v, self.keys.public_key(k)) for (v, k) in outs])

    def mine(self, parent_hash, height, ts, target, txs, pow_ok=True, ev_ok=True, merkle_ok=True, nonce0=0, forge="", alt_tip=None, txids=None):
        """forge (only with ev_ok=False): "" = one bit of the evidence hash flipped; "summary_hash" = a coherent forgery whose
        summary hash is *not* scrypt of the summary (sample and evidence hash derived from it consistently);
        "sample" = wrong sample bytes with a consistent evidence hash."""
        T = self.T
        # (txids: the ids under which a receiver files the transactions when they arrive in another encoding than the canonical one)
        mr = indep.merkle_root(txids if txids is not None else [indep.txid(t) for t in txs]) if txs else b"\x11" * 32
        if not merkle_ok:
            mr = bytes([mr[0] ^ 1]) + mr[1:]
        scr = self.cfg.scrypt()
        if not pow_ok and int.from_bytes(target, "big") >= (1 << 256) - (1 << 200):
            raise Unrealisable("no id can reach a (nearly) maximal target")
        if pow_ok and int.from_bytes(target, "big") < (1 << 236):
            raise Unrealisable("target too small to mine in the harness")
        for nonce in range(nonce0, nonce0 + 100000):
            summary = T["BlockSummary"](height, parent_hash, mr, ts, target, nonce)
            try:
                sh, sample, bh = indep.evidence(summary, height, txs, lambda h: self.chain_bytes(parent_hash, h), scr)
            except (KeyError, ZeroDivisionError):
                sh = scr(indep.enc_summary(summary), height.to_bytes(8, "big"))
                sample, bh = b"\x00" * 32, indep.blake2(sh)
            if not ev_ok and forge == "summary_hash":
                sh = indep.blake2(b"cheap" + indep.enc_summary(summary))
                try:
                    sh, sample, bh = indep.evidence(summary, height, txs, lambda h: self.chain_bytes(parent_hash, h), lambda a, b_: sh)
                except (KeyError, ZeroDivisionError):
                    sample, bh = b"\x00" * 32, indep.blake2(sh + b"\x00" * 32 + indep.enc_txlist(txs))
            elif not ev_ok and forge == "otherchain" and alt_tip is not None:
                # a coherent forgery whose chain sample is cut from another stored chain (blocks that are not this block's ancestors)
                proper = sample
                try:
                    sh, sample, bh = indep.evidence(summary, height, txs, lambda h: self.chain_bytes(alt_tip, h), scr)
                except (KeyError, ZeroDivisionError):
                    sample = proper
                if sample == proper:
                    if nonce < nonce0 + 300:
                        continue                 # this nonce samples below the fork point: try another one
                    bh = bytes([bh[0] ^ 1]) + bh[1:]
            elif not ev_ok and forge == "sample_only":
                # only the stated chain sample differs from the recomputed one; the evidence hash is the one of the proper evidence
                sample = bytes([sample[0] ^ 0x10]) + sample[1:]
            elif not ev_ok and forge == "summary_hash_only":
                sh = bytes([sh[0] ^ 0x10]) + sh[1:]
            elif not ev_ok and forge == "sample":
                sample = bytes([sample[0] ^ 0x10]) + sample[1:]
                bh = indep.blake2(sh + sample + indep.enc_txlist(txs))
            elif not ev_ok:
                bh = bytes([bh[0] ^ 1]) + bh[1:]
            hdr = T["BlockHeader"](summary, T["PowEvidence"](sh, sample, bh))
            if (indep.sha256d(indep.enc_header(hdr)) < target) == pow_ok:
                return T["Block"](hdr, txs)
        raise RuntimeError("mining failed")

    def make_genesis(self, miner=1, ts=10):
        cb = self.coinbase(0, [(self.cfg.subsidy(0), miner)], data=b"g" + self.tag)
        g = self.mine(b"\x00" * 32, 0, ts, self.genesis_target, [cb])
        self.register(g)
        self.by_abs[0] = g
        self.tx_by_abs[0] = cb
        return g

    def concretise_tx(self, d):
        """Ordinary transaction from an MC_Ledger descriptor (fields id, ins, outs, mut)."""
        T = self.T
        refs = []
        for i in d["ins"]:
            r = i["ref"]
            if r["tx"] == -1:
                refs.append(T["OutputReference"](b"\x00" * 32, 0))
            elif r["tx"] in self.tx_by_abs:
                refs.append(T["OutputReference"](indep.txid(self.tx_by_abs[r["tx"]]), r["idx"]))
            else:
                refs.append(T["OutputReference"](indep.sha256d(b"ghost%d" % r["tx"]), r["idx"]))
        outs = [T["Output"](o["v"], self.keys.public_key(o["k"])) for o in d["outs"]]
        mut = d.get("mut", "")
        unsigned = T["Transaction"]([T["Input"](r, T["SignableEquivalent"]()) for r in refs], outs)
        msg = indep.sign_message(unsigned)
        ins = []
        for n, (i, r) in enumerate(zip(d["ins"], refs)):
            kind, signer = i["kind"], i["signer"]
            if kind == "blank":
                sig = T["SignableEquivalent"]()
            elif kind == "cbdata":
                sig = T["CoinbaseData"](max(i.get("cbh", 0), 0), b"")
            elif signer > 0:
                sig = T["SECP256k1Signature"](self.keys.sign(signer, msg))
            else:
                owner = d.get("_owner", {}).get(n, 1)
                if mut == "sig_outs" and outs:
                    alt_outs = [T["Output"](outs[0].value, self.keys.public_key(1 + (d["outs"][0]["k"] % len(self.keys.pub))))] + outs[1:]
                    alt = T["Transaction"](unsigned.inputs, alt_outs)
                    sig = T["SECP256k1Signature"](self.keys.sign(owner, self._premsg(alt, d)))
                elif mut == "sig_refs":
                    alt_refs = [T["OutputReference"](refs[0].hash, refs[0].index + 1)] + refs[1:]
                    alt = T["Transaction"]([T["Input"](x, T["SignableEquivalent"]()) for x in alt_refs], outs)
                    sig = T["SECP256k1Signature"](self.keys.sign(owner, self._premsg(alt, d)))
                elif mut in ("ghost", "spent", "otherfork", "nullref", "sameblock"):
                    sig = T["SECP256k1Signature"](self.keys.sign(owner, msg))
                else:
                    sig = T["SECP256k1Signature"](indep.sha256d(b"garbage" + msg) * 2)
            ins.append(T["Input"](r, sig))
        return T["Transaction"](ins, outs)

    def _premsg(self, alt, d):
        """Message signed *before* the adversary alters the transaction: half of the cases use the node's own
        notion of the signable message (so a node whose message omits a part accepts the altered transaction),
        the other half the independently encoded full message."""
        if (d["id"] + len(d["outs"])) % 2 == 0:
            try:
                return alt.signable_equivalent().serialize()
            except Exception:
                pass
        return indep.sign_message(alt)

    def concretise(self, d, owners=None):
        """Block from an MC_Ledger descriptor.  Only the defect the descriptor names is present."""
        T = self.T
        mut = d.get("mut", "")
        if d["parent"] in self.by_abs:
            parent = self.by_abs[d["parent"]]
            parent_hash = indep.blockid(parent)
        else:
            parent = None
            parent_hash = indep.sha256d(b"orphan-parent%d" % d["parent"])
        txs = []
        for pos, td in enumerate(d["txs"]):
            ins = td["ins"]
            is_cb_like = len(ins) >= 1 and ins[0]["kind"] == "cbdata" and ins[0]["ref"]["tx"] == -1
            if pos == 0 and (is_cb_like or mut in ("cb_blank", "cb_realref", "cb_bigdata")) or (mut == "two_rewards" and pos == 1):
                i0 = ins[0]
                data = td.get("_data") if td.get("_data") is not None else (b"b%d.%d" % (d["id"], td["id"])) + self.tag
                if not i0["small"]:
                    data = data + b"x" * (201 - len(data))
                ref = None
                if i0["ref"]["tx"] != -1:
                    ref = T["OutputReference"](indep.sha256d(b"ghost%d" % i0["ref"]["tx"]), i0["ref"]["idx"])
                t = self.coinbase(max(i0["cbh"], 0), [(o["v"], o["k"]) for o in td["outs"]], data=data,
                                  kind=i0["kind"], ref=ref)
            else:
                if owners:
                    td = dict(td, _owner=owners.get(pos, {}))
                t = self.concretise_tx(td)
            txs.append(t)
            self.tx_by_abs[td["id"]] = t
        if parent is not None:
            try:
                exp = self.expected_target(parent, d["ts"])
            except Exception:
                exp = parent.header.summary.target
        else:
            exp = self.genesis_target
        target = exp
        if mut == "target_otherchain" and parent is not None and d.get("altstart", -1) in self.by_abs:
            alt = self.by_abs[d["altstart"]]
            el = d["ts"] - alt.header.summary.timestamp
            if el >= 0:
                target = indep.new_target(parent.header.summary.target, el, self.cfg.timespan)
        if mut == "badtarget":
            v = (int.from_bytes(exp, "big") + 1) % (1 << 256)
            target = v.to_bytes(32, "big")
        forge, alt_tip = ["", "summary_hash", "sample", "sample_only", "summary_hash_only"][(d["id"] + d["ts"]) % 5], None
        if mut == "evidence_otherchain" and d.get("alt_tip", -1) in self.by_abs:
            forge, alt_tip = "otherchain", indep.blockid(self.by_abs[d["alt_tip"]])
        blk = self.mine(parent_hash, d["height"], d["ts"], target, txs, pow_ok=d["powok"], ev_ok=d["evok"],
                        merkle_ok=d["merkleok"], forge=forge, alt_tip=alt_tip)
        self.by_abs[d["id"]] = blk
        self.register(blk)
        return blk

    # ---- observing
    def observe_tx(self, t):
        msg = indep.sign_message(t)
        ins = []
        for i in t.inputs:
            kind = indep.sig_kind(i.signature)
            signer, cbh, small = -1, -1, True
            if kind == "secp":
                signer = self.keys.signer_of(i.signature.signature, msg)
            elif kind == "cbdata":
                cbh = i.signature.height if i.signature.height < (1 << 31) else (1 << 31) - 1
                small = len(i.signature.signature) <= 200
            r = i.output_reference
            ref = {"tx": -1, "idx": 0} if (r.hash == b"\x00" * 32 and r.index == 0) else \
                {"tx": self.talias(r.hash), "idx": min(r.index, (1 << 31) - 1)}
            ins.append({"ref": ref, "kind": kind, "signer": signer, "cbh": cbh, "small": small})
        outs = [{"v": min(o.value, CLAMP), "k": self.keys.alias_of_pub(o.public_key)} for o in t.outputs]
        return {"id": self.talias(indep.txid(t)), "ins": ins, "outs": outs, "sizeok": len(indep.enc_tx(t)) <= 200_000}

    def observe(self, block):
        """Facts about a concrete block, computed independently of the repository's validation code."""
        s = block.header.summary
        e = block.header.pow_evidence
        txs = list(block.transactions)
        idb = indep.blockid(block)
        try:
            mr_ok = bool(txs) and indep.merkle_root([indep.txid(t) for t in txs]) == s.merkle_root_hash
        except Exception:
            mr_ok = False
        try:
            ev = indep.evidence(s, s.height, txs, lambda h: self.chain_bytes(s.previous_block_hash, h), self.cfg.scrypt())
            ev_ok = ev == (e.summary_hash, e.chain_sample, e.block_hash)
        except Exception:
            ev_ok = False
        return {"id": self.balias(block.hash()), "parent": self.balias(s.previous_block_hash),
                "height": s.height, "ts": s.timestamp, "target": list(s.target), "idb": list(idb),
                "evok": ev_ok, "merkleok": mr_ok, "sizeok": len(indep.enc_block(block)) <= 200_000,
                "txs": [self.observe_tx(t) for t in txs]}

    # ---- projecting a CoinState
    def project(self, cs, full=True, only=None, bal=False, wallet_keys=None):
        ids = list(cs.block_by_hash.keys())
        sel = ids if full else [h for h in ids if only and h in only]
        utxo = []
        index = []
        bals = []
        for h in sel:
            rows = sorted([self.talias(r.hash), r.index, min(o.value, CLAMP), self.keys.alias_of_pub(o.public_key)]
                          for r, o in cs.unspent_transaction_outs_by_hash[h].items())
            utxo.append([self.balias(h), rows])
            idx = cs.block_by_height_by_hash[h] if h in cs.block_by_height_by_hash else {}
            hs = sorted(idx.keys())
            index.append([self.balias(h), [self.balias(idx[x].hash()) for x in hs]] if hs == list(range(len(hs)))
                         else [self.balias(h), [-2]])
            if bal:
                try:
                    pk = cs.public_key_balances_by_hash[h]
                    rows = sorted([self.keys.alias_of_pub(k), min(v.value, CLAMP),
                                   [[self.talias(r.hash), r.index] for r in v.output_references]]
                                  for k, v in pk.items() if v.output_references or v.value)
                except Exception:          # the node cannot report balances at this block: observed as such
                    rows = [[-2, 0, []]]
                bals.append([self.balias(h), rows])
        # forks() walks parent links by claimed heights: only defined (and terminating) on trees whose heights are
        # parent + 1 throughout -- the domain of C04.  Elsewhere (blocks below the checkpoint horizon) it is not called.
        consistent = all(b.previous_block_hash == b"\x00" * 32 or
                         (b.previous_block_hash in cs.block_by_hash and cs.block_by_hash[b.previous_block_hash].height + 1 == b.height
                          and b.hash() == h_)
                         for h_, b in cs.block_by_hash.items())
        if consistent:
            try:
                forks = sorted([self.balias(t.hash()), self.balias(l.hash())] for (t, l) in cs.forks())
            except Exception:
                forks = [[-2, -2]]
        else:
            forks = [[t_, t_] for t_ in sorted(self.balias(h) for h in cs.heads.keys())]
        p = {"n": len(ids), "forks": forks, "forks_defined": consistent, "head": self.balias(cs.current_chain_hash) if cs.current_chain_hash else -1,
             "tips": sorted(self.balias(h) for h in cs.heads.keys()),
             "utxo": utxo, "index": index, "bal": bals, "walletbal": -1, "walletkeys": []}
        return p
