"""Driving the send side of one real ConnectedRemotePeer (send_message / handle_can_send) along SendPath behaviours.

Two real threads ("net" and "miner") execute the repository's functions under sys.settrace; each is stopped before the source
lines that SendPath names (S1..S4, H1..H6) and released one line at a time in the order a TLC behaviour dictates -- a forced
schedule of a real two-thread execution (a thread switch is possible between any two byte codes, so every such schedule is one
the interpreter may produce).  The transport is an in-memory socket that accepts exactly the number of bytes the behaviour says.

A step that the code does not allow as dictated (the thread blocks on a lock the other one holds, or is not at the expected
line) makes the schedule *infeasible for this code*: both threads are then left to finish on their own and the remaining calls
are made one after the other; the outcome is judged all the same.
"""
import inspect
import logging
import re
import selectors
import sys
import threading

from . import fakenet

S_PATTERNS = {
    "S1": r"self\.send_backlog\.append\(",
    "S2": r"if\s+len\(self\.send_buffer\)\s*==\s*0",
    "S3": r"self\.send_buffer\s*=\s*self\.send_backlog\.pop\(0\)",
    "S4": r"self\.start_sending\(\)",
}
H_PATTERNS = {
    "H1": r"sock\.send\(self\.send_buffer\)",
    "H2": r"self\.send_buffer\s*=\s*self\.send_buffer\[sent:\]",
    "H3": r"if\s+len\(self\.send_buffer\)\s*(==|>)\s*0",
    "H4": r"if\s+len\(self\.send_backlog\)\s*==\s*0",
    "H5": r"self\.stop_sending\(\)",
    "H6": r"self\.send_buffer\s*=\s*self\.send_backlog\.pop\(0\)",
}


class Unmappable(Exception):
    """The source lines SendPath names cannot be located (the functions were restructured)."""


def _unwrap(fn):
    while hasattr(fn, "__wrapped__"):
        fn = fn.__wrapped__
    return fn


def stop_points():
    """-> {(code object, line number): label} for the current tree; raises Unmappable."""
    import skepticoin.networking.remote_peer as rp
    stops = {}
    for fn, pats in ((rp.ConnectedRemotePeer.send_message, S_PATTERNS), (rp.ConnectedRemotePeer.handle_can_send, H_PATTERNS)):
        fn = _unwrap(fn)
        lines, first = inspect.getsourcelines(fn)
        for label, pat in pats.items():
            hits = [first + i for i, l in enumerate(lines) if re.search(pat, l) and not l.strip().startswith("#")]
            if len(hits) != 1:
                raise Unmappable("%s: pattern for %s matches %d lines" % (fn.__name__, label, len(hits)))
            stops[(fn.__code__, hits[0])] = label
    return stops


class ChunkSocket(fakenet.FakeSocket):
    """send() accepts at most `next_k` bytes (None: everything)."""

    def __init__(self):
        super().__init__()
        self.next_k = None
        self.calls = 0
        self.full = False      # a short write means the transport's buffer is full: until the selector reports the socket writable again
                               # (writable()), a further send() fails with EAGAIN, as on a non-blocking socket

    def writable(self):
        self.full = False

    def send(self, data):
        if self.closed:
            raise OSError(9, "Bad file descriptor")
        self.calls += 1
        if self.full and len(data):
            raise BlockingIOError(11, "Resource temporarily unavailable")
        k = len(data) if self.next_k is None else min(self.next_k, len(data))
        self.sent += data[:k]
        self.full = k < len(data)
        return k


class _LP:
    """What ConnectedRemotePeer needs of its LocalPeer on the send side."""

    def __init__(self):
        self.selector = fakenet.FakeSelector()
        self.logger = logging.getLogger("skepticoin.networking.sendpath")
        self.logger.setLevel(logging.CRITICAL)
        self.logger.propagate = False
        self.port = 2412
        self.nonce = 7


_BY_THREAD = {}


class WatchLock:
    """Stands in for a lock attribute of the object under test: same behaviour, but a stepped thread that is about to block on it
    reports so at once (otherwise the controller would have to wait for a time-out to learn that a dictated step cannot happen)."""

    def __init__(self, inner):
        self.inner = inner

    def acquire(self, blocking=True, timeout=-1):
        if self.inner.acquire(False):
            return True
        st = _BY_THREAD.get(threading.get_ident())
        if st is not None:
            st.mark_blocked()
        if not blocking:
            return False
        return self.inner.acquire(True, timeout)

    def release(self):
        return self.inner.release()

    def __enter__(self):
        self.acquire()
        return self

    def __exit__(self, *a):
        self.release()


def pause_here(label):
    """Call-level stop point: called (from a wrapper around a collaborator's method) on a stepped thread, it parks the thread exactly
    like a line stop with this label.  On any other thread it does nothing."""
    st = _BY_THREAD.get(threading.get_ident())
    if st is None or st.free or not st.call_stops:
        return
    with st.cv:
        if st.state == "blocked":
            st.state = "running"
        st.nstops += 1
        st.state = "at:" + label
        st.cv.notify_all()
        while st.permit == 0 and not st.free:
            st.cv.wait()
        if st.permit:
            st.permit -= 1
        st.state = "running"


def stepped_name():
    st = _BY_THREAD.get(threading.get_ident())
    return st.name if st is not None else None


def watch_locks(obj):
    """Replace every lock-valued attribute of obj by a WatchLock; -> names replaced."""
    kinds = (type(threading.Lock()), type(threading.RLock()))
    names = [k for k, v in vars(obj).items() if isinstance(v, kinds)]
    for k in names:
        setattr(obj, k, WatchLock(getattr(obj, k)))
    return names


class Stepped:
    """A worker thread that runs jobs under a line tracer and can be advanced from stop point to stop point."""

    WAIT = 1.5          # seconds a released thread gets to reach its next stop point before it counts as blocked

    def __init__(self, name, stops, every_line_in=None):
        """stops: {(code, line): label}.  every_line_in: iterable of file-name suffixes -- stop before *every* line executed in those
        source files (label "L"), for preemption-point exploration when the interesting lines are not known in advance."""
        self.name = name
        self.stops = stops
        self.codes = {c for (c, _) in stops}
        self.files = tuple(every_line_in or ())
        self.nstops = 0
        self.call_stops = False        # set by drivers that install call-level stop points (pause_here)
        self.cv = threading.Condition()
        self.job = None
        self.state = "idle"            # idle | running | at:<label> | dead
        self.permit = 0
        self.free = False              # free-run: no more stops
        self.exc = None
        self.quit = False
        self._last = None
        self.thread = threading.Thread(target=self._main, name="stepped-" + name, daemon=True)
        self.thread.start()

    # ---- worker side
    def _tracer(self, frame, event, arg):
        if frame.f_code in self.codes or (self.files and frame.f_code.co_filename.endswith(self.files)):
            return self._local
        return None

    def _local(self, frame, event, arg):
        if event == "line" and not self.free:
            label = self.stops.get((frame.f_code, frame.f_lineno))
            if label is None and self.files and frame.f_code.co_filename.endswith(self.files):
                label = "L"
                self._last = None
            if label is not None and self._last == (id(frame), label):
                label = None               # a statement spanning several lines comes back to its first line for the call itself
            if label is not None:
                self._last = (id(frame), label)
                with self.cv:
                    if self.state == "blocked":       # got the lock after all: the controller has given up on the schedule by now
                        self.state = "running"
                    self.nstops += 1
                    self.state = "at:" + label
                    self.cv.notify_all()
                    while self.permit == 0 and not self.free:
                        self.cv.wait()
                    if self.permit:
                        self.permit -= 1
                    self.state = "running"
        return self._local

    def mark_blocked(self):
        with self.cv:
            if self.state == "running":
                self.state = "blocked"
                self.cv.notify_all()

    def _main(self):
        _BY_THREAD[threading.get_ident()] = self
        sys.settrace(self._tracer)
        while True:
            with self.cv:
                while self.job is None and not self.quit:
                    self.cv.wait()
                if self.quit:
                    return
                job = self.job
                self.state = "running"
            try:
                job()
            except BaseException as e:      # noqa: B902  (an exception of the code under test is an observation)
                self.exc = e
            with self.cv:
                self.job = None
                self.state = "idle"
                self.cv.notify_all()
            if self.quit:
                _BY_THREAD.pop(threading.get_ident(), None)
                return

    # ---- controller side
    def _await(self, pred, timeout):
        with self.cv:
            return self.cv.wait_for(pred, timeout)

    def submit(self, job):
        """Start a job; -> "at:<label>" / "idle" (finished without a stop) / "blocked"."""
        with self.cv:
            assert self.job is None
            self.job = job
            self.state = "running"
            self.cv.notify_all()
        ok = self._await(lambda: self.state != "running", self.WAIT)
        return self.state if ok else "blocked"

    def advance(self):
        """Release the thread from its stop point; -> the next state or "blocked"."""
        with self.cv:
            self.permit += 1
            self.state = "running"
            self.cv.notify_all()
        ok = self._await(lambda: self.state != "running", self.WAIT)
        return self.state if ok else "blocked"

    def run_free(self):
        with self.cv:
            self.free = True
            self.cv.notify_all()

    def wait_idle(self, timeout=10):
        return self._await(lambda: self.job is None, timeout)

    def unfree(self):
        with self.cv:
            self.free = False
            self.permit = 0

    def stop(self):
        with self.cv:
            self.quit = True
            self.free = True
            self.cv.notify_all()
        self.thread.join(2)


class SendRun:
    """One real ConnectedRemotePeer + ChunkSocket; frames are real messages of the given byte lengths."""

    def __init__(self, lens, tid=1):
        import skepticoin.networking.remote_peer as rp
        from skepticoin.networking.messages import InventoryMessage, InventoryItem, DATA_BLOCK
        self.rp = rp
        self.tid = tid
        self.lp = _LP()
        self.sock = ChunkSocket()
        rp.time = fakenet.Clock()
        self.peer = rp.ConnectedRemotePeer(self.lp, "10.0.0.2", 5000, "INCOMING", None, self.sock, ban_score=0)
        self.lp.selector.register(self.sock, selectors.EVENT_READ, data=self.peer)
        self.locks = watch_locks(self.peer)
        # frame f is an inventory of lens[f] items: distinct sizes and contents, so that a frame is recognisable on the wire
        self.msgs = {f + 1: InventoryMessage([InventoryItem(DATA_BLOCK, bytes([f + 1]) * 32) for _ in range(n)]) for f, n in enumerate(lens)}
        from skepticoin.networking.messages import MessageHeader
        hl = len(MessageHeader(0, 1, 0, 0).serialize())
        self.real_lens = [8 + hl + len(self.msgs[f + 1].serialize()) for f in range(len(lens))]
        self.events = []
        self.queued_calls = []           # frames in the order send_message was *called*
        self.infeasible = None

    def interest(self):
        key = self.lp.selector.get_map().get(self.sock)
        return bool(key and key.events & selectors.EVENT_WRITE)

    def post(self):
        return {"buf": len(self.peer.send_buffer), "backlog": len(self.peer.send_backlog), "interest": self.interest(), "wire": len(self.sock.sent)}

    def send(self, f):
        """The whole of send_message(frame f) (one call, no stepping)."""
        self.queued_calls.append(f)
        self.peer.send_message(self.msgs[f])

    def can_send(self, ks):
        """One EVENT_WRITE: handle_can_send with the transport accepting ks[0], ks[1], ... bytes on successive send() calls."""
        seq = list(ks)
        sock = self.sock
        orig = sock.send

        def send(data):
            sock.next_k = seq.pop(0) if seq else None
            return ChunkSocket.send(sock, data)
        sock.send = send
        sock.writable()
        try:
            self.peer.handle_can_send(sock)
        finally:
            del sock.send
            sock.next_k = None

    def settle(self, limit=10000):
        n = 0
        while self.interest() and n < limit:
            self.sock.writable()
            self.peer.handle_can_send(self.sock)
            n += 1

    def final(self):
        """What a reader of the stream sees, as frame numbers; torn = the stream is not a sequence of complete frames."""
        import io
        import struct
        from skepticoin.networking.messages import MessageHeader, Message
        b = self.sock.sent
        pos, frames, torn = 0, [], False
        while pos < len(b):
            if len(b) - pos < 8 or b[pos:pos + 4] != b"MAJI":
                torn = True
                break
            (n,) = struct.unpack(">I", b[pos + 4:pos + 8])
            if len(b) - pos - 8 < n:
                torn = True
                break
            try:
                fo = io.BytesIO(b[pos + 8:pos + 8 + n])
                MessageHeader.stream_deserialize(fo)
                m = Message.stream_deserialize(fo)
                if fo.read():
                    raise ValueError("trailing bytes")
                items = m.items
                f = items[0].hash[0] if items else 0
                if any(i.hash != bytes([f]) * 32 for i in items) or self.msgs.get(f) is None or len(self.msgs[f].items) != len(items):
                    raise ValueError("not one of the frames sent")
                frames.append(f)
            except Exception:
                torn = True
                break
            pos += 8 + n
        return {"frames": frames, "torn": torn, "pending": len(self.peer.send_buffer) + sum(len(x) for x in self.peer.send_backlog),
                "interest": self.interest()}


def replay_sequential(lens, ops, tid):
    """ops: [["send", f] | ["cansend", [k1, k2, ...]]] in one thread -> trace for TraceSendPath."""
    run = SendRun(lens, tid)
    exc = None
    for op in ops:
        try:
            if op[0] == "send":
                run.send(op[1])
            elif run.interest():
                run.can_send(op[1])
            else:
                run.events.append({"a": "skip", "f": 0, "ks": [], "post": run.post()})
                continue
        except Exception as e:
            exc = repr(e)
        run.events.append({"a": op[0], "f": op[1] if op[0] == "send" else 0, "ks": op[1] if op[0] == "cansend" else [], "post": run.post()})
    try:
        run.settle()
    except Exception as e:
        exc = exc or repr(e)
    return {"id": tid, "mode": "seq", "lens": run.real_lens, "sent": run.queued_calls, "events": run.events, "final": run.final(),
            "exc": exc or "", "feasible": True, "miner": []}


def replay_calls(lens, net_frames, miner_frames, hist, tid):
    """A serial behaviour of SendPath (Locked: every call is one critical section) as whole calls: send_message from the thread the
    behaviour names (the miner's on a second real thread), handle_can_send with the behaviour's chunking.  Needs no source-line mapping.
    -> trace for TraceSendPath, judged like a two-thread schedule (final state)."""
    import threading
    run = SendRun(lens, tid)
    todo = {"net": list(net_frames), "miner": list(miner_frames)}
    calls = []
    for st in hist:
        if st["a"] == "send":
            if todo[st["t"]]:
                calls.append(["send", st["t"], todo[st["t"]].pop(0)])
        elif st["a"] == "cansend":
            calls.append(["cansend", st["t"], []])
        elif st["a"] == "H1" and calls and calls[-1][0] == "cansend":
            calls[-1][2].append(10 ** 6 if st["k"] >= st.get("n", 0) else st["k"])
    exc = ""
    for cl in calls:
        err = []

        def job(cl=cl):
            try:
                if cl[0] == "send":
                    run.send(cl[2])
                elif run.interest():
                    run.can_send(cl[2])
            except Exception as e:      # an exception of the code under test is an observation
                err.append(repr(e))
        if cl[1] == "miner":
            th = threading.Thread(target=job, daemon=True)
            th.start()
            th.join(10)
            if th.is_alive():
                err.append("the miner thread's send_message did not return")
        else:
            job()
        if err and not exc:
            exc = err[0]
    try:
        for t in ("net", "miner"):
            while todo[t]:
                run.send(todo[t].pop(0))
        run.settle()
    except Exception as e:
        exc = exc or repr(e)
    return {"id": tid, "mode": "sched", "lens": list(lens), "sent": run.queued_calls, "events": [], "final": run.final(), "exc": exc,
            "feasible": True, "why": "", "executed": len(calls), "miner": list(miner_frames), "calls": calls}


def replay_schedule(lens, net_frames, miner_frames, hist, tid, stops):
    """hist: [{t, a, k}] from MC_SendPath (a in send / cansend / S1.. / H1..) -> trace for TraceSendPath (final state judged)."""
    run = SendRun(lens, tid)
    thr = {"net": Stepped("net", stops), "miner": Stepped("miner", stops)}
    todo = {"net": list(net_frames), "miner": list(miner_frames)}
    feasible, why = True, ""
    executed = 0
    sock = run.sock

    def job_send(f):
        run.queued_calls.append(f)
        return lambda: run.peer.send_message(run.msgs[f])

    def job_cansend():
        def j():
            sock.writable()
            run.peer.handle_can_send(sock)
        return j

    try:
        for i, st in enumerate(hist):
            t, a, k = st["t"], st["a"], st["k"]
            T = thr[t]
            if a == "send":
                if not todo[t]:
                    feasible, why = False, "no frame left for %s" % t
                    break
                f = todo[t].pop(0)
                s = T.submit(job_send(f))
                want = "at:S1"
            elif a == "cansend":
                if not run.interest():
                    feasible, why = False, "step %d: no write interest registered, the selector would not report the socket" % i
                    break
                s = T.submit(job_cansend())
                want = "at:H1"
            else:
                if T.state != "at:" + a:
                    feasible, why = False, "step %d: %s is at %s, not at %s" % (i, t, T.state, a)
                    break
                if a == "H1":
                    # the behaviour's frames are a few abstract bytes long: "everything that is in the buffer" stays that, a proper
                    # part becomes that many real bytes
                    sock.next_k = None if k >= st.get("n", 0) else k
                s = T.advance()
                want = None
            if s == "blocked":
                feasible, why = False, "step %d (%s %s): the thread blocks (a lock is held by the other thread)" % (i, t, a)
                break
            if want is not None and s != want:
                feasible, why = False, "step %d (%s %s): reached %s instead of %s" % (i, t, a, s, want)
                break
            executed += 1
    finally:
        # leave both threads to finish whatever they are in, then make the remaining calls one after the other
        sock.next_k = None
        for T in thr.values():
            T.run_free()
        for T in thr.values():
            T.wait_idle(10)
        excs = [repr(T.exc) for T in thr.values() if T.exc is not None]
        for T in thr.values():
            T.stop()
    exc = excs[0] if excs else ""
    try:
        for t in ("net", "miner"):
            while todo[t]:
                run.send(todo[t].pop(0))
        run.settle()
    except Exception as e:
        exc = exc or repr(e)
    return {"id": tid, "mode": "sched", "lens": list(lens), "sent": run.queued_calls, "events": [], "final": run.final(), "exc": exc,
            "feasible": feasible, "why": why, "executed": executed, "miner": list(miner_frames)}


def stress(n_trials, n_msgs, tid0=0):
    """Unforced real threads: one keeps calling handle_can_send while write interest is registered, the other sends; -> one trace
    per trial (mode "sched", outcome only).  Detection is probabilistic; a reported stall or loss is a definite bad final state."""
    import time
    old = sys.getswitchinterval()
    sys.setswitchinterval(1e-6)
    out = []
    try:
        for i in range(n_trials):
            run = SendRun([1, 1, 1], tid0 + i + 1)
            stop = [False]
            errs = []

            def net():
                while not stop[0]:
                    if run.interest():
                        try:
                            run.peer.handle_can_send(run.sock)
                        except Exception as e:      # an exception of the code under test is an observation
                            errs.append(repr(e))
                            return

            def miner():
                for j in range(n_msgs):
                    f = 1 + j % 3
                    run.queued_calls.append(f)
                    try:
                        run.peer.send_message(run.msgs[f])
                    except Exception as e:
                        errs.append(repr(e))
                        return
            t1 = threading.Thread(target=net, daemon=True)
            t2 = threading.Thread(target=miner, daemon=True)
            t1.start()
            t2.start()
            t2.join(30)
            deadline = time.time() + 2
            while time.time() < deadline and run.interest() and t1.is_alive():
                time.sleep(0.001)
            stop[0] = True
            t1.join(5)
            out.append({"id": run.tid, "mode": "sched", "lens": [1, 1, 1], "sent": run.queued_calls, "events": [], "final": run.final(),
                        "exc": errs[0] if errs else "", "feasible": True, "why": "free-running threads", "executed": n_msgs,
                        "miner": [1, 2, 3]})
    finally:
        sys.setswitchinterval(old)
    return out
