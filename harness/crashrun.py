"""Subprocess body for crash-point enumeration of a file save.

usage: crashrun.py <repo> <mode> <crash_at>      (cwd = scratch dir holding the old file)
mode: wallet | peers.  Every boundary of the save (open, each write that reaches the OS, close, replace) is
numbered; the process dies with os._exit(9) *before* performing boundary number <crash_at> (for a write: after
half of its bytes), exactly as a killed process would -- data still in user-space buffers is lost.
crash_at = 0: run to completion and print the number of boundaries."""
import builtins
import io
import os
import sys

repo, mode, crash_at = sys.argv[1], sys.argv[2], int(sys.argv[3])
sys.path.insert(0, repo)
sys.dont_write_bytecode = True
count = [0]
armed = [False]


def boundary(partial=None):
    if not armed[0]:
        return
    count[0] += 1
    if count[0] == crash_at:
        if partial is not None:
            partial()
        os._exit(9)


real_open = builtins.open
real_replace = os.replace
real_rename = os.rename


class RawProxy(io.RawIOBase):
    """Unbuffered file whose every OS-level write is a boundary; wrapped by the normal buffered/text layers."""

    def __init__(self, path, flags):
        boundary()
        self.fd = os.open(path, flags, 0o666)

    def writable(self):
        return True

    def write(self, b):
        b = bytes(b)
        boundary(lambda: os.write(self.fd, b[:len(b) // 2]))
        os.write(self.fd, b)
        return len(b)

    def close(self):
        if not self.closed:
            boundary()
            os.close(self.fd)
            super().close()


def patched_open(path, mode="r", *a, **kw):
    if armed[0] and isinstance(path, str) and ("w" in mode or "a" in mode or "+" in mode):
        flags = os.O_WRONLY | os.O_CREAT | (os.O_TRUNC if "w" in mode else 0) | (os.O_APPEND if "a" in mode else 0)
        raw = RawProxy(path, flags)
        buf = io.BufferedWriter(raw)
        if "b" in mode:
            return buf
        return io.TextIOWrapper(buf)
    return real_open(path, mode, *a, **kw)


def patched_replace(a, b):
    boundary()
    return real_replace(a, b)


def patched_rename(a, b):
    boundary()
    return real_rename(a, b)


builtins.open = patched_open
os.replace = patched_replace
os.rename = patched_rename

if mode.endswith("_limit"):
    # an operating-system fault instead of a crash: the file system accepts only <crash_at> bytes per file (RLIMIT_FSIZE; a write beyond it is
    # cut short, then fails with EFBIG) -- a full disk, a quota.  The save may fail; the file it replaces must stay whole.
    import resource
    import signal
    signal.signal(signal.SIGXFSZ, signal.SIG_IGN)
    builtins.open, os.replace, os.rename = real_open, real_replace, real_rename
    if mode == "wallet_limit":
        import skepticoin.wallet as W
        w = W.Wallet.load(real_open("new_wallet_source.json"))
        resource.setrlimit(resource.RLIMIT_FSIZE, (crash_at, crash_at))
        try:
            W.save_wallet(w)
            os.write(1, b"SAVED\n")
        except BaseException as e:      # noqa: B902
            os.write(1, ("RAISED %r\n" % (e,)).encode())
    else:
        import skepticoin.networking.disk_interface as D

        class P:
            host, port, direction = "10.9.9.9", 2412, "OUTGOING"
        di = D.DiskInterface.__new__(D.DiskInterface)
        resource.setrlimit(resource.RLIMIT_FSIZE, (crash_at, crash_at))
        try:
            di.write_peers(P())
            os.write(1, b"SAVED\n")
        except BaseException as e:      # noqa: B902
            os.write(1, ("RAISED %r\n" % (e,)).encode())
    os._exit(0)
if mode == "receive_script":
    # the whole receive script (its real main()): every file-system boundary from its start to its end is a crash point
    import skepticoin.scripts.receive as R
    R.configure_logging_from_args = lambda a: None
    R.print = lambda *a, **k: None
    sys.argv = ["skepticoin-receive", "for the shop"]
    armed[0] = True
    R.main()
    armed[0] = False
    print("BOUNDARIES %d" % count[0])
    sys.exit(0)
if mode == "wallet":
    import skepticoin.wallet as W
    w = W.Wallet.load(real_open("new_wallet_source.json"))
    armed[0] = True
    W.save_wallet(w)
    armed[0] = False
elif mode == "peers":
    import skepticoin.networking.disk_interface as D

    class P:
        host, port, direction = "10.9.9.9", 2412, "OUTGOING"
    di = D.DiskInterface.__new__(D.DiskInterface)
    armed[0] = True
    di.write_peers(P())
    armed[0] = False
print("BOUNDARIES %d" % count[0])
