"""A real LocalPeer without sockets or threads: in-memory selector + in-memory sockets + virtual clock.

Deliveries go through LocalPeer.handle_remote_peer_selector_event on the real ConnectedRemotePeer -- the production
entry point -- so framing, decoding, dispatch, the catch-all and disconnect() are all the real code.
"""
import contextlib
import io
import logging
import os
import selectors
import struct
import tempfile

from . import sk, netmsg


class Clock:
    def __init__(self, t=1_700_000_000):
        self.t = t

    def __call__(self):
        return self.t


class FakeSocket:
    _next_fd = 1000

    def __init__(self):
        FakeSocket._next_fd += 1
        self.fd = FakeSocket._next_fd
        self.inbox = b""          # bytes the node will read
        self.sent = b""           # bytes the node wrote
        self.closed = False
        self.peer_closed = False

    def fileno(self):
        return self.fd

    def setblocking(self, flag):
        pass

    def connect_ex(self, addr):
        self.connect_addr = addr
        err = getattr(self, "connect_errno", 0)
        if callable(err):
            err = err(addr)
        self.connect_failed = err not in (0, 115)
        return err

    def recv(self, n):
        if self.closed:
            raise OSError(9, "Bad file descriptor")
        if getattr(self, "connect_failed", False):
            raise OSError(107, "Transport endpoint is not connected")      # a socket whose connect() failed: the selector reports it, recv() raises
        if not self.inbox and not self.peer_closed:
            # a non-blocking socket with nothing to read (the selector would not have reported it readable)
            raise BlockingIOError(11, "Resource temporarily unavailable")
        data, self.inbox = self.inbox[:n], self.inbox[n:]
        return data

    def send(self, data):
        if self.closed:
            raise OSError(9, "Bad file descriptor")
        self.sent += data
        return len(data)

    def close(self):
        self.closed = True

    def getpeername(self):
        return ("10.0.0.9", 4242)


class FakeSelector:
    def __init__(self):
        self.map = {}

    def register(self, fileobj, events, data=None):
        if fileobj in self.map:
            raise KeyError("already registered")
        self.map[fileobj] = selectors.SelectorKey(fileobj, fileobj.fileno() if hasattr(fileobj, "fileno") else -1, events, data)
        return self.map[fileobj]

    def unregister(self, fileobj):
        return self.map.pop(fileobj)       # KeyError if missing, like the real one

    def modify(self, fileobj, events, data=None):
        if fileobj not in self.map:
            raise KeyError("not registered")
        if getattr(fileobj, "closed", False):
            # what epoll does for a descriptor that was closed while still registered ("Bad file descriptor", seen in the wild
            # according to the comments in NetworkManager.broadcast_message)
            raise OSError(9, "Bad file descriptor")
        self.map[fileobj] = selectors.SelectorKey(fileobj, fileobj.fileno(), events, data)
        return self.map[fileobj]

    def get_map(self):
        return self.map

    def select(self, timeout=None):
        return []

    def close(self):
        pass


class DiskIf:
    """DiskInterface whose block methods are the real ones (real store) and whose file methods are recorded."""

    def __init__(self, real):
        self._real = real
        self.written_peers = []
        self.debug_txs = []

    def save_block(self, block):
        return self._real.save_block(block)

    def flush_blocks(self):
        return self._real.flush_blocks()

    def write_peers(self, peer):
        self.written_peers.append((peer.host, peer.port, peer.direction))

    def load_peers(self):
        # what the start-up path reads as peers.json; `on_load(started)` lets a driver decide what is listed and play what the network
        # thread does if the list happens to be read after the thread was started
        return self.on_load() if getattr(self, "on_load", None) else {}

    def save_transaction_for_debugging(self, tx):
        self.debug_txs.append(tx)


class Node:
    """One real LocalPeer wired to fake sockets, a real BlockStore on a scratch file and a virtual clock."""

    def __init__(self, coinstate, genesis, clock=None, real_store=True, port=2412, nonce=None, name="n", on_load_peers=None, store_path=None):
        sk.setup()
        import skepticoin.networking.remote_peer as rp
        import skepticoin.networking.local_peer as lp
        import skepticoin.networking.manager as mg
        import skepticoin.networking.disk_interface as di
        import skepticoin.blockstore as bs
        self.rp, self.lp, self.mg, self.bs = rp, lp, mg, bs
        self.clock = clock or Clock()
        rp.time = self.clock
        lp.time = self.clock
        logging.getLogger("skepticoin.networking").setLevel(logging.CRITICAL)
        self.store = None
        if real_store:
            if store_path is None:
                d = tempfile.mkdtemp(prefix="node_", dir=sk.scratch())
                self.store_path = os.path.join(d, "chain.db")
            else:
                self.store_path = store_path          # a restart: the file the previous run of the node left behind
            orig = bs.genesis_block_data
            bs.genesis_block_data = genesis.serialize()
            try:
                with contextlib.redirect_stdout(io.StringIO()):
                    self.store = bs.BlockStore(self.store_path)
            finally:
                bs.genesis_block_data = orig
            bs.DefaultBlockStore.instance = self.store
        self.disk = DiskIf(di.DiskInterface())
        self.thread_started = False
        if on_load_peers is not None:
            self.disk.on_load = lambda: on_load_peers(self)
        # the node comes into being the way every script creates it: NetworkingThread.__init__ (LocalPeer, the chain read from disk handed to
        # the chain manager, the peer list loaded); the thread itself is never started -- the harness plays the event loop
        self.thread = None
        try:
            import skepticoin.networking.threading as nt
            with contextlib.redirect_stdout(io.StringIO()):
                self.thread = nt.NetworkingThread(coinstate, port=None, disk_interface=self.disk)
            self.local = self.thread.local_peer
        except Exception as e:
            self.startup_error = repr(e)
            with contextlib.redirect_stdout(io.StringIO()):
                self.local = lp.LocalPeer(disk_interface=self.disk)
            self.local.chain_manager.set_coinstate(coinstate)
        self.local.selector.close()
        self.local.selector = FakeSelector()
        self.local.port = port
        if nonce is not None:
            self.local.nonce = nonce
        self.local.logger.setLevel(logging.CRITICAL)
        self.local.logger.propagate = False
        self.local.chain_manager.started_at = self.clock() - 10_000      # not "right after restart"
        self.local.running = True
        self.peers = {}
        self.escaped = []         # exceptions that escaped the event handler / manager step
        self.name = name
        # ... followed by thread.start(), with the operating-system thread itself left out (whatever start() does besides is real)
        if self.thread is not None:
            import threading as _th
            orig_start = _th.Thread.start

            def _no_os_thread(t_):
                self.thread_started = True
            _th.Thread.start = _no_os_thread
            try:
                self.thread.start()
            except Exception as e:
                self.escaped.append(("thread.start", repr(e)))
            finally:
                _th.Thread.start = orig_start

    @classmethod
    def restarted(cls, old, genesis, clock):
        """The node process ends (whatever is only in memory is gone: write buffer, pending pool, connections) and the program is started
        again on the same chain.db: the real read_chain_from_disk, then the real NetworkingThread start-up."""
        import skepticoin.blockstore as bs
        import skepticoin.networking.local_peer      # noqa: F401
        import skepticoin.scripts.utils as su
        path = old.store_path
        old.close()
        with contextlib.redirect_stdout(io.StringIO()):
            s2 = bs.BlockStore(path)
        prev = bs.DefaultBlockStore.instance
        bs.DefaultBlockStore.instance = s2
        try:
            with contextlib.redirect_stdout(io.StringIO()):
                cs = su.read_chain_from_disk()
            read_order = [b.hash() for b in s2.read_blocks_from_disk()]      # the order in which the store hands the blocks to the start-up path
        finally:
            bs.DefaultBlockStore.instance = prev
            s2.close()
        node = cls(cs, genesis, clock=clock, store_path=path, port=old.local.port, name=old.name)
        node.read_order = read_order
        return node

    def use_store(self):
        if self.store is not None:
            self.bs.DefaultBlockStore.instance = self.store

    # ---- connections
    def connect(self, name, host="10.0.0.2", port=5000, direction="INCOMING", hello=True, their_port=2412, nonce=77):
        rp = self.rp
        sock = FakeSocket()
        peer = rp.ConnectedRemotePeer(self.local, host, port, direction, None, sock, ban_score=0)
        self.local.selector.register(sock, selectors.EVENT_READ, data=peer)
        self.local.network_manager.handle_peer_connected(peer)
        self.peers[name] = (peer, sock)
        self.step_network()                       # the node sends its own hello
        if hello:
            self.deliver(name, netmsg.frame(netmsg.body(netmsg.hello(nonce=nonce, my_port=their_port), 1)))
        return peer

    def step_network(self):
        try:
            self.local.network_manager.step(self.clock())
        except Exception as e:
            self.escaped.append(("network_manager.step", repr(e)))
        self.pump_writes()

    def run_once(self, only_chain_manager=False):
        """One iteration of the node's real event loop (LocalPeer.run: read the clock, step the managers, handle what the selector reports
        -- nothing here: deliveries are made by the driver), ended from inside the selector call as LocalPeer.stop() would."""
        local = self.local
        sel = local.selector
        o_select, o_close, o_err = sel.select, sel.close, local.logger.error

        def select(timeout=None):
            local.running = False
            return []

        def err(msg, *a, **k):
            self.escaped.append(("LocalPeer.run", str(msg)[:300]))
        sel.select, sel.close, local.logger.error = select, (lambda: None), err
        o_managers = local.managers
        if only_chain_manager:
            local.managers = [local.chain_manager]      # (the Net model has no peer gossip: the network manager's periodic step is left out)
        try:
            local.run()
        except Exception as e:
            self.escaped.append(("LocalPeer.run", repr(e)))
        finally:
            sel.select, sel.close, local.logger.error = o_select, o_close, o_err
            local.managers = o_managers
            local.running = True
        self.pump_writes()

    def step_managers(self):
        try:
            self.local.step_managers(self.clock())
        except Exception as e:
            self.escaped.append(("step_managers", repr(e)))
        self.pump_writes()

    def pump_writes(self):
        """Let every connection with pending output write it into its fake socket (EVENT_WRITE)."""
        for name, (peer, sock) in list(self.peers.items()):
            if sock.closed:
                continue
            guard = 0
            while (peer.send_buffer or peer.send_backlog) and not sock.closed and guard < 10000:
                guard += 1
                key = selectors.SelectorKey(sock, sock.fd, selectors.EVENT_WRITE, peer)
                try:
                    self.local.handle_remote_peer_selector_event(key, selectors.EVENT_WRITE)
                except Exception as e:
                    self.escaped.append(("event_write", repr(e)))
                    break

    def deliver(self, name, data, chunk=None):
        """Bytes arrive on connection `name` (optionally in chunks): one EVENT_READ per chunk of <= 1024 bytes."""
        peer, sock = self.peers[name]
        chunks = []
        if chunk:
            pos = 0
            for c in chunk:
                chunks.append(data[pos:pos + c])
                pos += c
            if pos < len(data):
                chunks.append(data[pos:])
        else:
            chunks = [data]
        for c in chunks:
            sock.inbox += c
            while sock.inbox and not sock.closed:
                key = selectors.SelectorKey(sock, sock.fd, selectors.EVENT_READ, peer)
                try:
                    self.local.handle_remote_peer_selector_event(key, selectors.EVENT_READ)
                except Exception as e:
                    self.escaped.append(("event_read", repr(e)))
                    sock.inbox = b""
                    break
            if sock.closed:
                sock.inbox = b""
                break
        self.pump_writes()

    def send_msg(self, name, msg, mid=10, in_response_to=0):
        self.deliver(name, netmsg.frame(netmsg.body(msg, mid, in_response_to, ts=self.clock())))

    def take_sent(self, name):
        """Decode and remove the frames the node wrote to connection `name`: list of (header, message)."""
        from skepticoin.networking.messages import MessageHeader, Message
        peer, sock = self.peers[name]
        out = []
        b = sock.sent
        pos = 0
        while len(b) - pos >= 8:
            if b[pos:pos + 4] != netmsg.MAGIC:
                break
            (n,) = struct.unpack(">I", b[pos + 4:pos + 8])
            if len(b) - pos - 8 < n:
                break
            f = io.BytesIO(b[pos + 8:pos + 8 + n])
            h = MessageHeader.stream_deserialize(f)
            m = Message.stream_deserialize(f)
            out.append((h, m))
            pos += 8 + n
        sock.sent = b[pos:]
        return out

    def hard_close(self, name):
        """Fault: the connection's descriptor dies without the node noticing yet (still registered with the selector)."""
        peer, sock = self.peers[name]
        sock.closed = True

    def is_open(self, name):
        peer, sock = self.peers[name]
        return (not sock.closed) and sock in self.local.selector.get_map()

    # ---- observation
    def chain(self):
        return self.local.chain_manager.coinstate

    def pool(self):
        return list(self.local.chain_manager.transaction_pool)

    def store_rows(self):
        """Blocks as a restarted node would read them (fresh connection)."""
        with contextlib.redirect_stdout(io.StringIO()):
            s2 = self.bs.BlockStore(self.store_path)
        try:
            return list(s2.read_blocks_from_disk())
        finally:
            s2.close()

    def buffer_ids(self):
        return [b.hash() for b in self.store.write_buffer]

    def close(self):
        try:
            if self.store is not None:
                self.store.close()
        except Exception:
            pass
