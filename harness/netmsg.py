"""Building framed protocol traffic with the repository's own message classes (generator side only)."""
import struct
from ipaddress import IPv6Address

MAGIC = b"MAJI"


def frame(body):
    return MAGIC + struct.pack(">I", len(body)) + body


def body(msg, mid, in_response_to=0, ts=1_600_000_000, context=7):
    from skepticoin.networking.messages import MessageHeader
    return MessageHeader(ts & 0xffffffff, mid, in_response_to, context).serialize() + msg.serialize()


def hello(nonce=1, my_port=2412, your_port=0, agent=b"verif"):
    from skepticoin.networking.messages import HelloMessage, SupportedVersion
    return HelloMessage([SupportedVersion(0)], IPv6Address("::ffff:10.0.0.1"), your_port, IPv6Address("0::0"), my_port,
                        nonce, agent)


def sample_messages(world=None):
    """One message of every type (decodable bodies)."""
    from skepticoin.networking import messages as M
    from skepticoin.datatypes import Block
    from skepticoin.genesis import genesis_block_data
    g = Block.deserialize(genesis_block_data)
    h1, h2 = bytes(range(32)), bytes(range(1, 33))
    return [
        hello(),
        M.GetBlocksMessage([h1, h2]),
        M.InventoryMessage([M.InventoryItem(M.DATA_BLOCK, h1), M.InventoryItem(M.DATA_BLOCK, h2)]),
        M.InventoryMessage([]),
        M.GetDataMessage(M.DATA_BLOCK, h1),
        M.DataMessage(M.DATA_BLOCK, g),
        M.DataMessage(M.DATA_TRANSACTION, g.transactions[0]),
        M.GetPeersMessage(),
        M.PeersMessage([M.Peer(5, IPv6Address("::ffff:1.2.3.4"), 2412)]),
    ]
