"""Driving the real BlockStore (real SQLite on a scratch file) and recording TraceStore events."""
import contextlib
import io
import os
import tempfile

from . import sk, indep


def tla(v):
    """Python value -> TLA+ literal (dict with int keys -> function, dict with str keys -> record)."""
    if isinstance(v, bool):
        return "TRUE" if v else "FALSE"
    if isinstance(v, int):
        return str(v) if v >= 0 else "(0 - %d)" % -v
    if isinstance(v, str):
        return '"%s"' % v
    if isinstance(v, (list, tuple)):
        return "<<" + ", ".join(tla(x) for x in v) + ">>"
    if isinstance(v, dict):
        if not v:
            return "[x \\in {} |-> 0]"
        if all(isinstance(k, int) for k in v):
            return "(" + " @@ ".join("(%s :> %s)" % (tla(k), tla(x)) for k, x in sorted(v.items())) + ")"
        return "[" + ", ".join("%s |-> %s" % (k, tla(x)) for k, x in v.items()) + "]"
    if isinstance(v, (set, frozenset)):
        return "{" + ", ".join(tla(x) for x in sorted(v)) + "}"
    raise ValueError(v)


def abstract_block(world, block):
    s = block.header.summary
    txs = []
    for t in block.transactions:
        ins = []
        for i in t.inputs:
            r = i.output_reference
            ins.append([-1, 0] if r.hash == b"\x00" * 32 else [world.talias(r.hash), r.index])
        txs.append({"id": world.talias(indep.txid(t)), "ins": ins, "nouts": len(t.outputs)})
    return {"id": world.balias(block.hash()), "parent": world.balias(s.previous_block_hash), "height": s.height, "txs": txs}


def universe_tla(abs_blocks):
    """MC_Store Universe: id -> block with refs as records."""
    u = {}
    for b in abs_blocks:
        u[b["id"]] = {"id": b["id"], "parent": b["parent"], "height": b["height"],
                      "txs": [{"id": t["id"], "nouts": t["nouts"], "ins": [{"tx": r[0], "idx": r[1]} for r in t["ins"]]}
                              for t in b["txs"]]}
    return tla(u)


def _merkle_ok(block):
    """The header's commitment against an independent computation over the ids of the transactions the block holds, in their order."""
    try:
        return block.header.summary.merkle_root_hash == indep.merkle_root([indep.txid(t) for t in block.transactions])
    except Exception:
        return False


class StoreRun:
    """One real BlockStore on a scratch file whose genesis row is the harness genesis."""

    def __init__(self, world, genesis):
        import skepticoin.blockstore as bs
        self.bs = bs
        self.w = world
        self.genesis = genesis
        d = tempfile.mkdtemp(prefix="store_", dir=sk.scratch())
        self.path = os.path.join(d, "chain.db")
        self._orig_gen = bs.genesis_block_data
        bs.genesis_block_data = genesis.serialize()
        try:
            with contextlib.redirect_stdout(io.StringIO()):
                self.store = bs.BlockStore(self.path)
        finally:
            bs.genesis_block_data = self._orig_gen
        self.written = {genesis.hash(): genesis}
        self.buffered = []
        self.events = []
        CoinState = world.T["CoinState"]
        self.mem = CoinState.empty().add_block_no_validation(genesis)

    def buffer(self, block, apply=True):
        self.store.add_block_to_buffer(block)
        self.buffered.append(block)
        if apply:
            self.mem = self.mem.add_block_no_validation(block)
        self.events.append({"op": "buffer", "blk": abstract_block(self.w, block)})

    def clear(self):
        self.store.write_buffer.clear()
        self.buffered = []
        self.events.append({"op": "clear"})

    def read_back(self):
        """Fresh connection (what a restarted node sees)."""
        with contextlib.redirect_stdout(io.StringIO()):
            s2 = self.bs.BlockStore(self.path)
        try:
            blocks = list(s2.read_blocks_from_disk())
        finally:
            s2.close()
        return blocks

    def rebuild(self, blocks=None):
        """The real scripts/utils.read_chain_from_disk, reading through a fresh connection as a restarted node does."""
        import skepticoin.networking.local_peer      # noqa: F401  (import order: avoids the circular import of networking.manager)
        import skepticoin.scripts.utils as su
        with contextlib.redirect_stdout(io.StringIO()):
            s2 = self.bs.BlockStore(self.path)
        prev = self.bs.DefaultBlockStore.instance
        self.bs.DefaultBlockStore.instance = s2
        try:
            with contextlib.redirect_stdout(io.StringIO()):
                return su.read_chain_from_disk()
        finally:
            self.bs.DefaultBlockStore.instance = prev
            s2.close()

    def flush(self, honest=True, fault_at=None):
        """fault_at = k: the k-th SQL statement of this flush (BEGIN, the four inserts, COMMIT) fails with sqlite3.OperationalError
        ("database is locked": another process reads the same file) -- an environment fault, not the node's doing."""
        raised = False
        real = self.store.connection
        if fault_at is not None:
            import sqlite3
            count = [0]

            class Cur:
                def __init__(self, c):
                    self.c = c

                def _maybe(self):
                    count[0] += 1
                    if count[0] == fault_at:
                        raise sqlite3.OperationalError("database is locked")

                def execute(self, sql, *a):
                    self._maybe()
                    return self.c.execute(sql, *a)

                def executemany(self, sql, *a):
                    self._maybe()
                    return self.c.executemany(sql, *a)

                def __getattr__(self, n):
                    return getattr(self.c, n)

            class Con:
                def cursor(self_):
                    return Cur(real.cursor())

                def __getattr__(self_, n):
                    return getattr(real, n)
            self.store.connection = Con()
        try:
            self.store.flush_blocks_to_disk()
        except Exception as e:
            raised = True
            self.last_error = repr(e)
        finally:
            self.store.connection = real
        if not raised:
            for b in self.buffered:
                self.written[b.hash()] = b
            self.buffered = []
        self._flush_event(raised, honest)
        return not raised

    def _flush_event(self, raised, honest):
        ev = {"op": "flush", "raised": raised, "honest": honest, "read": [], "ledger_equal": True,
              "head_height_equal": True, "continue_after_known": True}
        if not raised:
            blocks = self.read_back()
            for b in blocks:
                wb = self.written.get(b.hash())
                same = wb is not None and indep.enc_block(b) == indep.enc_block(wb) and \
                    [t.hash() for t in b.transactions] == [indep.txid(t) for t in wb.transactions] and \
                    indep.blockid(b) == b.hash()
                ab = abstract_block(self.w, b)
                ev["read"].append({"id": ab["id"], "parent": ab["parent"], "height": ab["height"],
                                   "txids": [t["id"] for t in ab["txs"]], "bytes_equal": same, "merkle_ok": _merkle_ok(b)})
            cs = self.rebuild(blocks)
            mem_ids = set(self.written.keys())
            eq = set(cs.block_by_hash.keys()) == mem_ids
            if eq:
                for h in mem_ids:
                    if h in self.mem.unspent_transaction_outs_by_hash and \
                            dict(cs.unspent_transaction_outs_by_hash[h].items()) != dict(self.mem.unspent_transaction_outs_by_hash[h].items()):
                        eq = False
            ev["ledger_equal"] = eq
            try:
                want = max(b.height for b in self.written.values())
                ev["head_height_equal"] = cs.head().height == want
            except Exception:
                ev["head_height_equal"] = False
        self.events.append(ev)
        return not raised

    def raw_rows(self):
        """The four tables' key columns through a plain sqlite3 connection, as aliases."""
        import sqlite3
        con = sqlite3.connect(self.path)
        try:
            w = self.w
            chain = sorted(w.balias(bytes(r[0])) for r in con.execute("select block_hash from chain"))
            loc = sorted([w.talias(bytes(r[0])), w.balias(bytes(r[1]))] for r in con.execute("select transaction_hash, block_hash from transaction_locator"))
            outs = sorted([w.talias(bytes(r[0])), r[1]] for r in con.execute("select transaction_hash, seq from transaction_outputs"))
            ins = sorted([w.talias(bytes(r[0])), r[1]] for r in con.execute("select transaction_hash, seq from transaction_inputs"))
        finally:
            con.close()
        return {"chain": chain, "loc": loc, "outs": outs, "ins": ins}

    def flush_crash(self, k, cum_subsidy=None):
        """The process dies at the k-th SQL statement execution of this flush (a forked copy of this process runs the real
        flush_blocks_to_disk on the real file and is killed with SIGKILL from an sqlite trace callback just before the k-th statement --
        BEGIN, each row of the four executemany() calls, COMMIT -- runs); then the node restarts: a fresh BlockStore on the same file, an
        empty write buffer, the chain rebuilt with the real read_chain_from_disk.  Returns False (and records an ordinary flush) when the
        flush has fewer than k statements."""
        import signal
        pid = os.fork()
        if pid == 0:
            try:
                n = [0]

                def cb(_stmt):
                    n[0] += 1
                    if n[0] == k:
                        os.kill(os.getpid(), signal.SIGKILL)
                self.store.connection.set_trace_callback(cb)
                self.store.flush_blocks_to_disk()
            except BaseException:
                os._exit(3)
            os._exit(0)
        _, status = os.waitpid(pid, 0)
        killed = os.WIFSIGNALED(status)
        if not killed and os.WEXITSTATUS(status) != 0:
            raise RuntimeError("the forked flush raised")
        # restart: the parent's connection never took part in the flush; it is dropped like the dead process's memory
        handed = list(self.buffered)
        try:
            self.store.close()
        except Exception:
            pass
        with contextlib.redirect_stdout(io.StringIO()):
            self.store = self.bs.BlockStore(self.path)
        if not killed:
            for b in handed:
                self.written[b.hash()] = b
            self.buffered = []
            # (the event of a completed flush: the same read-back comparison as flush())
            self.store.write_buffer.clear()
            self._flush_event(False, True)
            return False
        self.buffered = []
        allb = dict(self.written)
        for b in handed:
            allb[b.hash()] = b
        blocks = self.read_back()
        ev = {"op": "crash", "k": k, "read": [], "rows": self.raw_rows(), "ledger_equal": True, "spent_is_unspent": False, "total_exceeds": False}
        for b in blocks:
            wb = allb.get(b.hash())
            same = wb is not None and indep.enc_block(b) == indep.enc_block(wb) and \
                [t.hash() for t in b.transactions] == [indep.txid(t) for t in wb.transactions] and indep.blockid(b) == b.hash()
            ab = abstract_block(self.w, b)
            ev["read"].append({"id": ab["id"], "parent": ab["parent"], "height": ab["height"], "txids": [t["id"] for t in ab["txs"]], "bytes_equal": same,
                               "merkle_ok": _merkle_ok(b)})
        try:
            cs = self.rebuild(blocks)
        except Exception as e:
            cs = None
            ev["ledger_equal"] = False
            ev["rebuild_error"] = repr(e)[:200]
        if cs is not None:
            # the ledger the restarted node holds at every block it has, against a replay of the blocks as they were handed over
            for h in cs.block_by_hash:
                if h not in allb:
                    continue
                chain, x = [], h
                while x in allb:
                    chain.append(allb[x])
                    x = allb[x].header.summary.previous_block_hash
                chain.reverse()
                unspent, spent = {}, set()
                for blk_ in chain:
                    for t in blk_.transactions:
                        for i in t.inputs:
                            r = (i.output_reference.hash, i.output_reference.index)
                            if r[0] != b"\x00" * 32:
                                unspent.pop(r, None)
                                spent.add(r)
                        th = indep.txid(t)
                        for n_, o in enumerate(t.outputs):
                            unspent[(th, n_)] = o.value
                try:
                    real = {(ref.hash, ref.index): out.value for ref, out in cs.unspent_transaction_outs_by_hash[h].items()}
                except Exception:
                    real = None
                if real != unspent:
                    ev["ledger_equal"] = False
                if real is not None:
                    if any(r in real for r in spent):
                        ev["spent_is_unspent"] = True
                    if cum_subsidy is not None and sum(real.values()) > cum_subsidy(allb[h].header.summary.height):
                        ev["total_exceeds"] = True
        self.events.append(ev)
        return True

    def flush_with_concurrent_add(self, block, wait=0.2):
        """The real node has two writers on one BlockStore (the network thread's handle_block_received and the miner's found-block
        handler, each save_block + flush_blocks).  Here a second thread hands over `block` while this thread's flush is inside its disk
        write (schedule forced from a wrapper around write_blocks_to_disk; the second thread gets `wait` seconds to get through, which
        it cannot while the buffer's lock is held).  Recorded linearization: flush, then the hand-over, then a second flush -- after
        which the block must be in the store whichever way the race went."""
        import threading
        store = self.store
        orig = store.write_blocks_to_disk
        done = threading.Event()
        started = []

        def adder():
            store.add_block_to_buffer(block)
            done.set()
        th = threading.Thread(target=adder, daemon=True)

        aid = lambda b: abstract_block(self.w, b)["id"]
        buffer0 = [aid(b) for b in self.buffered]
        disk0 = sorted(aid(b) for b in self.written.values())
        during = []

        def wrapped_probe(blocks):
            if not started:
                started.append(1)
                th.start()
                done.wait(wait)
                during.append(done.is_set())
            return orig(blocks)
        store.write_blocks_to_disk = wrapped_probe
        try:
            ok = self.flush()
        finally:
            del store.write_blocks_to_disk          # back to the class's method
        if not started:
            th.start()
        th.join(5)
        if th.is_alive():
            raise RuntimeError("the second writer never got the buffer's lock")
        self.buffered.append(block)
        self.mem = self.mem.add_block_no_validation(block)
        self.events.append({"op": "buffer", "blk": abstract_block(self.w, block)})
        ok2 = self.flush()
        # the observed order of StoreLock actions (writer 1 = this thread, writer 2 = the second thread)
        x = aid(block)
        fl = [{"a": a, "w": 1, "b": 0} for a in ("acquire", "write", "commit", "clear", "release")]
        add = {"a": "add", "w": 2, "b": x}
        if not buffer0:
            evs = [add] + fl                     # nothing to write: the first flush did not reach its disk write
        elif during and during[0]:
            evs = [fl[0], add] + fl[1:] + fl     # the hand-over completed while the first flush was inside its disk write
        else:
            evs = fl + [add] + fl
        try:      # the chain table's rows through a fresh connection (independent of how blocks are reassembled from the other tables)
            import sqlite3
            con = sqlite3.connect(self.path)
            hashes = [r[0] for r in con.execute("select block_hash from chain")]
            con.close()
            disk_end = sorted(self.w.balias(bytes(h)) for h in hashes)
        except Exception:
            disk_end = [-1]
        if not hasattr(self, "lock_traces"):
            self.lock_traces = []
        self.lock_traces.append({"buffer0": buffer0, "disk0": disk0, "events": evs, "disk_end": disk_end, "errors": []})
        return ok and ok2

    def flush_with_concurrent_flush(self, block, wait=0.3):
        """Both writers flush: while this thread's flush is between BEGIN and COMMIT of its disk write (parked by a proxy around the
        store's one SQLite connection), a second thread hands `block` over and flushes.  With the lock held over the whole flush the
        second thread waits; whichever way the race goes, afterwards every block handed over must be on disk and neither thread may have
        seen an error."""
        import threading
        store = self.store
        aid = lambda b: abstract_block(self.w, b)["id"]
        buffer0 = [aid(b) for b in self.buffered]
        disk0 = sorted(aid(b) for b in self.written.values())
        errors, during, started = [], [], []
        done = threading.Event()

        def second():
            try:
                store.add_block_to_buffer(block)
                store.flush_blocks_to_disk()
            except Exception as e:      # an exception of the code under test is an observation
                errors.append("second writer: %r" % e)
            done.set()
        th = threading.Thread(target=second, daemon=True)
        real = store.connection

        class Cur:
            def __init__(self, c):
                self.c = c

            def execute(self, sql, *a):
                if isinstance(sql, str) and sql.strip().upper().startswith("COMMIT") and not started and threading.current_thread() is not th:
                    started.append(1)
                    th.start()
                    done.wait(wait)
                    during.append(done.is_set())
                return self.c.execute(sql, *a)

            def __getattr__(self, n):
                return getattr(self.c, n)

        class Con:
            def cursor(self_):
                return Cur(real.cursor())

            def __getattr__(self_, n):
                return getattr(real, n)
        store.connection = Con()
        ok = True
        try:
            try:
                store.flush_blocks_to_disk()          # (the read-back comparison follows once both writers are through)
            except Exception as e:
                errors.append("first writer: %r" % e)
                ok = False
        finally:
            store.connection = real
        if not started:
            th.start()
        th.join(10)
        if th.is_alive():
            raise RuntimeError("the second writer never finished")
        self.buffered.append(block)
        self.mem = self.mem.add_block_no_validation(block)
        self.events.append({"op": "buffer", "blk": abstract_block(self.w, block)})
        try:
            ok2 = self.flush()
        except Exception as e:
            errors.append("final flush: %r" % e)
            ok2 = False
        x = aid(block)
        fl1 = [{"a": a, "w": 1, "b": 0} for a in ("acquire", "write", "commit", "clear", "release")]
        fl2 = [{"a": a, "w": 2, "b": 0} for a in ("acquire", "write", "commit", "clear", "release")]
        add = {"a": "add", "w": 2, "b": x}
        if not buffer0:
            evs = [add] + fl2
        elif during and during[0]:
            evs = fl1[:2] + [add] + fl2 + fl1[2:]       # the second writer got through while the first one's transaction was open
        else:
            evs = fl1 + [add] + fl2
        try:
            import sqlite3
            con = sqlite3.connect(self.path)
            hashes = [r[0] for r in con.execute("select block_hash from chain")]
            con.close()
            disk_end = sorted(self.w.balias(bytes(h)) for h in hashes)
        except Exception:
            disk_end = [-1]
        if not hasattr(self, "lock_traces"):
            self.lock_traces = []
        self.lock_traces.append({"buffer0": buffer0, "disk0": disk0, "events": evs, "disk_end": disk_end, "errors": errors})
        return ok and ok2

    def trace(self, tid, prop="C08"):
        return {"id": tid, "prop": prop, "genesis": abstract_block(self.w, self.genesis), "events": self.events}

    def close(self):
        try:
            self.store.close()
        except Exception:
            pass
