#!/venv/bin/python
"""Binding self-test: for several trace specifications, take a trace recorded from the real code that TLC accepts, corrupt ONE
recorded field (or drop one event) and require that TLC now rejects it with a verdict.  Shows that the trace specifications
constrain more than the length of a trace.   usage: selftest/binding.py   (exit 0 = every corruption was rejected)"""
import copy
import os
import random
import sys

ROOT = os.path.dirname(os.path.dirname(os.path.abspath(__file__)))
sys.path.insert(0, ROOT)
from harness import sk, tlc, ledger_drv, tracecheck            # noqa: E402
from checks import ledger as L, framing as F                    # noqa: E402


def main():
    sk.setup()
    rng = random.Random(1)
    keys = sk.Keys(3)
    cfg = sk.Cfg(**L.MODEL_CFG)
    sk.apply_cfg(cfg)
    results = []
    # ---- TraceLedger
    traces, recs, _ = L.random_batch(3, 10, cfg, keys, rng, 1, bal=True, p_mut=0.3)
    focus = {"C01", "C02", "C03", "C04", "C05"}
    v, d, r = ledger_drv.validate(traces, cfg, focus)
    assert all(x[0] == "ok" for x in v.values()), v
    good = traces[0]
    acc = [i for i, e in enumerate(good["events"]) if e["res"] == "ok"]
    rej = [i for i, e in enumerate(good["events"]) if e["res"] == "rej"]

    def corrupt(name, fn):
        t = copy.deepcopy(good)
        fn(t)
        vv, dd, rr = ledger_drv.validate([t], cfg, focus)
        clause = list(vv.values())[0][0]
        results.append(("TraceLedger", name, clause))
    corrupt("head of one accepted step", lambda t: t["events"][acc[-1]]["post"].__setitem__("head", 99))
    corrupt("one unspent value", lambda t: t["events"][acc[-1]]["post"]["utxo"][0][1][0].__setitem__(2, 7))
    corrupt("drop a tip", lambda t: t["events"][acc[-1]]["post"].__setitem__("tips", t["events"][acc[-1]]["post"]["tips"][:-1] or [98]))
    corrupt("verdict flipped: a rejected candidate reported accepted", lambda t: t["events"][rej[0]].__setitem__("res", "ok") if rej else None)
    corrupt("one event dropped", lambda t: t["events"].pop(acc[0]))
    corrupt("signer of a spend", lambda t: [i.__setitem__("signer", 3 if i["signer"] != 3 else 2) for e in t["events"] if e["res"] == "ok" for x in e["blk"]["txs"][1:] for i in x["ins"][:1]])
    # ---- TraceFraming
    import skepticoin.networking.remote_peer as rp
    from harness import netmsg
    msgs = netmsg.sample_messages()
    b = netmsg.frame(netmsg.body(msgs[7], 101)) + netmsg.frame(netmsg.body(msgs[4], 102))
    ev = F.run_cuts(b, [10, len(b) - 10])
    streams = [{"bytes": list(b), "ids": [[8, 101], [8 + len(netmsg.body(msgs[7], 101)) + 8, 102]]}]
    good_f = {"id": 1, "s": 1, "events": ev}
    vv, rr = tracecheck.run("TraceFraming", {"streams": streams, "traces": [good_f]}, {"Magic": F.MAGIC, "MaxSize": rp.MAX_MESSAGE_SIZE}, ids=[1])
    assert vv[1][0] == "ok", vv
    for name, fn in (("delivered id changed", lambda t: t["events"][-1]["ids"].__setitem__(0, 999)),
                     ("one delivery missing", lambda t: t["events"][-1].__setitem__("ids", t["events"][-1]["ids"][:-1])),
                     ("refusal reported for a good stream", lambda t: t["events"][0].__setitem__("refused", True))):
        t = copy.deepcopy(good_f)
        fn(t)
        vv, rr = tracecheck.run("TraceFraming", {"streams": streams, "traces": [t]}, {"Magic": F.MAGIC, "MaxSize": rp.MAX_MESSAGE_SIZE}, ids=[1])
        results.append(("TraceFraming", name, vv[1][0]))
    # ---- TraceSendPath (sequential calls on a real connection)
    from harness import sendpath_drv as sp
    good_s = sp.replay_sequential([2, 3, 1], [["send", 1], ["cansend", [10]], ["send", 2], ["send", 3], ["cansend", [10 ** 6, 5]], ["cansend", []]], 1)
    sc = {"Lens": [1], "NetFrames": [], "MinerFrames": [], "MaxChunk": 1, "Locked": True, "Prop": "C10"}

    def sp_run(t):
        vv_, rr_ = tracecheck.run("TraceSendPath", [t], sc, ids=[1])
        drift = tlc.tagged(rr_, "DRIFT")
        return vv_[1][0] if vv_[1][0] != "ok" else ("DRIFT" if drift else "ok")
    assert sp_run(good_s) == "ok"
    for name, fn in (("one frame missing on the wire", lambda t: t["final"]["frames"].pop()),
                     ("a frame twice on the wire", lambda t: t["final"]["frames"].append(1)),
                     ("output left pending without write interest", lambda t: t["final"].update(pending=5, interest=False)),
                     ("bytes written after a call (M layer)", lambda t: t["events"][1]["post"].__setitem__("wire", 11)),
                     ("write interest after the last call (M layer)", lambda t: t["events"][-1]["post"].__setitem__("interest", True))):
        t = copy.deepcopy(good_s)
        fn(t)
        results.append(("TraceSendPath", name, sp_run(t)))
    # ---- TraceRetarget
    rc = {"Timespan": 1209600, "W": 32}
    prev = (1 << 255)
    want = prev * 777777 // 1209600
    ev_r = [{"kind": "validate", "boundary": True, "prev": list(prev.to_bytes(32, "big")), "elapsed": 777777, "stated": list(want.to_bytes(32, "big")), "accepted": True, "pure": True}]
    vv, rr = tracecheck.run("TraceRetarget", ev_r, rc, ids=[1])
    assert not tlc.tagged(rr, "FINDING")
    for name, fn in (("accepted target off by one", lambda e: e.__setitem__("stated", list((want + 1).to_bytes(32, "big")))),
                     ("elapsed time off by one second", lambda e: e.__setitem__("elapsed", 777778)),
                     ("unchanged target accepted at a boundary", lambda e: e.__setitem__("stated", e["prev"]))):
        e = copy.deepcopy(ev_r[0])
        fn(e)
        vv, rr = tracecheck.run("TraceRetarget", [e], rc, ids=[1])
        f = tlc.tagged(rr, "FINDING")
        results.append(("TraceRetarget", name, f[0][1] if f else "ok"))
    # ---- TraceStoreLock (a forced two-writer schedule on a real store)
    from harness import store_drv
    from checks import store as S
    w_, g_, blocks_ = S.build(cfg, keys, S.universes()["clean"], tag=b"bind")
    run_ = store_drv.StoreRun(w_, g_)
    try:
        run_.buffer(blocks_[1])
        run_.flush_with_concurrent_flush(blocks_[2])
        good_l = dict(run_.lock_traces[0], id=1)
    finally:
        run_.close()
    lc = {"Writers": {1, 2}, "Blocks": set(), "LockScope": "whole", "MaxFlushes": 99, "Prop": "C08"}
    vv, rr = tracecheck.run("TraceStoreLock", [good_l], lc, ids=[1])
    assert vv[1][0] == "ok", vv
    for name, fn in (("a block missing on disk at the end", lambda t: t["disk_end"].pop()),
                     ("a writer reported an SQL error", lambda t: t["errors"].append("second writer: OperationalError")),
                     ("a block on disk that was never handed over", lambda t: t["disk_end"].append(77))):
        t = copy.deepcopy(good_l)
        fn(t)
        vv, rr = tracecheck.run("TraceStoreLock", [t], lc, ids=[1])
        results.append(("TraceStoreLock", name, vv[1][0]))
    # ---- TraceHandover (outcome of a two-thread schedule)
    hist = [{"t": "net", "a": a_} for a_ in ("N1", "N3", "N5", "R1", "R2")] + [{"t": "miner", "a": a_} for a_ in ("M1", "M4", "M5", "M6", "M7", "M8")]
    good_h = {"id": 1, "hist": hist, "feasible": True, "errors": [],
              "out": {"x_on_disk": False, "b_on_disk": True, "x_served": False, "b_served": True, "b_bcast": True, "x_bcast": False, "buffer": 0}}
    hc = {"XValid": False, "XValidated": True, "MinerOn": True, "SaveAfterValidation": True, "SelectiveClear": True, "AtomicRollback": True, "MinerHandOverValidated": True, "SaveBeforePublish": True}

    def h_run(t):
        vv_, rr_ = tracecheck.run("TraceHandover", [t], hc, ids=[1])
        f_ = tlc.tagged(rr_, "FINDING")
        return f_[0][2] if f_ else ("DRIFT" if tlc.tagged(rr_, "DRIFT") else "ok")
    assert h_run(good_h) == "ok", h_run(good_h)
    for name, fn in (("found block not on disk", lambda t: t["out"].__setitem__("b_on_disk", False)),
                     ("rejected block on disk", lambda t: t["out"].__setitem__("x_on_disk", True)),
                     ("rejected block served", lambda t: t["out"].__setitem__("x_served", True)),
                     ("found block not broadcast", lambda t: t["out"].__setitem__("b_bcast", False)),
                     ("found block not served (M layer)", lambda t: t["out"].__setitem__("b_served", False))):
        t = copy.deepcopy(good_h)
        fn(t)
        results.append(("TraceHandover", name, h_run(t)))
    # ---- TraceStore, op "crash" (a flush of the real store killed before one of its SQL statements, then a restart)
    run_ = store_drv.StoreRun(w_, g_)
    try:
        run_.buffer(blocks_[1])
        run_.flush()
        run_.buffer(blocks_[2])
        run_.buffer(blocks_[3])
        assert run_.flush_crash(9)
        good_c = run_.trace(1, prop="C08")
    finally:
        run_.close()

    def c_run(t):
        vv_, rr_ = tracecheck.run("TraceStore", [t], {}, ids=[1])
        return vv_[1][0] if vv_[1][0] != "ok" else ("DRIFT" if tlc.tagged(rr_, "DRIFT") else "ok")
    assert c_run(good_c) == "ok", c_run(good_c)
    crash_ev = [i for i, e in enumerate(good_c["events"]) if e["op"] == "crash"][0]
    b2 = [e for e in good_c["events"] if e["op"] == "buffer"][1]["blk"]
    for name, fn in (("a block of the killed flush read back without its transactions", lambda t: t["events"][crash_ev]["read"].append(
                          {"id": b2["id"], "parent": b2["parent"], "height": b2["height"], "txids": [], "bytes_equal": True, "merkle_ok": True})),
                     ("a block read back after the crash differs in content", lambda t: t["events"][crash_ev]["read"][0].__setitem__("bytes_equal", False)),
                     ("a block of an earlier flush lost", lambda t: t["events"][crash_ev]["read"].pop()),
                     ("ledger rebuilt after the crash differs", lambda t: t["events"][crash_ev].__setitem__("ledger_equal", False)),
                     ("a row of the killed flush is in a table (M layer)", lambda t: t["events"][crash_ev]["rows"]["chain"].append(b2["id"]))):
        t = copy.deepcopy(good_c)
        fn(t)
        results.append(("TraceStore/crash", name, c_run(t)))
    # ---- TraceEcho (found block x its echo)
    hist_e = [{"t": "miner", "a": a_} for a_ in ("M1", "M4", "M5", "M6")] + [{"t": "echo", "a": "E1"}] + [{"t": "miner", "a": a_} for a_ in ("M7", "M8")]
    good_e = {"id": 1, "hist": hist_e, "feasible": True, "errors": [], "out": {"b_sent_max": 1, "b_served": True, "b_on_disk": True}}

    def e_run(t):
        vv_, rr_ = tracecheck.run("TraceEcho", [t], {"HandOverBeforeBroadcast": True}, ids=[1])
        f_ = tlc.tagged(rr_, "FINDING")
        return f_[0][2] if f_ else ("DRIFT" if tlc.tagged(rr_, "DRIFT") else "ok")
    assert e_run(good_e) == "ok", e_run(good_e)
    for name, fn in (("a peer was sent the found block twice", lambda t: t["out"].__setitem__("b_sent_max", 2)),
                     ("found block not in the store", lambda t: t["out"].__setitem__("b_on_disk", False)),
                     ("echo handled before any broadcast (M layer)", lambda t: t["hist"].insert(1, t["hist"].pop(4)))):
        t = copy.deepcopy(good_e)
        fn(t)
        results.append(("TraceEcho", name, e_run(t)))
    # ---- TraceKeyEscape (the receive script killed after the address was printed)
    good_k = {"id": 1, "script": "receive", "nkeys": 3, "events": [{"op": "handout", "k": 3}, {"op": "save", "unused": [1, 2]}, {"op": "escape", "keys": [3]},
                                                                  {"op": "crash"}, {"op": "restart", "k": 2, "unused": [1, 2]}]}

    def k_run(t):
        vv_, rr_ = tracecheck.run("TraceKeyEscape", [t], {}, ids=[1])
        return vv_[1][0] if vv_[1][0] != "ok" else ("DRIFT" if tlc.tagged(rr_, "DRIFT") else "ok")
    assert k_run(good_k) == "ok", k_run(good_k)
    for name, fn in (("the key that was printed is handed out again", lambda t: t["events"][4].update(k=3, unused=[1, 2, 3])),
                     ("wallet.json after the save still lists the key (M layer)", lambda t: t["events"][1].__setitem__("unused", [1, 2, 3])),
                     ("another key than the last unused one handed out (M layer)", lambda t: t["events"][0].__setitem__("k", 1))):
        t = copy.deepcopy(good_k)
        fn(t)
        results.append(("TraceKeyEscape", name, k_run(t)))
    # ---- TraceBigStore
    good_b = {"id": 1, "rows": 4, "written": [[0, -1], [1, 0], [2, 0], [3, 1]], "read": [[0, True], [1, True], [2, True], [3, True]], "ledger_equal": True, "head_height_equal": True}

    def b_run(t):
        vv_, rr_ = tracecheck.run("TraceBigStore", [t], {}, ids=[1])
        return vv_[1][0]
    assert b_run(good_b) == "ok", b_run(good_b)
    for name, fn in (("one block not read back", lambda t: t["read"].pop(2)),
                     ("child read before its parent", lambda t: t["read"].insert(1, t["read"].pop(3))),
                     ("head height differs", lambda t: t.__setitem__("head_height_equal", False))):
        t = copy.deepcopy(good_b)
        fn(t)
        results.append(("TraceBigStore", name, b_run(t)))
    bad = [x for x in results if x[2] in ("ok", "inconclusive")]
    for x in results:
        print("%-14s %-55s -> %s" % x)
    print("binding self-test: %d corruptions, %d not rejected" % (len(results), len(bad)))
    return 1 if bad else 0


if __name__ == "__main__":
    sys.exit(main())
