------------------------------ MODULE Handover ------------------------------
(* The node's shared state under its two threads, at the granularity of the source lines that touch it:                            *)
(*   ChainManager.coinstate / last_known_valid_coinstate  (manager.py:147-153, set_coinstate :197, get_state :236; one lock)       *)
(*   BlockStore.write_buffer / the rows on disk            (blockstore.py:95-99, :159; one lock around append and around a flush)  *)
(* "net"    handle_block_received for one delivered block X (remote_peer.py:451-510)                                              *)
(*            N1  coinstate_prior = chain_manager.coinstate                   unlocked read                                        *)
(*            N3  coinstate_changed = coinstate_prior.add_block_no_validation(X)                                                   *)
(*            N5  validate_block_in_coinstate(X, coinstate_prior)              slow (scrypt, signatures)                           *)
(*            R1      set_coinstate(last_known_valid_coinstate)                rejection path                                      *)
(*            R2      write_buffer[:] = [b for b in write_buffer if b in last_known_valid_coinstate]    under the store's lock     *)
(*            N6  set_coinstate(coinstate_changed, validated=True)                                                                 *)
(*            N4  disk_interface.save_block(X)                                 append to the write buffer                          *)
(*            N7  disk_interface.flush_blocks()                                                                                    *)
(*            N8  network_manager.broadcast_block(X)                           when X is the new head of a relay delivery          *)
(*            N4u disk_interface.save_block(X); N9 set_coinstate(coinstate_changed, validated=False)     bulk download, unvalidated *)
(*          SaveAfterValidation = FALSE is the order before the repair of F-C09c (N4 directly after N3, on both paths);            *)
(*          SelectiveClear = FALSE is R2 before the repair of F-C12d (write_buffer.clear(), not under the store's lock).           *)
(*          AtomicRollback = FALSE is R1 before the second repair of F-C12d: the argument last_known_valid_coinstate was read       *)
(*          (at the end of N5's step) before set_coinstate(it) was called -- and set_coinstate with its default validated=True      *)
(*          also made that possibly stale state the last validated one.  TRUE: rollback_to_last_known_valid_coinstate() reads and   *)
(*          installs under the lock.                                                                                                *)
(*          N8 happens only when X became the head (fork choice is not modelled here): it may be skipped.                           *)
(* "miner"  MinerWatcher (mining.py:214-271) for one found block B                                                                 *)
(*            M1  self.coinstate, transactions = chain_manager.get_state()     request handler: the miner's snapshot               *)
(*            M4  self.coinstate = self.coinstate.add_block(B, now)            result handler: B found on the snapshot             *)
(*            M5  chain_manager.set_coinstate(self.coinstate)                  validated=True by default                           *)
(*            M6  network_manager.broadcast_block(B)                                                                               *)
(*            M7  disk_interface.save_block(B)                                                                                     *)
(*            M8  disk_interface.flush_blocks()                                                                                    *)
(* A chain state is abstracted to the set of blocks it contains (fork choice is Ledger's subject, not this module's).              *)
EXTENDS Naturals, Sequences, FiniteSets
CONSTANTS XValid,        \* the delivered block passes validation in its parent's state
          XValidated,    \* the delivered block is validated at all (relay delivery, or a bulk-download height that is validated)
          MinerOn,       \* a found block B is handled concurrently
          SaveAfterValidation, SelectiveClear, AtomicRollback,
          SaveBeforePublish,       \* (with SaveAfterValidation) the accepted block is buffered for the store (N4) before it is published (N6), so that
                                   \* nothing built on it can reach the buffer first.  FALSE = the order N6, N4 of the first repair of F-C09c:
                                   \* the necessity run for I_C09_NoFlushFailure
          MinerHandOverValidated   \* M5 is set_coinstate(state) with validated=True (the default the miner relies on): the found block becomes
                                   \* part of the last validated state.  FALSE: the necessity run for I_C09_RejectionLeavesStateAsItWas
VARIABLES served, lastValid, buffer, disk, bcast, net, miner,
          sqlerr      \* a flush hit the chain table's foreign key (a block before its parent): the SQL transaction stays open, every later flush fails
vars == << served, lastValid, buffer, disk, bcast, net, miner, sqlerr >>
X == "X"
B == "B"
G == "G"
Range(s) == {s[i] : i \in 1..Len(s)}

(* parents: X is a child of G; B is a child of the head of the miner's snapshot *)
ParentOf(b) == IF b = X THEN G ELSE IF X \in miner.snap THEN X ELSE G
RECURSIVE InOrder(_, _)
InOrder(seq, placed) == IF seq = << >> THEN TRUE
                        ELSE /\ (Head(seq) \in placed \/ ParentOf(Head(seq)) \in placed) /\ InOrder(Tail(seq), placed \cup {Head(seq)})
FlushOK == ~sqlerr /\ InOrder(buffer, disk)
Init == /\ served = {G} /\ lastValid = {G} /\ buffer = << >> /\ disk = {G} /\ bcast = {} /\ sqlerr = FALSE
        /\ net = [pc |-> "N1", prior |-> {}, changed |-> {}, tmp |-> {}, quiet |-> FALSE]
        /\ miner = [pc |-> IF MinerOn THEN "M1" ELSE "done", snap |-> {}]

NGo(p) == net' = [net EXCEPT !.pc = p]
N1 == net.pc = "N1" /\ net' = [net EXCEPT !.pc = "N3", !.prior = served, !.quiet = (miner.pc = "done")] /\ UNCHANGED << served, lastValid, buffer, disk, bcast, miner, sqlerr >>
N3 == /\ net.pc = "N3"
      /\ net' = [net EXCEPT !.pc = IF ~SaveAfterValidation \/ ~XValidated THEN "N4" ELSE "N5", !.changed = net.prior \cup {X}]
      /\ UNCHANGED << served, lastValid, buffer, disk, bcast, miner, sqlerr >>
N4 == /\ net.pc = "N4" /\ buffer' = Append(buffer, X)
      /\ NGo(IF ~XValidated THEN "N9" ELSE IF ~SaveAfterValidation THEN "N5" ELSE IF SaveBeforePublish THEN "N6" ELSE "N7")
      /\ UNCHANGED << served, lastValid, disk, bcast, miner, sqlerr >>
N5 == /\ net.pc = "N5" /\ net' = [net EXCEPT !.pc = IF ~XValid THEN "R1" ELSE IF SaveAfterValidation /\ SaveBeforePublish THEN "N4" ELSE "N6", !.tmp = lastValid]
      /\ UNCHANGED << served, lastValid, buffer, disk, bcast, miner, sqlerr >>
R1 == /\ net.pc = "R1" /\ NGo("R2")
      /\ IF AtomicRollback THEN served' = lastValid /\ UNCHANGED lastValid
         ELSE served' = net.tmp /\ lastValid' = net.tmp
      /\ UNCHANGED << buffer, disk, bcast, miner, sqlerr >>
R2 == /\ net.pc = "R2"
      /\ buffer' = IF SelectiveClear THEN SelectSeq(buffer, LAMBDA b : b \in lastValid) ELSE << >>
      /\ NGo("done") /\ UNCHANGED << served, lastValid, disk, bcast, miner, sqlerr >>
N6 == /\ net.pc = "N6" /\ served' = net.changed /\ lastValid' = net.changed
      /\ NGo(IF SaveAfterValidation /\ ~SaveBeforePublish THEN "N4" ELSE "N7") /\ UNCHANGED << buffer, disk, bcast, miner, sqlerr >>
Flush == IF FlushOK THEN disk' = disk \cup Range(buffer) /\ buffer' = << >> /\ UNCHANGED sqlerr
         ELSE sqlerr' = (sqlerr \/ buffer # << >>) /\ UNCHANGED << disk, buffer >>
N7 == net.pc = "N7" /\ Flush /\ NGo("N8") /\ UNCHANGED << served, lastValid, bcast, miner >>
N8 == net.pc = "N8" /\ (bcast' = bcast \cup {X} \/ UNCHANGED bcast) /\ NGo("done") /\ UNCHANGED << served, lastValid, buffer, disk, miner, sqlerr >>
N9 == net.pc = "N9" /\ served' = net.changed /\ NGo("done") /\ UNCHANGED << lastValid, buffer, disk, bcast, miner, sqlerr >>

MGo(p) == miner' = [miner EXCEPT !.pc = p]
M1 == miner.pc = "M1" /\ miner' = [pc |-> "M4", snap |-> served] /\ UNCHANGED << served, lastValid, buffer, disk, bcast, net, sqlerr >>
M4 == miner.pc = "M4" /\ miner' = [pc |-> "M5", snap |-> miner.snap \cup {B}] /\ UNCHANGED << served, lastValid, buffer, disk, bcast, net, sqlerr >>
M5 == miner.pc = "M5" /\ served' = miner.snap /\ lastValid' = (IF MinerHandOverValidated THEN miner.snap ELSE lastValid) /\ MGo("M6") /\ UNCHANGED << buffer, disk, bcast, net, sqlerr >>
M6 == miner.pc = "M6" /\ bcast' = bcast \cup {B} /\ MGo("M7") /\ UNCHANGED << served, lastValid, buffer, disk, net, sqlerr >>
M7 == miner.pc = "M7" /\ buffer' = Append(buffer, B) /\ MGo("M8") /\ UNCHANGED << served, lastValid, disk, bcast, net, sqlerr >>
M8 == miner.pc = "M8" /\ Flush /\ MGo("done") /\ UNCHANGED << served, lastValid, bcast, net >>

NetStep == N1 \/ N3 \/ N4 \/ N5 \/ R1 \/ R2 \/ N6 \/ N7 \/ N8 \/ N9
MinerStep == M1 \/ M4 \/ M5 \/ M6 \/ M7 \/ M8
Next == NetStep \/ MinerStep
Spec == Init /\ [][Next]_vars

Rejected == XValidated /\ ~XValid
Quiet == net.pc = "done" /\ miner.pc = "done"
(* C09: a rejected block never appears in the store, nor in the served state once its handling is over *)
I_C09_RejectedNotStored == Rejected => X \notin disk
I_C09_RejectedNotServed == (Rejected /\ net.pc = "done") => X \notin served
(* C01 / C09: "the chain state the node held before the attempt is left exactly as it was" -- when nothing else happens during the attempt *)
I_C09_RejectionLeavesStateAsItWas == (Rejected /\ net.pc = "done" /\ net.quiet) => served = net.prior
(* C09 / C12: "is written to the block store": no flush of accepted blocks fails (a block reaches the chain table only after its parent) *)
I_C09_NoFlushFailure == ~sqlerr
(* C09: an accepted relay block is written to the store *)
I_C09_AcceptedStored == (XValidated /\ XValid /\ net.pc \in {"N8", "done"}) => X \in disk
(* C12: the found block is written to the block store and broadcast; it is part of the served state when the hand-over is made *)
I_C12_FoundStored == (MinerOn /\ miner.pc = "done") => B \in disk
I_C12_FoundBroadcast == (MinerOn /\ miner.pc \in {"M7", "M8", "done"}) => B \in bcast
A_C12_AdoptedAtHandOver == [][(miner.pc = "M5" /\ miner'.pc = "M6") => B \in served']_vars
(* observations beyond the wording of C09 / C12: a block adopted by one thread stays in the served state when both are done *)
O_FoundStaysServed == (MinerOn /\ Quiet) => B \in served
O_AcceptedStaysServed == (XValidated /\ XValid /\ Quiet) => X \in served
=============================================================================
