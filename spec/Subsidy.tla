------------------------------ MODULE Subsidy ------------------------------
(* The monetary schedule (consensus.py get_block_subsidy, params.py, docs/params.md) as an era   *)
(* machine: one step per halving era.  Totals exceed 2^31 and are BigNat digit strings.          *)
EXTENDS Naturals, Sequences, BigNat

CONSTANTS
  Initial,        \* subsidy of era 0 in the smallest unit   (documented: 10 coin = 10^9)
  Interval,       \* blocks per era                          (documented: 1,050,000)
  DocMax,         \* documented maximum supply in the smallest unit, as digits
  LastEra         \* how far the machine runs (>= 64: the code returns 0 from 64 halvings on)

VARIABLES era, sub, total, prev

svars == << era, sub, total, prev >>

RECURSIVE Halved(_, _)
Halved(v, e) == IF e = 0 \/ v = 0 THEN v ELSE Halved(v \div 2, e - 1)
SubsidyOfEra(e) == IF e >= 64 THEN 0 ELSE Halved(Initial, e)      \* Initial \div 2^e without computing 2^e

SInit == era = 0 /\ sub = Initial /\ total = << >> /\ prev = Initial
NextEra == /\ era <= LastEra
           /\ total' = Strip(Add(total, MulSmall(Nat4(sub), Interval)))   \* + Interval * sub
           /\ prev' = sub
           /\ sub' = IF era + 1 >= 64 THEN 0 ELSE sub \div 2
           /\ era' = era + 1
SSpec == SInit /\ [][NextEra]_svars

Finished == era = LastEra + 1
I_ClosedForm   == sub = SubsidyOfEra(era)
I_NonIncreasing == sub <= prev
I_ZeroStaysZero == prev = 0 => sub = 0
I_ZeroFrom30   == (era >= 30 => sub = 0) /\ (era < 30 => sub > 0)      \* 10^9 < 2^30: exhausted at era 30
I_TotalIsDocMax == Finished => Strip(total) = Strip(DocMax)
I_NeverAboveMax == ~Less(Strip(DocMax), Strip(total))
=============================================================================
