---------------------------- MODULE TraceWallet ----------------------------
(* Observed sequences of wallet key operations on the real Wallet and the real wallet.json           *)
(* (get_annotated_public_key, restore_annotated_public_key, save_wallet, Wallet.load).               *)
(* P (C15): a key handed out is never handed out again while unused keys remain (also across save    *)
(* and load, until it is restored); loading returns exactly what was saved.                           *)
EXTENDS Wallet, Json, IOUtils, TLCExt
Traces == JsonDeserialize(IOEnv.TRACE_FILE)
VARIABLES tid, l, done, cur       \* cur: last observed projection [unused, annotated, keypairs]
tv == << used, lastOp, unused, annotated, handed, saved, nops, tid, l, done, cur >>
Ev == Traces[tid].events
Out(c) == PrintT(ToJson(<< "VERDICT", Traces[tid].id, c, l >>))
AnnKeys(p) == {p.annotated[i][1] : i \in 1..Len(p.annotated)}
Clause(e) ==
  LET p == e.post IN
  CASE e.op = "handout" ->
         IF cur.unused # << >> /\ e.key \in handed THEN "C15:key_handed_out_twice_while_unused_keys_remain"
         ELSE IF cur.unused # << >> /\ e.key \notin {cur.unused[i] : i \in 1..Len(cur.unused)} THEN "C15:handed_out_key_was_not_an_unused_key"
         ELSE IF cur.unused # << >> /\ e.key \in {p.unused[i] : i \in 1..Len(p.unused)} THEN "C15:handed_out_key_still_listed_as_unused"
         ELSE IF cur.unused # << >> /\ (e.key \notin AnnKeys(p)) THEN "C15:handed_out_key_not_annotated"
         ELSE IF e.key \notin {p.keypairs[i] : i \in 1..Len(p.keypairs)} THEN "C15:handed_out_key_has_no_private_key"
         ELSE ""
    [] e.op = "restore" ->
         IF e.key \notin {p.unused[i] : i \in 1..Len(p.unused)} \/ e.key \in AnnKeys(p) THEN "C15:restored_key_not_back_in_the_unused_pool" ELSE ""
    [] e.op = "save" ->
         IF e.file # p THEN "C15:saved_file_differs_from_wallet" ELSE ""
    [] e.op = "load" ->
         IF p # saved THEN "C15:loaded_wallet_differs_from_what_was_saved" ELSE ""
    [] OTHER -> "machinery:unknown_event"
Drift(e) == e.op = "handout" /\ cur.unused # << >> /\ e.key # cur.unused[Len(cur.unused)]
TInit == /\ tid \in 1..Len(Traces) /\ l = 1 /\ done = FALSE
         /\ cur = Traces[tid].initial /\ saved = Traces[tid].initial
         /\ unused = << >> /\ annotated = {} /\ handed = AnnKeys(Traces[tid].initial)
         /\ used = {} /\ nops = 0 /\ lastOp = [amount |-> 0, fee |-> 0, res |-> "", ins |-> << >>, change |-> 0]
TNext == /\ ~done /\ l <= Len(Ev) /\ UNCHANGED << tid, used, lastOp, unused, annotated, nops >>
         /\ LET e == Ev[l]
                c == Clause(e)
            IN /\ (Drift(e) => PrintT(ToJson(<< "DRIFT", Traces[tid].id, l, "hand-out does not pop the last unused key" >>)))
               /\ cur' = e.post
               /\ handed' = CASE e.op = "handout" -> handed \cup {e.key}
                              [] e.op = "restore" -> handed \ {e.key}
                              [] e.op = "load" -> AnnKeys(e.post)
                              [] OTHER -> handed
               /\ saved' = IF e.op = "save" THEN e.post ELSE saved
               /\ IF c # "" THEN Out(c) /\ done' = TRUE /\ l' = l
                  ELSE /\ l' = l + 1 /\ done' = (l + 1 > Len(Ev)) /\ ((l + 1 > Len(Ev)) => Out("ok"))
TSpec == TInit /\ [][TNext]_tv
=============================================================================
