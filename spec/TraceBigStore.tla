--------------------------- MODULE TraceBigStore ---------------------------
(* C08 on a store of more than a thousand blocks (a main chain with a competing sibling at every height, a side branch that overtook the    *)
(* head and was overtaken again, written in batches of many sizes): what a restarted node reads back, as the harness observed it, judged     *)
(* here -- exactly the blocks written, each once, byte-identical, each parent before its children, the same ledger and head.                 *)
EXTENDS Naturals, Sequences, FiniteSets, Json, IOUtils, TLC, TLCExt
T == JsonDeserialize(IOEnv.TRACE_FILE)      \* Seq([id, written: Seq(<<id, parent>>), read: Seq(<<id, bytes_equal>>), ledger_equal, head_height_equal])
VARIABLES tid, done
Written(t) == {t.written[i][1] : i \in 1..Len(t.written)}
ReadIds(t) == {t.read[i][1] : i \in 1..Len(t.read)}
Pos(t) == [x \in ReadIds(t) |-> CHOOSE i \in 1..Len(t.read) : t.read[i][1] = x]
Clause(t) ==
  LET pos == Pos(t) IN
  IF Cardinality(ReadIds(t)) # Len(t.read) THEN "C08:block_read_back_twice"
  ELSE IF ReadIds(t) \ Written(t) # {} THEN "C08:block_read_back_that_was_never_written"
  ELSE IF Written(t) \ ReadIds(t) # {} THEN "C08:written_block_missing_on_read_back"
  ELSE IF \E i \in 1..Len(t.read) : ~t.read[i][2] THEN "C08:block_content_differs_on_read_back"
  ELSE IF \E i \in 1..Len(t.written) : t.written[i][2] \in Written(t) /\ pos[t.written[i][2]] > pos[t.written[i][1]] THEN "C08:child_read_before_parent"
  ELSE IF ~t.ledger_equal THEN "C08:rebuilt_ledger_differs"
  ELSE IF ~t.head_height_equal THEN "C08:rebuilt_head_height_differs"
  ELSE "ok"
TInit == tid \in 1..Len(T) /\ done = FALSE
TNext == /\ ~done /\ done' = TRUE /\ UNCHANGED tid
         /\ PrintT(ToJson(<< "VERDICT", T[tid].id, Clause(T[tid]), 1 >>))
TSpec == TInit /\ [][TNext]_<< tid, done >>
=============================================================================
