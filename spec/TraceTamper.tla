---------------------------- MODULE TraceTamper ----------------------------
(* Every single-bit flip and every truncation of the encoding of a fully valid block, offered to the *)
(* real decoder and then to full validation against the same chain.  P (C06): never accepted.        *)
(* M: the rule that fires is one of those that the specification says protect the altered field      *)
(* (Ledger!FirstFailing over MC_Ledger!Tampers -- summary/evidence bits: pow | evidence | a header   *)
(* rule; transaction bits: merkle | evidence | a transaction rule; structure bytes: decode error).   *)
EXTENDS Naturals, Sequences, FiniteSets, TLC, Json, IOUtils, TLCExt
Traces == JsonDeserialize(IOEnv.TRACE_FILE)     \* one trace per block: [id, size, events: Seq([off, bit, field, outcome, rule, same_id, same_content])]
VARIABLES tid, l, done
tv == << tid, l, done >>
Ev == Traces[tid].events
HeaderRules == {"pow", "future", "evidence", "target", "target_error", "ts_order", "height", "cb_height", "parent", "checkpoint", "merkle", "?"}
TxRules == {"merkle", "evidence", "cb_inputs", "cb_notnull", "cb_nodata", "cb_datasize", "cb_height", "tx_noins", "tx_noouts", "tx_range", "tx_dupref",
            "tx_nullref", "tx_nosig", "duptx", "dupref", "notx", "size", "tx_size", "reward", "fees_error", "tx_missing", "tx_sig", "tx_overspend", "?"}
Protects(field) == IF field \in {"summary", "evidence"} THEN HeaderRules
                   ELSE IF field = "summary_height" THEN HeaderRules \cup {"decode"}      \* a VLQ: may become non-canonical or swallow following bytes
                   ELSE IF field = "header_pair" THEN HeaderRules \cup {"decode"}       \* two bytes of the header altered at once
                   ELSE IF field = "header_version" THEN {"decode"}
                   ELSE TxRules \cup {"decode"}
TInit == tid \in 1..Len(Traces) /\ l = 1 /\ done = FALSE
TNext == /\ ~done /\ l <= Len(Ev) /\ UNCHANGED tid
         /\ LET e == Ev[l]
                c == IF e.outcome = "accepted" /\ ~(e.same_id /\ e.same_content)
                     THEN (IF e.same_id THEN "C06:altered_block_with_the_same_id_accepted" ELSE "C06:altered_block_accepted")
                     ELSE IF e.outcome = "accepted" THEN "C06:altered_bytes_decode_to_the_original_block_and_are_accepted"      \* the bytes offered always differ from the original's
                     ELSE ""
                rule == IF e.outcome = "decode_error" THEN "decode" ELSE e.rule
            IN /\ (c = "" /\ e.bit >= 0 /\ rule \notin Protects(e.field) =>
                     PrintT(ToJson(<< "DRIFT", Traces[tid].id, l, "field " \o e.field \o " protected by unexpected rule " \o rule >>)))
               /\ IF c # "" THEN PrintT(ToJson(<< "VERDICT", Traces[tid].id, c, l >>)) /\ done' = TRUE /\ l' = l
                  ELSE /\ l' = l + 1 /\ done' = (l + 1 > Len(Ev))
                       /\ (l + 1 > Len(Ev)) => PrintT(ToJson(<< "VERDICT", Traces[tid].id, "ok", l >>))
TSpec == TInit /\ [][TNext]_tv
=============================================================================
