----------------------------- MODULE KeyEscape -----------------------------
(* A wallet script (scripts/receive.py, scripts/send.py, the miner's start-up in mining.py) as the order of its externally visible steps:   *)
(*   HandOut   wallet.get_annotated_public_key(...)        the last unused key leaves the in-memory pool                                      *)
(*   Save      save_wallet(wallet)                         wallet.json becomes the in-memory wallet (atomically: AtomicFile.tla)              *)
(*   Escape    the key becomes visible outside the process: printed as a receive address, the change output of a broadcast transaction,      *)
(*             the reward key of a block handed to the network                                                                                *)
(*   Crash     the process dies (kill -9, power loss); Restart: a later script run loads wallet.json and hands out a key                      *)
(* SaveBeforeEscape = TRUE is the order the scripts have; FALSE is the necessity run.                                                         *)
EXTENDS Naturals, Sequences, FiniteSets
CONSTANTS Keys,              \* the unused keys of the wallet file, as a sequence (hand-out pops the last)
          SaveBeforeEscape
VARIABLES mem, disk, escaped, pc, again
vars == << mem, disk, escaped, pc, again >>
Init == mem = Keys /\ disk = Keys /\ escaped = {} /\ pc = "start" /\ again = {}
Last(s) == s[Len(s)]
HandOut == /\ pc = "start" /\ mem # << >> /\ pc' = (IF SaveBeforeEscape THEN "save" ELSE "escape")
           /\ mem' = SubSeq(mem, 1, Len(mem) - 1) /\ UNCHANGED << disk, escaped, again >>
Save == /\ pc = "save" /\ disk' = mem /\ pc' = (IF SaveBeforeEscape THEN "escape" ELSE "done") /\ UNCHANGED << mem, escaped, again >>
Escape == /\ pc = "escape" /\ escaped' = escaped \cup {Keys[Len(mem) + 1]}
          /\ pc' = (IF SaveBeforeEscape THEN "done" ELSE "save") /\ UNCHANGED << mem, disk, again >>
Crash == /\ pc \in {"start", "save", "escape", "done"} /\ pc' = "crashed" /\ mem' = disk /\ UNCHANGED << disk, escaped, again >>
Restart == /\ pc = "crashed" /\ mem # << >> /\ again' = {Last(mem)} /\ mem' = SubSeq(mem, 1, Len(mem) - 1) /\ pc' = "restarted"
           /\ UNCHANGED << disk, escaped >>
Next == HandOut \/ Save \/ Escape \/ Crash \/ Restart
Spec == Init /\ [][Next]_vars
(* C15: a key that has been handed out (and has left the process) is never handed out again while unused keys remain *)
I_C15_EscapedKeyNotHandedOutAgain == again \cap escaped = {}
I_EscapedKeysAreUsedOnDisk == \A i \in 1..Len(disk) : disk[i] \notin escaped
=============================================================================
