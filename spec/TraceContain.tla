---------------------------- MODULE TraceContain ----------------------------
(* Observed inputs to a real LocalPeer with three connections (production entry point, real store).   *)
(* P (C20): nothing escapes the handler or the next manager step, the loop flag stays set, chain       *)
(* state / pool / store unchanged unless the input was valid traffic, every other connection untouched. *)
(* M: ignored / closed as the class table of Contain.tla says.                                          *)
EXTENDS Contain, Json, IOUtils, TLCExt
Traces == JsonDeserialize(IOEnv.TRACE_FILE)
VARIABLES tid, l, done, prev
tv == << open, state, alive, tid, l, done, prev >>
Ev == Traces[tid].events
Out(c) == PrintT(ToJson(<< "VERDICT", Traces[tid].id, c, l >>))
SetOf(s) == {s[i] : i \in 1..Len(s)}
TInit == /\ tid \in 1..Len(Traces) /\ l = 1 /\ done = FALSE /\ prev = Traces[tid].initial
         /\ open = SetOf(Traces[tid].initial.open) /\ state = 0 /\ alive = TRUE
Clause(e) ==
  LET p == e.post
      others == SetOf(prev.open) \ {e.peer}
  IN IF p.escaped THEN "C20:exception_escaped_the_event_handler_or_manager_step"
     ELSE IF ~p.running THEN "C20:event_loop_stopped"
     ELSE IF ~p.lock_free THEN "C20:input_left_the_chain_lock_held_so_that_the_event_loop_blocks_at_its_next_use"
     ELSE IF ~(others \subseteq SetOf(p.open)) THEN "C20:another_connection_was_closed"
     ELSE IF ~p.others_served THEN "C20:another_connections_traffic_was_disturbed"
     ELSE IF e.class \notin Valid /\ (p.served # prev.served \/ p.head # prev.head) THEN "C20:malformed_input_changed_chain_state"
     \* (a block taken unvalidated during a bulk download becomes the head for a moment, and C13 has the pool follow every head: pending
     \*  transactions that conflict with it are gone after the roll-back -- the pool is not compared for that class)
     ELSE IF e.class \notin Valid \cup {"invalid_block_in_bulk_then_a_rejected_block"} /\ p.pool # prev.pool THEN "C20:malformed_input_changed_pending_pool"
     ELSE IF e.class \notin Valid /\ (p.rows # prev.rows \/ p.buffer # prev.buffer) THEN "C20:malformed_input_changed_block_store"
     ELSE ""
Drift(e) == LET closed == e.peer \notin SetOf(e.post.open) IN
            \/ (e.class \in Closes /\ ~closed)
            \/ (e.class \in Ignored \cup Valid /\ closed)
Without(s, x) == SelectSeq(s, LAMBDA y : y # x)
TNext == /\ ~done /\ l <= Len(Ev) /\ UNCHANGED << tid, state, alive >>
         /\ LET e == Ev[l] IN
            IF e.op = "harness_close" THEN       \* the harness (playing the remote side) hangs up / dials in: not the node's doing
               /\ prev' = [prev EXCEPT !.open = Without(@, e.peer)] /\ open' = open \ {e.peer}
               /\ l' = l + 1 /\ done' = (l + 1 > Len(Ev)) /\ ((l + 1 > Len(Ev)) => Out("ok"))
            ELSE IF e.op = "harness_connect" THEN
               /\ prev' = [prev EXCEPT !.open = Append(@, e.peer)] /\ open' = open \cup {e.peer}
               /\ l' = l + 1 /\ done' = (l + 1 > Len(Ev)) /\ ((l + 1 > Len(Ev)) => Out("ok"))
            ELSE
            /\ (Drift(e) => PrintT(ToJson(<< "DRIFT", Traces[tid].id, l, "class " \o e.class \o ": ignored/closed differs from Contain's table" >>)))
            /\ open' = SetOf(e.post.open)
            /\ prev' = e.post
            /\ LET c == Clause(e) IN
               IF c # "" THEN Out(c) /\ done' = TRUE /\ l' = l
               ELSE /\ l' = l + 1 /\ done' = (l + 1 > Len(Ev)) /\ ((l + 1 > Len(Ev)) => Out("ok"))
TSpec == TInit /\ [][TNext]_tv
=============================================================================
