-------------------------------- MODULE Net --------------------------------
(* Block and transaction synchronisation between honest nodes (networking/remote_peer.py,            *)
(* networking/manager.py): the locator (get_recent_block_heights), the inventory service              *)
(* (handle_get_blocks_message_received -- its for/else transcribed literally), inventory consumption   *)
(* (handle_inventory_message_received / check_inventory_messages / remove_from_inventory), data         *)
(* requests, block receipt with the relay condition, transaction relay, and the periodic fetch step     *)
(* (ChainManager.step, at most two outstanding fetches).  Channels are FIFO per directed link.          *)
(*                                                                                                     *)
(* Time: all nodes share one (virtual) clock.  Tick = more than 60 s pass: every fetch entry times out  *)
(* and every empty-inventory back-off ends, at every node.  The periodic step and the tick are the       *)
(* "timer actions"; each node may take K of them at arbitrary points (the adversarial part), after       *)
(* which timers fire only when nothing is in flight, in fair rounds over (node, peer) pairs -- the        *)
(* fairness random.choice gives with probability 1 made explicit.  Convergence is then the invariant      *)
(* Settled => Converged (bounded liveness; the inventory bookkeeping of the code is unbounded, see        *)
(* DESIGN.md section 7/C10).                                                                              *)
EXTENDS Naturals, Integers, Sequences, FiniteSets, TLC

CONSTANTS
  Nodes, Peers,          \* Peers[n]: the nodes n is connected to
  Blocks, Parent,        \* the block universe: ids 0..N, Parent[b] (Parent[0] = 0 is the shared genesis)
  Init0,                 \* Init0[n]: the parent-closed set of blocks node n starts with (first-seen order = ascending id)
  Txs,                   \* transaction ids (each valid at every head: spends an output no block touches)
  Batch,                 \* GET_BLOCKS_INVENTORY_SIZE
  K, R                   \* timer budget per node; number of fair quiescent rounds

VARIABLES
  has, head, pool,       \* per node: stored blocks, active head, pending transactions (sequence)
  waiting, backoff,      \* per (node, peer): waiting_for_inventory; empty-inventory back-off in force
  inv,                   \* per (node, peer): inventory_messages -- sequence of sequences of block ids
  fetching,              \* per node: actively_fetching_blocks_from_peers (sequence of peers)
  chan,                  \* per directed link: FIFO of messages
  relayedB, relayedT,    \* per node: how often it relayed block b / transaction t on receipt (history)
  budget, qrounds, done  \* time structure

nvars == << has, head, pool, waiting, backoff, inv, fetching, chan, relayedB, relayedT, budget, qrounds, done >>

RECURSIVE Height(_)
Height(b) == IF b = 0 THEN 0 ELSE 1 + Height(Parent[b])
RECURSIVE AncAt(_, _)
AncAt(b, h) == IF Height(b) = h THEN b ELSE AncAt(Parent[b], h)
Active(n, h) == AncAt(head[n], h)           \* block of n's active chain at height h <= Height(head[n])
HH(n) == Height(head[n])
MaxH(S) == CHOOSE h \in {Height(b) : b \in S} : \A b \in S : Height(b) <= h
FirstBest(S) == CHOOSE b \in S : Height(b) = MaxH(S) /\ \A c \in S : Height(c) = MaxH(S) => b <= c

Oldness == << 0, 1, 2, 3, 4, 5, 6, 7, 8, 9, 16, 25, 36, 49, 64 >>      \* get_recent_block_heights (prefix that matters here)
Locator(n) == LET hs == SelectSeq(Oldness, LAMBDA o : o <= HH(n))
              IN [i \in 1..Len(hs) |-> Active(n, HH(n) - hs[i])]

(* the for/else over potential_start_hashes; note that start_height is assigned before the active-chain test *)
RECURSIVE Scan(_, _, _)
Scan(r, loc, i) ==
  IF i > Len(loc) THEN [kind |-> "from", start |-> 1]
  ELSE LET h == loc[i] IN
       IF h \in has[r] THEN
          LET st == Height(h) + 1 IN
          IF st > HH(r) THEN [kind |-> "empty", start |-> 0]
          ELSE IF Parent[Active(r, st)] = h THEN [kind |-> "from", start |-> st]
          ELSE Scan(r, loc, i + 1)
       ELSE Scan(r, loc, i + 1)
Items(r, st) == LET last == IF st + Batch - 1 < HH(r) THEN st + Batch - 1 ELSE HH(r)
                IN [i \in 1..(last - st + 1) |-> Active(r, st + i - 1)]

Send(c, s, r, msgs) == [c EXCEPT ![s][r] = @ \o msgs]
SendAll(c, s, msg) == [x \in Nodes |-> [y \in Nodes |-> IF x = s /\ y \in Peers[s] THEN Append(c[x][y], msg) ELSE c[x][y]]]

(* remove_from_inventory: walk the messages; drop the first occurrence in each; stop after a message that became empty *)
RemoveFirst(s, b) == IF \E j \in 1..Len(s) : s[j] = b
                     THEN LET j == CHOOSE k \in 1..Len(s) : s[k] = b /\ \A m \in 1..(k - 1) : s[m] # b
                          IN SubSeq(s, 1, j - 1) \o SubSeq(s, j + 1, Len(s))
                     ELSE s
RECURSIVE RemoveFromInv(_, _, _)
RemoveFromInv(q, b, i) ==
  IF i > Len(q) THEN q
  ELSE LET m == RemoveFirst(q[i], b) IN
       IF m = << >> THEN SubSeq(q, 1, i - 1) \o SubSeq(q, i + 1, Len(q))
       ELSE RemoveFromInv([q EXCEPT ![i] = m], b, i + 1)

Handled(n, p) == ~waiting[n][p] /\ inv[n][p] = << >>           \* inventory_batch_handled
Quiet == \A s \in Nodes : \A r \in Nodes : chan[s][r] = << >>
TimerOK(n) == budget[n] > 0
Spend(n) == budget' = [budget EXCEPT ![n] = @ - 1] /\ UNCHANGED << qrounds, done >>

(* ChainManager.step with random.choice = m *)
StepEffect(n, m) ==
  LET f == SelectSeq(fetching[n], LAMBDA p : ~Handled(n, p)) IN
  IF Len(f) > 1 THEN /\ fetching' = [fetching EXCEPT ![n] = f]
                     /\ UNCHANGED << waiting, chan >>
  ELSE /\ fetching' = [fetching EXCEPT ![n] = Append(f, m)]
       /\ waiting' = [waiting EXCEPT ![n][m] = TRUE]
       /\ chan' = Send(chan, n, m, << [t |-> "GB", loc |-> Locator(n)] >>)
Step(n, m) ==
  /\ m \in Peers[n] /\ ~backoff[n][m] /\ TimerOK(n) /\ Spend(n)
  /\ StepEffect(n, m)
  /\ UNCHANGED << has, head, pool, backoff, inv, relayedB, relayedT >>

Tick(n) ==       \* > 60 s pass (charged to node n's budget): all fetch entries time out, all back-offs end
  /\ TimerOK(n) /\ Spend(n)
  /\ fetching' = [x \in Nodes |-> << >>]
  /\ backoff' = [x \in Nodes |-> [y \in Nodes |-> FALSE]]
  /\ UNCHANGED << has, head, pool, waiting, inv, chan, relayedB, relayedT >>

QuietRound(n, m) ==      \* a fair round: time has passed, node n's periodic step picks peer m
  /\ Quiet /\ m \in Peers[n] /\ qrounds < R /\ << n, m >> \notin done
  /\ done' = done \cup {<< n, m >>} /\ UNCHANGED << qrounds, budget >>
  /\ backoff' = [x \in Nodes |-> [y \in Nodes |-> FALSE]]
  /\ fetching' = [x \in Nodes |-> IF x = n THEN << m >> ELSE << >>]
  /\ waiting' = [waiting EXCEPT ![n][m] = TRUE]
  /\ chan' = Send(chan, n, m, << [t |-> "GB", loc |-> Locator(n)] >>)
  /\ UNCHANGED << has, head, pool, inv, relayedB, relayedT >>
AllPairs == { << n, m >> : n \in Nodes, m \in Nodes } \cap { p \in Nodes \X Nodes : p[2] \in Peers[p[1]] }
NextRound == /\ Quiet /\ done = AllPairs /\ qrounds < R
             /\ qrounds' = qrounds + 1 /\ done' = {}
             /\ UNCHANGED << has, head, pool, waiting, backoff, inv, fetching, chan, relayedB, relayedT, budget >>

(* a node originates a transaction (wallet / send script): admitted locally and sent to every peer *)
Originate(n, t) ==
  /\ t \in Txs /\ \A k \in 1..Len(pool[n]) : pool[n][k] # t
  /\ pool' = [pool EXCEPT ![n] = Append(@, t)]
  /\ chan' = SendAll(chan, n, [t |-> "TX", x |-> t])
  /\ UNCHANGED << has, head, waiting, backoff, inv, fetching, relayedB, relayedT, budget, qrounds, done >>

(* the receiving handlers: message m arrives at r on the link from s; c1 = the channels without that message *)
DeliverMsg(s, r, m, c1) ==
  /\ UNCHANGED << budget, qrounds, done >>
  /\ CASE m.t = "GB" ->
            LET res == Scan(r, m.loc, 1)
                items == IF res.kind = "empty" THEN << >> ELSE Items(r, res.start) IN
            /\ chan' = Send(c1, r, s, << [t |-> "INV", items |-> items] >>)
            /\ UNCHANGED << has, head, pool, waiting, backoff, inv, fetching, relayedB, relayedT >>
       [] m.t = "INV" ->
            IF m.items = << >> THEN
               /\ backoff' = [backoff EXCEPT ![r][s] = TRUE]
               /\ waiting' = [waiting EXCEPT ![r][s] = FALSE]
               /\ chan' = c1
               /\ UNCHANGED << has, head, pool, inv, fetching, relayedB, relayedT >>
            ELSE
               LET want == SelectSeq(m.items, LAMBDA b : b \notin has[r])
                   gds == [i \in 1..Len(want) |-> [t |-> "GD", b |-> want[i]]] IN
               /\ inv' = [inv EXCEPT ![r][s] = Append(@, m.items)]
               /\ chan' = Send(c1, r, s, gds \o << [t |-> "GB", loc |-> << m.items[Len(m.items)] >>] >>)
               /\ UNCHANGED << has, head, pool, waiting, backoff, fetching, relayedB, relayedT >>
       [] m.t = "GD" ->
            /\ chan' = IF m.b \in has[r] THEN Send(c1, r, s, << [t |-> "DATA", b |-> m.b, irt |-> TRUE] >>) ELSE c1
            /\ UNCHANGED << has, head, pool, waiting, backoff, inv, fetching, relayedB, relayedT >>
       [] m.t = "DATA" ->
            /\ inv' = [inv EXCEPT ![r][s] = RemoveFromInv(@, m.b, 1)]
            /\ IF m.b \in has[r] \/ Parent[m.b] \notin has[r] THEN
                  /\ chan' = c1 /\ UNCHANGED << has, head, relayedB >>
               ELSE
                  LET newhead == IF Height(m.b) > HH(r) THEN m.b ELSE head[r]
                      relay == newhead = m.b /\ ~m.irt IN
                  /\ has' = [has EXCEPT ![r] = @ \cup {m.b}]
                  /\ head' = [head EXCEPT ![r] = newhead]
                  /\ relayedB' = IF relay THEN [relayedB EXCEPT ![r][m.b] = @ + 1] ELSE relayedB
                  /\ chan' = IF relay THEN SendAll(c1, r, [t |-> "DATA", b |-> m.b, irt |-> FALSE]) ELSE c1
            /\ UNCHANGED << pool, waiting, backoff, fetching, relayedT >>
       [] m.t = "TX" ->
            IF \E k \in 1..Len(pool[r]) : pool[r][k] = m.x THEN
               /\ chan' = c1 /\ UNCHANGED << has, head, pool, waiting, backoff, inv, fetching, relayedB, relayedT >>
            ELSE
               /\ pool' = [pool EXCEPT ![r] = Append(@, m.x)]
               /\ relayedT' = [relayedT EXCEPT ![r][m.x] = @ + 1]
               /\ chan' = SendAll(c1, r, [t |-> "TX", x |-> m.x])
               /\ UNCHANGED << has, head, waiting, backoff, inv, fetching, relayedB >>

Deliver(s, r) == /\ chan[s][r] # << >>
                 /\ DeliverMsg(s, r, Head(chan[s][r]), [chan EXCEPT ![s][r] = Tail(@)])

NInit == /\ has = Init0
         /\ head = [n \in Nodes |-> FirstBest(Init0[n])]
         /\ pool = [n \in Nodes |-> << >>]
         /\ waiting = [n \in Nodes |-> [m \in Nodes |-> FALSE]]
         /\ backoff = [n \in Nodes |-> [m \in Nodes |-> FALSE]]
         /\ inv = [n \in Nodes |-> [m \in Nodes |-> << >>]]
         /\ fetching = [n \in Nodes |-> << >>]
         /\ chan = [n \in Nodes |-> [m \in Nodes |-> << >>]]
         /\ relayedB = [n \in Nodes |-> [b \in Blocks |-> 0]]
         /\ relayedT = [n \in Nodes |-> [t \in Txs |-> 0]]
         /\ budget = [n \in Nodes |-> K]
         /\ qrounds = 0 /\ done = {}

NNext == \/ \E n \in Nodes : \E m \in Nodes : Step(n, m)
         \/ \E n \in Nodes : Tick(n)
         \/ \E s \in Nodes : \E r \in Nodes : Deliver(s, r)
         \/ \E n \in Nodes : \E m \in Nodes : QuietRound(n, m)
         \/ NextRound
NSpec == NInit /\ [][NNext]_nvars

(* ---- properties (C10) ---- *)
MaxInitialHeight == MaxH(UNION {Init0[n] : n \in Nodes})
ParentClosed == \A n \in Nodes : \A b \in has[n] : Parent[b] \in has[n]
HeadStored == \A n \in Nodes : head[n] \in has[n]
RelayOnce == /\ \A n \in Nodes : \A b \in Blocks : relayedB[n][b] <= 1
             /\ \A n \in Nodes : \A t \in Txs : relayedT[n][t] <= 1
InvBounded == \A s \in Nodes : \A r \in Nodes : \A i \in 1..Len(chan[s][r]) :
                 chan[s][r][i].t = "INV" => Len(chan[s][r][i].items) <= Batch
Settled == Quiet /\ qrounds = R
Converged == \A n \in Nodes : HH(n) = MaxInitialHeight
ConvergedWhenSettled == Settled => Converged
=============================================================================
