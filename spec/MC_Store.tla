------------------------------ MODULE MC_Store ------------------------------
(* Bounded instance of Store: a fixed universe of blocks forming a tree with transactions (forks    *)
(* that contain the same pending transaction, multi-input / multi-output), every parent-before-      *)
(* child arrival order and every batching of arrivals into flushes.                                  *)
EXTENDS Store, Json
CONSTANTS Universe,      \* function id -> block (genesis = id 0)
          EmitHist
VARIABLES arrived, written, hist
mv == << chainT, locT, outT, inT, buffer, txnOpen, arrived, written, hist >>

Init == SInit(Universe[0]) /\ arrived = {0} /\ written = {0} /\ hist = << >>
Arrive(i) == /\ i \notin arrived /\ Universe[i].parent \in arrived
             /\ BufferBlock(Universe[i])
             /\ arrived' = arrived \cup {i} /\ UNCHANGED written
             /\ hist' = Append(hist, [op |-> "buffer", id |-> i])
Flush == /\ buffer # << >>
         /\ \/ (FlushOK /\ written' = written \cup { buffer[k].id : k \in 1..Len(buffer) } /\ hist' = Append(hist, [op |-> "flush", id |-> 0]))
            \/ (FlushRaises /\ UNCHANGED written /\ hist' = Append(hist, [op |-> "flush_raises", id |-> 0]))
         /\ UNCHANGED arrived
Next == (\E i \in DOMAIN Universe : Arrive(i)) \/ Flush
Spec == Init /\ [][Next]_mv

(* C08: after every committed flush, reading back yields exactly the blocks written, each with its full *)
(* ordered transaction list                                                                             *)
I_C08_ReadBack == (buffer = << >> /\ ~txnOpen) =>
   ReadSet = { [id |-> i, parent |-> Universe[i].parent, height |-> Universe[i].height,
                txids |-> [k \in 1..Len(Universe[i].txs) |-> Universe[i].txs[k].id]] : i \in written }
I_NoFlushFailure == ~txnOpen         \* honest, parent-first traffic never breaks the store
Done == arrived = DOMAIN Universe /\ buffer = << >>
I_Emit == (EmitHist /\ Done) => PrintT(ToJson(<< "HIST", hist >>))
View == << chainT, locT, outT, inT, buffer, txnOpen, arrived, written >>
=============================================================================
