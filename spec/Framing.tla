------------------------------ MODULE Framing ------------------------------
(* The incremental stream parser MessageReceiver.receive (networking/remote_peer.py:83-123),      *)
(* transcribed statement by statement including its recursion, over real bytes; and a declarative  *)
(* reference parse of a byte string.  Property C11: for every cutting of the stream into reads,     *)
(* what has been handed on and whether / where the stream was refused equals the reference parse    *)
(* of the bytes received so far.                                                                    *)
EXTENDS Naturals, Sequences, BigNat

CONSTANTS Magic,       \* << 77, 65, 74, 73 >>  "MAJI"
          MaxSize      \* MAX_MESSAGE_SIZE (32 MiB; fits a TLC integer)

VARIABLES rest,        \* bytes of the stream not yet read by the transport
          got,         \* number of bytes received so far
          buf, magicRead, len,     \* the receiver's fields; len = -1 is None
          delivered,   \* bodies handed to handle_message_data: << [start, n] >> (offsets into the stream)
          refused      \* "" | "magic" | "size"   (an exception left receive())

fvars == << rest, got, buf, magicRead, len, delivered, refused >>
NoLen == 0 - 1
Drop(s, k) == SubSeq(s, k + 1, Len(s))
MaxDigits == Nat4(MaxSize)

(* one call of receive(data), as a function on the receiver's state; `off` = stream offset of buf[1] *)
RECURSIVE Rcv(_, _)
Rcv(st, data) ==
  LET b0 == st.buf \o data
      \* if not self.magic_read and len(self.buffer) >= 4
      badMagic == ~st.magicRead /\ Len(b0) >= 4 /\ SubSeq(b0, 1, 4) # Magic
      mr1 == st.magicRead \/ (Len(b0) >= 4)
      b1 == IF ~st.magicRead /\ Len(b0) >= 4 THEN Drop(b0, 4) ELSE b0
      off1 == IF ~st.magicRead /\ Len(b0) >= 4 THEN st.off + 4 ELSE st.off
      \* if self.len is None and len(self.buffer) >= 4   (note: not conditional on magic_read)
      readLen == st.len = NoLen /\ Len(b1) >= 4
      tooBig == readLen /\ Less(MaxDigits, SubSeq(b1, 1, 4))
      len2 == IF readLen /\ ~tooBig THEN Val(SubSeq(b1, 1, 4)) ELSE st.len
      b2 == IF readLen THEN Drop(b1, 4) ELSE b1
      off2 == IF readLen THEN off1 + 4 ELSE off1
  IN IF badMagic THEN [st EXCEPT !.buf = b0, !.refused = "magic"]
     ELSE IF tooBig THEN [st EXCEPT !.buf = b1, !.off = off1, !.magicRead = mr1, !.refused = "size"]
     ELSE IF len2 # NoLen /\ len2 <= Len(b2)
          THEN Rcv([buf |-> Drop(b2, len2), off |-> off2 + len2, magicRead |-> FALSE, len |-> NoLen,
                    delivered |-> Append(st.delivered, [start |-> off2, n |-> len2]), refused |-> ""], << >>)
          ELSE [buf |-> b2, off |-> off2, magicRead |-> mr1, len |-> len2, delivered |-> st.delivered, refused |-> ""]

St == [buf |-> buf, off |-> got - Len(buf), magicRead |-> magicRead, len |-> len, delivered |-> delivered, refused |-> ""]

Recv(k) ==      \* the transport hands over the next k bytes
  /\ refused = "" /\ k \in 1..Len(rest)
  /\ LET r == Rcv(St, SubSeq(rest, 1, k))
     IN /\ buf' = r.buf /\ magicRead' = r.magicRead /\ len' = r.len
        /\ delivered' = r.delivered /\ refused' = r.refused
  /\ rest' = Drop(rest, k) /\ got' = got + k

FInit(stream) == /\ rest = stream /\ got = 0 /\ buf = << >> /\ magicRead = FALSE /\ len = NoLen
                 /\ delivered = << >> /\ refused = ""

(* the declarative reference: frames in order, from offset p (0-based) of the byte string s *)
RECURSIVE Ref(_, _, _)
Ref(s, p, acc) ==
  IF Len(s) - p < 4 THEN [delivered |-> acc, refused |-> "", at |-> 0]
  ELSE IF SubSeq(s, p + 1, p + 4) # Magic THEN [delivered |-> acc, refused |-> "magic", at |-> p + 4]
  ELSE IF Len(s) - p < 8 THEN [delivered |-> acc, refused |-> "", at |-> 0]
  ELSE IF Less(MaxDigits, SubSeq(s, p + 5, p + 8)) THEN [delivered |-> acc, refused |-> "size", at |-> p + 8]
  ELSE LET n == Val(SubSeq(s, p + 5, p + 8))
       IN IF Len(s) - p - 8 < n THEN [delivered |-> acc, refused |-> "", at |-> 0]
          ELSE Ref(s, p + 8 + n, Append(acc, [start |-> p + 8, n |-> n]))
=============================================================================
