-------------------------- MODULE TraceAtomicFile --------------------------
(* System calls of a real process performing a save (recorded with strace), as events; the          *)
(* invariant of AtomicFile is evaluated after every call: each prefix is a crash point.              *)
EXTENDS AtomicFile, Json, IOUtils, TLCExt
Traces == JsonDeserialize(IOEnv.TRACE_FILE)
VARIABLES tid, l, done
tv == << fs, fd, tid, l, done >>
Ev == Traces[tid].events
Out(c) == PrintT(ToJson(<< "VERDICT", Traces[tid].id, c, l >>))
TInit == /\ tid \in 1..Len(Traces) /\ l = 1 /\ done = FALSE /\ AFInit
Apply(e) == CASE e.op = "open" -> Open(e.fd, e.path, e.trunc)
              [] e.op = "write" -> IF e.fd \in DOMAIN fd THEN Write(e.fd, e.n) ELSE UNCHANGED afvars
              [] e.op = "close" -> IF e.fd \in DOMAIN fd THEN Close(e.fd) ELSE UNCHANGED afvars
              [] e.op = "rename" -> IF e.a \in DOMAIN fs THEN Rename(e.a, e.b) ELSE UNCHANGED afvars
              [] e.op = "unlink" -> Unlink(e.path)
TNext == /\ ~done /\ l <= Len(Ev) /\ UNCHANGED tid
         /\ Apply(Ev[l])
         /\ IF ~(Target \in DOMAIN fs' /\ (fs'[Target].ver = "old" \/ (fs'[Target].ver = "new" /\ fs'[Target].n = Traces[tid].newsize)))
            THEN Out(Traces[tid].prop \o ":file_neither_complete_old_nor_complete_new_after_this_call") /\ done' = TRUE /\ l' = l
            ELSE /\ l' = l + 1 /\ done' = (l + 1 > Len(Ev))
                 /\ (l + 1 > Len(Ev)) =>
                      (IF fs'[Target].ver = "new" THEN Out("ok") ELSE Out(Traces[tid].prop \o ":save_did_not_replace_the_file"))
TSpec == TInit /\ [][TNext]_tv
=============================================================================
