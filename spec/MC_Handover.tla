---------------------------- MODULE MC_Handover ----------------------------
(* Handover with a history variable: every interleaving of the two threads' lines is a separate behaviour, printed when both are done. *)
EXTENDS Handover, Json, TLC
CONSTANTS EmitHist
VARIABLES hist
mv == << served, lastValid, buffer, disk, bcast, net, miner, sqlerr, hist >>
MInit == Init /\ hist = << >>
MNext == \/ (NetStep /\ hist' = Append(hist, [t |-> "net", a |-> net.pc]))
         \/ (MinerStep /\ hist' = Append(hist, [t |-> "miner", a |-> miner.pc]))
MSpec == MInit /\ [][MNext]_mv
Outcome == [x_on_disk |-> X \in disk, b_on_disk |-> B \in disk, x_served |-> X \in served, b_served |-> B \in served,
            b_bcast |-> B \in bcast]
I_Emit == (EmitHist /\ Quiet) => PrintT(ToJson(<< "HIST", hist, Outcome >>))
View == << served, lastValid, buffer, disk, bcast, net, miner, sqlerr >>
=============================================================================
