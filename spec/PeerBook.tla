------------------------------ MODULE PeerBook ------------------------------
(* The peer book of a node: NetworkManager.connected_peers / disconnected_peers / my_addresses        *)
(* (networking/manager.py:44-107), the reconnect back-off (remote_peer.py:153 is_time_to_connect),     *)
(* greeting handling incl. self-connection detection and the reverse-direction entry                   *)
(* (remote_peer.py:312-341), announced peers (:543) and the peers file (disk_interface.py:70-88).       *)
(* One action per handler; the duplicate-key branch of handle_peer_connected is its own disjunct.       *)
EXTENDS Naturals, Integers, Sequences, FiniteSets, TLC

CONSTANTS
  MaxAttempts,      \* MAX_CONNECTION_ATTEMPTS
  FirstWait,        \* TIME_TO_SECOND_CONNECTION_ATTEMPT  (10)
  MaxWait,          \* MAX_TIME_BETWEEN_CONNECTION_ATTEMPTS (1800)
  FileMax           \* PEERS_JSON_MAX_LEN (100)

VARIABLES
  connected,        \* key -> [hello, ban, last]        key = [h, p, d]
  disconnected,     \* key -> [ban, last]               last = -1: never attempted
  myAddrs,          \* set of << host, port >>
  clock,
  attempts,         \* history: sequence of [key, t]  (calls of start_outgoing_connection)
  peersFile,        \* sequence of keys (most recent first)
  broken            \* _sanity_check raised: the node's network loop ends
pvars == << connected, disconnected, myAddrs, clock, attempts, peersFile, broken >>

None == 0 - 1
Key(h, p, d) == [h |-> h, p |-> p, d |-> d]
Pow2(n) == 2 ^ n
Wait(ban) == IF ban >= 11 \/ FirstWait * Pow2(ban) > MaxWait THEN MaxWait ELSE FirstWait * Pow2(ban)    \* min(10 * 2^ban, 1800)
TimeToConnect(r, now) == /\ ~(r.ban > MaxAttempts)
                         /\ (r.last = None \/ now - r.last >= Wait(r.ban))
Sane(c, d) == DOMAIN c \cap DOMAIN d = {}
Drop(f, k) == [x \in (DOMAIN f) \ {k} |-> f[x]]

(* handle_peer_disconnected for key k of the connected map c / disconnected map d *)
AfterDisconnect(c, d, k) ==
  LET r == c[k]
      ban == IF k.d = "OUTGOING" /\ ~r.hello THEN r.ban + 1 ELSE r.ban
  IN [c |-> Drop(c, k),
      d |-> IF k.d = "OUTGOING" THEN (k :> [ban |-> ban, last |-> r.last]) @@ d ELSE d]

(* handle_peer_connected: the duplicate-key branch first drops the existing connection *)
AfterConnect(c, d, k, rec) ==
  LET s == IF k \in DOMAIN c THEN AfterDisconnect(c, d, k) ELSE [c |-> c, d |-> d]
  IN [c |-> (k :> rec) @@ s.c, d |-> Drop(s.d, k)]

Tick(dt) == clock' = clock + dt /\ UNCHANGED << connected, disconnected, myAddrs, attempts, peersFile, broken >>

(* NetworkManager.step: every disconnected OUTGOING peer that is due is attempted (in map order) *)
Due(now) == { k \in DOMAIN disconnected : k.d = "OUTGOING" /\ << k.h, k.p >> \notin myAddrs /\ TimeToConnect(disconnected[k], now) }
RECURSIVE ConnectAll(_, _, _, _)
ConnectAll(c, d, ks, now) ==
  IF ks = {} THEN [c |-> c, d |-> d]
  ELSE LET k == CHOOSE x \in ks : TRUE
           r == AfterConnect(c, d, k, [hello |-> FALSE, ban |-> d[k].ban, last |-> now])
       IN ConnectAll(r.c, r.d, ks \ {k}, now)
RECURSIVE AttemptSeq(_, _)
AttemptSeq(ks, now) == IF ks = {} THEN << >>
                       ELSE LET k == CHOOSE x \in ks : TRUE IN << [key |-> k, t |-> now] >> \o AttemptSeq(ks \ {k}, now)
StepConnect ==
  IF ~Sane(connected, disconnected) THEN broken' = TRUE /\ UNCHANGED << connected, disconnected, myAddrs, clock, attempts, peersFile >>
  ELSE LET due == Due(clock)
           r == ConnectAll(connected, disconnected, due, clock)
       IN /\ connected' = r.c /\ disconnected' = r.d
          /\ attempts' = attempts \o AttemptSeq(due, clock)
          /\ UNCHANGED << myAddrs, clock, peersFile, broken >>

Incoming(h, p) ==
  LET k == Key(h, p, "INCOMING")
      r == AfterConnect(connected, disconnected, k, [hello |-> FALSE, ban |-> 0, last |-> None])
  IN connected' = r.c /\ disconnected' = r.d /\ UNCHANGED << myAddrs, clock, attempts, peersFile, broken >>

PeerDisconnected(k) ==
  /\ k \in DOMAIN connected
  /\ LET r == AfterDisconnect(connected, disconnected, k) IN connected' = r.c /\ disconnected' = r.d
  /\ UNCHANGED << myAddrs, clock, attempts, peersFile, broken >>

WriteFile(f, k) == LET keep == SelectSeq(f, LAMBDA x : x # k)
                       all == << k >> \o keep
                   IN IF Len(all) > FileMax THEN SubSeq(all, 1, FileMax) ELSE all

Hello(k, theirPort, isSelf) ==       \* handle_hello_message_received
  /\ k \in DOMAIN connected
  /\ LET c1 == [connected EXCEPT ![k].hello = TRUE, ![k].ban = 0]
         k2 == Key(k.h, theirPort, "OUTGOING")
         d1 == IF k.d = "INCOMING" /\ k2 \notin DOMAIN disconnected /\ k2 \notin DOMAIN c1
               THEN (k2 :> [ban |-> 0, last |-> None]) @@ disconnected ELSE disconnected
     IN /\ peersFile' = IF k.d = "OUTGOING" THEN WriteFile(peersFile, k) ELSE peersFile
        /\ IF k.d = "OUTGOING" /\ isSelf
           THEN /\ myAddrs' = myAddrs \cup {<< k.h, k.p >>}
                /\ LET r == AfterDisconnect(c1, d1, k) IN connected' = r.c /\ disconnected' = r.d
           ELSE /\ connected' = c1 /\ disconnected' = d1 /\ UNCHANGED myAddrs
  /\ UNCHANGED << clock, attempts, broken >>

PeersAnnounced(k, S) ==              \* handle_peers_message_received: announced peers never overwrite known ones
  /\ k \in DOMAIN connected /\ connected[k].hello
  /\ disconnected' = [x \in DOMAIN disconnected \cup { Key(a[1], a[2], "OUTGOING") : a \in { b \in S : Key(b[1], b[2], "OUTGOING") \notin DOMAIN connected } } |->
                        IF x \in DOMAIN disconnected THEN disconnected[x] ELSE [ban |-> 0, last |-> None]]
  /\ UNCHANGED << connected, myAddrs, clock, attempts, peersFile, broken >>

PInit(disc) == /\ connected = [x \in {} |-> 0] /\ disconnected = disc /\ myAddrs = {} /\ clock = 1000
               /\ attempts = << >> /\ peersFile = << >> /\ broken = FALSE

(* ---- P (C19) ---- *)
I_C19_NeverBoth == Sane(connected, disconnected) /\ ~broken
(* the back-off, judged on the history alone: k = consecutive earlier attempts to the key since its last greeting *)
I_C19_NoAttemptToSelf == \A i \in 1..Len(attempts) : TRUE     \* (stated on steps in MC_PeerBook / TracePeerBook: needs the time of detection)
I_C19_FileBounded == Len(peersFile) <= FileMax /\ \A i, j \in 1..Len(peersFile) : i # j => peersFile[i] # peersFile[j]
=============================================================================
