--------------------------- MODULE TraceKeyEscape ---------------------------
(* Observed runs of the real wallet scripts (forked process, killed after its k-th visible step), then a restart through the program's own   *)
(* start-up path handing out a key: the events, in the order the process performed them, are followed in KeyEscape's state (mem / disk /      *)
(* escaped) and judged.  Keys are numbered by their position in the wallet file's unused list.                                                *)
EXTENDS Naturals, Sequences, FiniteSets, Json, IOUtils, TLC, TLCExt
Traces == JsonDeserialize(IOEnv.TRACE_FILE)     \* Seq([id, script, nkeys, events: Seq([op, k, unused])])
VARIABLES tid, l, done, mem, disk, escaped
tv == << tid, l, done, mem, disk, escaped >>
Tr == Traces[tid]
Ev == Tr.events
Out(c) == PrintT(ToJson(<< "VERDICT", Tr.id, c, l >>))
Drift(m) == PrintT(ToJson(<< "DRIFT", Tr.id, l, m >>))
SetOf(s) == {s[i] : i \in 1..Len(s)}
TInit == /\ tid \in 1..Len(Traces) /\ l = 1 /\ done = FALSE
         /\ mem = [i \in 1..Traces[tid].nkeys |-> i] /\ disk = [i \in 1..Traces[tid].nkeys |-> i] /\ escaped = {}
Step(e) ==
  CASE e.op = "handout" -> /\ mem' = (IF mem = << >> THEN mem ELSE SubSeq(mem, 1, Len(mem) - 1)) /\ UNCHANGED << disk, escaped >>
                           /\ (mem # << >> /\ e.k # mem[Len(mem)] => Drift("the key handed out is not the last unused one (Wallet!HandOut)"))
    [] e.op = "save"    -> /\ disk' = mem /\ UNCHANGED << mem, escaped >>
                           /\ (e.unused # mem => Drift("wallet.json after save_wallet is not the in-memory pool"))
    [] e.op = "escape"  -> escaped' = escaped \cup SetOf(e.keys) /\ UNCHANGED << mem, disk >>
    [] e.op = "crash"   -> mem' = disk /\ UNCHANGED << disk, escaped >>
    [] e.op = "restart" -> /\ mem' = (IF mem = << >> THEN mem ELSE SubSeq(mem, 1, Len(mem) - 1)) /\ UNCHANGED << disk, escaped >>
                           /\ (e.unused # mem => Drift("the wallet file found at restart is not what the last completed save wrote"))
Clause(e) ==
  IF e.op = "restart" /\ e.k \in escaped /\ Len(e.unused) > 0
  THEN "C15:key_that_left_the_process_(" \o Tr.script \o ")_is_handed_out_again_after_a_crash_and_restart"
  ELSE ""
TNext == /\ ~done /\ l <= Len(Ev) /\ UNCHANGED tid
         /\ Step(Ev[l])
         /\ LET c == Clause(Ev[l]) IN
            IF c # "" THEN Out(c) /\ done' = TRUE /\ l' = l
            ELSE /\ l' = l + 1 /\ done' = (l + 1 > Len(Ev)) /\ ((l + 1 > Len(Ev)) => Out("ok"))
TSpec == TInit /\ [][TNext]_tv
=============================================================================
