---------------------------- MODULE TraceMerkle ----------------------------
(* Observed commitments of edited lists and observed inclusion proofs of the real code, judged   *)
(* against the free-constructor model: equal commitments only for equal lists.                   *)
EXTENDS Merkle, Json, IOUtils, TLCExt
Events == JsonDeserialize(IOEnv.TRACE_FILE)
VARIABLES l, done
tv == << n, l, done >>
Clause(e) ==
  CASE e.k = "pair" ->      \* two lists over aliased leaf values and whether the real commitments were equal
         IF e.same_root /\ e.a # e.b THEN "C17:different_lists_same_commitment"
         ELSE IF (Root(e.a) = Root(e.b)) # e.same_root THEN "M:model_and_code_disagree_on_commitment_equality"
         ELSE ""
    [] e.k = "proof" ->
         IF ~e.leaf_present THEN "C17:proof_lacks_the_entry"
         ELSE IF ~e.reproduces THEN "C17:proof_does_not_reproduce_commitment"
         ELSE IF ~e.shape_matches THEN "M:proof_shape_differs_from_model"
         ELSE ""
    [] e.k = "bigpair" ->   \* long lists (too long to interpret in the model): two lists that differ and whether the real commitments were equal
         IF e.same_root THEN "C17:different_lists_same_commitment" ELSE ""
    [] e.k = "bigproof" ->
         IF ~e.leaf_present THEN "C17:proof_lacks_the_entry"
         ELSE IF ~e.reproduces THEN "C17:proof_does_not_reproduce_commitment"
         ELSE ""
    [] OTHER -> "machinery:unknown_event"
TInit == n = 1 /\ l = 1 /\ done = FALSE
TNext == /\ ~done /\ l <= Len(Events) /\ UNCHANGED n
         /\ LET c == Clause(Events[l])
            IN IF c # "" /\ SubSeq(c, 1, 2) # "M:" THEN /\ PrintT(ToJson(<< "VERDICT", 1, c, l >>)) /\ done' = TRUE /\ l' = l
               ELSE /\ (c # "" => PrintT(ToJson(<< "DRIFT", 1, l, c >>)))
                    /\ l' = l + 1 /\ done' = (l + 1 > Len(Events))
                    /\ (l + 1 > Len(Events)) => PrintT(ToJson(<< "VERDICT", 1, "ok", l >>))
TSpec == TInit /\ [][TNext]_tv
=============================================================================
