---------------------------- MODULE MC_PeerBook ----------------------------
(* Bounded instance of PeerBook over a few addresses, with the history variables on which the        *)
(* back-off clause of C19 is *stated* (they are updated from observable events only: an attempt, a    *)
(* greeting, the end of an outgoing connection) -- independent of the node's own ban_score.           *)
EXTENDS PeerBook
CONSTANTS Hosts, Ports, Ticks, MaxSteps, InitialPeers
VARIABLES hk,       \* key -> consecutive attempts that ended without a greeting
          hlast,    \* key -> time of the previous attempt (None: none)
          hgreeted, \* keys of currently open outgoing connections that have been greeted
          hself,    \* addresses detected as the node itself
          nsteps
mv == << connected, disconnected, myAddrs, clock, attempts, peersFile, broken, hk, hlast, hgreeted, hself, nsteps >>
OutKeys == { Key(h, p, "OUTGOING") : h \in Hosts, p \in Ports }
Init == /\ PInit([k \in InitialPeers |-> [ban |-> 0, last |-> None]])
        /\ hk = [k \in OutKeys |-> 0] /\ hlast = [k \in OutKeys |-> None] /\ hgreeted = {} /\ hself = {} /\ nsteps = 0

NewAttempts == { attempts'[i] : i \in (Len(attempts) + 1)..Len(attempts') }
HistStep ==       \* bookkeeping of the history variables from the observable effect of the step
  /\ nsteps' = nsteps + 1
  /\ hlast' = [k \in OutKeys |-> IF \E a \in NewAttempts : a.key = k THEN clock ELSE hlast[k]]
Ended(k) == k \in DOMAIN connected /\ (k \notin DOMAIN connected' \/ (\E a \in NewAttempts : a.key = k))

Next ==
  /\ nsteps < MaxSteps /\ ~broken
  /\ \/ \E dt \in Ticks : Tick(dt) /\ UNCHANGED << hk, hgreeted, hself >>
     \/ StepConnect /\ UNCHANGED << hself >>
          /\ hk' = hk /\ hgreeted' = hgreeted
     \/ \E h \in Hosts, p \in Ports : Incoming(h, p) /\ UNCHANGED << hk, hgreeted, hself >>
     \/ \E k \in DOMAIN connected : /\ PeerDisconnected(k)
                                    /\ hk' = IF k.d = "OUTGOING" /\ k \notin hgreeted THEN [hk EXCEPT ![k] = @ + 1] ELSE hk
                                    /\ hgreeted' = hgreeted \ {k} /\ UNCHANGED hself
     \/ \E k \in DOMAIN connected : \E tp \in Ports : \E isSelf \in BOOLEAN :
           /\ Hello(k, tp, isSelf)
           /\ hk' = IF k.d = "OUTGOING" THEN [hk EXCEPT ![k] = 0] ELSE hk
           /\ hgreeted' = IF k.d = "OUTGOING" /\ ~isSelf THEN hgreeted \cup {k} ELSE hgreeted \ {k}
           /\ hself' = IF k.d = "OUTGOING" /\ isSelf THEN hself \cup {<< k.h, k.p >>} ELSE hself
     \/ \E k \in DOMAIN connected : \E S \in SUBSET (Hosts \X Ports) : Cardinality(S) <= 2 /\ PeersAnnounced(k, S) /\ UNCHANGED << hk, hgreeted, hself >>
  /\ HistStep
Spec == Init /\ [][Next]_mv

I_NeverBoth == I_C19_NeverBoth
I_FileBounded == I_C19_FileBounded
A_Backoff == [][\A a \in NewAttempts :
                  /\ hk[a.key] <= MaxAttempts
                  /\ (hlast[a.key] # None => clock - hlast[a.key] >= Wait(hk[a.key]))
                  /\ << a.key.h, a.key.p >> \notin hself]_mv
A_SelfDropped == [][\A k \in DOMAIN connected : \A tp \in Ports : TRUE]_mv
=============================================================================
