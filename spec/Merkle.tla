------------------------------- MODULE Merkle -------------------------------
(* The transaction commitment (merkletree.py): pairwise hashing, an odd element is promoted      *)
(* unchanged -- not duplicated as in Bitcoin.  The hash is a free pair constructor (injective,    *)
(* leaves are atoms and never pairs), so TLC decides binding of the *construction*.               *)
EXTENDS Naturals, Sequences, FiniteSets, TLC, Json

CONSTANTS Atoms,        \* leaf values used for the injectivity check
          MaxLen,       \* lists up to this length are enumerated for injectivity
          MaxShape,     \* tree shapes / proofs are produced for every length up to this
          DuplicateOdd  \* FALSE: the code's construction; TRUE: Bitcoin's (necessity run: must collide)

VARIABLE n
(* TLC cannot compare an integer with a tuple, so every node is a tuple and the kinds differ in length: *)
(*   leaf a = << a >>,  inner node = << left, right >>,  collapsed subtree = << t, t, t >>               *)
Leaf(a) == << a >>
H(a, b) == << a, b >>
Collapsed(t) == << t, t, t >>
IsLeaf(t) == Len(t) = 1
IsCollapsed(t) == Len(t) = 3

RECURSIVE Level(_, _)
Level(s, i) ==      \* one round of pairing, from position i
  IF i > Len(s) THEN << >>
  ELSE IF i = Len(s) THEN << IF DuplicateOdd THEN H(s[i], s[i]) ELSE s[i] >>
  ELSE << H(s[i], s[i + 1]) >> \o Level(s, i + 2)
RECURSIVE RootN(_)
RootN(s) == IF Len(s) = 1 THEN s[1] ELSE RootN(Level(s, 1))       \* get_merkle_root / _get_merkle_tree
Root(l) == RootN([i \in 1..Len(l) |-> Leaf(l[i])])

(* inclusion proof: the tree with every subtree that does not contain the leaf collapsed            *)
(* (in the code: a childless node carrying the subtree's hash).                                      *)
RECURSIVE Contains(_, _)
Contains(t, x) == IF IsLeaf(t) THEN t[1] = x
                  ELSE IF IsCollapsed(t) THEN FALSE
                  ELSE Contains(t[1], x) \/ Contains(t[2], x)
RECURSIVE Proof(_, _)
Proof(t, x) ==      \* t: tree over distinct leaves, x: the leaf of interest
  IF IsLeaf(t) THEN t
  ELSE IF Contains(t[2], x) THEN << Collapsed(t[1]), Proof(t[2], x) >>
  ELSE << Proof(t[1], x), Collapsed(t[2]) >>
RECURSIVE Uncollapse(_)
Uncollapse(p) == IF IsLeaf(p) THEN p
                 ELSE IF IsCollapsed(p) THEN p[1]
                 ELSE << Uncollapse(p[1]), Uncollapse(p[2]) >>

Positions(k) == [i \in 1..k |-> i]
Lists(k) == UNION { [1..m -> Atoms] : m \in 1..k }

Init == n = 1
Next == n < MaxShape /\ n' = n + 1
Spec == Init /\ [][Next]_n

(* binding: distinct lists have distinct commitments (checked once, at n = 1) *)
I_Injective == n = 1 => Cardinality({ Root(l) : l \in Lists(MaxLen) }) = Cardinality(Lists(MaxLen))
I_DupLastDiffers == n = 1 => \A l \in Lists(MaxLen - 1) : Root(l) # Root(Append(l, l[Len(l)]))
(* proofs: contain the leaf, reproduce the commitment *)
I_ProofReproduces == \A i \in 1..n : LET t == Root(Positions(n)) IN
                        /\ Contains(Proof(t, i), i)
                        /\ Uncollapse(Proof(t, i)) = t
I_Emit == /\ PrintT(ToJson(<< "SHAPE", n, Root(Positions(n)) >>))
          /\ \A i \in 1..n : PrintT(ToJson(<< "PROOF", n, i, Proof(Root(Positions(n)), i) >>))
=============================================================================
