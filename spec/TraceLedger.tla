---------------------------- MODULE TraceLedger ----------------------------
(* Trace validation for Ledger: every observed call of CoinState.add_block /                   *)
(* add_block_no_validation is one event.  TLC keeps its *own* ledger (the Ledger variables),   *)
(* built only from the observed block contents, and judges every step:                         *)
(*   P-layer  (VERDICT lines)  the property clauses of C01..C05, C18, exactly as worded;        *)
(*   M-layer  (DRIFT lines)    the verdict and the rule predicted by Ledger!FirstFailing.       *)
(* Verdicts are total: a violating step ends its trace with a VERDICT naming the clause.        *)
EXTENDS Ledger, Json, IOUtils, TLCExt

CONSTANTS Focus          \* the properties whose P clauses are evaluated in this run

Traces == JsonDeserialize(IOEnv.TRACE_FILE)

VARIABLES tid, l, done
tvars == << blocks, order, utxo, byHeight, tips, head, tid, l, done >>

KnownT == [h \in {} |-> 0]

ToBlk(jb) == [id |-> jb.id, parent |-> jb.parent, height |-> jb.height, ts |-> jb.ts,
              target |-> jb.target, powok |-> Less(jb.idb, jb.target),
              evok |-> jb.evok, merkleok |-> jb.merkleok, sizeok |-> jb.sizeok, txs |-> jb.txs]

Ev == Traces[tid].events

(* ---- projections logged by the harness, as TLA+ values ---- *)
UtxoOf(rows) == [r \in {[tx |-> rows[i][1], idx |-> rows[i][2]] : i \in 1..Len(rows)} |->
                   LET i == CHOOSE j \in 1..Len(rows) : rows[j][1] = r.tx /\ rows[j][2] = r.idx
                   IN [v |-> rows[i][3], k |-> rows[i][4]]]
RowsNoDup(rows) == Cardinality({<< rows[i][1], rows[i][2] >> : i \in 1..Len(rows)}) = Len(rows)

(* ---- P clauses on the pre-state, for an accepted, fully validated block ---- *)
PreClause(e, b) ==
  LET hasParent == b.parent \in DOMAIN blocks
      pu == IF hasParent THEN utxo[b.parent] ELSE EmptyU
  IN IF ~hasParent /\ b.height > Horizon THEN
          (IF Focus \cap {"C01", "C02", "C05"} # {} THEN "C05:unknown_parent_accepted" ELSE "")
     ELSE IF b.height <= Horizon THEN
          (IF "C18" \in Focus /\ ~P_C18(b) THEN "C18:checkpoint_mismatch_accepted" ELSE "")
     ELSE IF "C01" \in Focus /\ ~P_SpendsExist(b, pu) THEN "C01:spend_of_missing_or_spent_output"
     ELSE IF "C01" \in Focus /\ ~P_NoDoubleSpend(b) THEN "C01:output_spent_twice_in_block"
     ELSE IF "C01" \in Focus /\ ~P_NoSameBlockSpend(b) THEN "C01:spend_of_output_created_in_same_block"
     ELSE IF "C01" \in Focus /\ ~P_Authorised(b, pu) THEN "C01:spend_not_authorised_by_owner_key"
     ELSE IF "C02" \in Focus /\ ~P_OneReward(b) THEN "C02:reward_transaction_malformed"
     ELSE IF "C02" \in Focus /\ ~P_TxValues(b, pu) THEN "C02:transaction_values_out_of_range_or_overspent"
     ELSE IF "C02" \in Focus /\ ~P_Reward(b, pu) THEN "C02:reward_exceeds_subsidy_plus_fees"
     ELSE IF "C05" \in Focus /\ ~b.powok THEN "C05:id_not_below_target"
     ELSE IF "C05" \in Focus /\ ~(LET et == ExpectedTarget(blocks, byHeight, b.parent, b.ts)
                                  IN et.ok /\ b.target = et.t) THEN "C05:target_not_as_prescribed"
     ELSE IF "C05" \in Focus /\ b.height # blocks[b.parent].height + 1 THEN "C05:height_not_parent_plus_one"
     ELSE IF "C05" \in Focus /\ ~(Len(b.txs) >= 1 /\ Len(b.txs[1].ins) >= 1 /\ b.txs[1].ins[1].cbh = b.height)
          THEN "C05:reward_height_differs"
     ELSE IF "C05" \in Focus /\ ~(blocks[b.parent].ts < b.ts) THEN "C05:timestamp_not_after_parent"
     ELSE IF "C05" \in Focus /\ ~(b.ts <= e.now + MaxFuture) THEN "C05:timestamp_too_far_in_future"
     ELSE IF "C05" \in Focus /\ ~b.evok THEN "C05:evidence_not_as_recomputed"
     ELSE ""

(* ---- C05, last sentence: a block produced by the node's own assembly satisfies every header rule (whatever the node then does with it) ---- *)
AssembledClause(e, b) ==
  IF ~(e.assembled /\ "C05" \in Focus /\ b.parent \in DOMAIN blocks /\ b.height > Horizon) THEN ""
  ELSE IF ~b.powok THEN ""            \* "once its id is below target"
  ELSE IF ~(LET et == ExpectedTarget(blocks, byHeight, b.parent, b.ts) IN et.ok /\ b.target = et.t) THEN "C05:assembled_block_target_not_as_prescribed"
  ELSE IF b.height # blocks[b.parent].height + 1 THEN "C05:assembled_block_height_not_parent_plus_one"
  ELSE IF ~(Len(b.txs) >= 1 /\ Len(b.txs[1].ins) >= 1 /\ b.txs[1].ins[1].cbh = b.height) THEN "C05:assembled_block_reward_height_differs"
  ELSE IF ~(blocks[b.parent].ts < b.ts) THEN "C05:assembled_block_timestamp_not_after_parent"
  ELSE IF ~(b.ts <= e.now + MaxFuture) THEN "C05:assembled_block_timestamp_too_far_in_future"
  ELSE IF ~b.evok THEN "C05:assembled_block_evidence_not_as_recomputed"
  ELSE ""

(* ---- P clauses on the post-state (primed Ledger variables vs the logged projection) ---- *)
PostClause(e, b, accepted) ==
  LET p == e.post
      u1 == IF b.id \in DOMAIN utxo' THEN utxo'[b.id] ELSE EmptyU
      pu == IF b.parent \in DOMAIN utxo' THEN utxo'[b.parent] ELSE EmptyU
      focus34 == Focus \cap {"C03", "C04"} # {}
  IN IF p.n # Cardinality(DOMAIN blocks') THEN
          (IF accepted THEN "C03:stored_block_count_differs" ELSE "C01:state_changed_by_rejected_block")
     ELSE IF ~accepted /\ (p.head # head' \/ Range(p.tips) # tips') THEN "C01:state_changed_by_rejected_block"
     ELSE IF "C04" \in Focus /\ p.head # FirstSeenBest(blocks', order') THEN "C04:head_not_first_seen_of_greatest_height"
     ELSE IF "C04" \in Focus /\ Range(p.tips) # Childless(blocks') THEN "C04:tips_not_exactly_childless_blocks"
     ELSE IF "C04" \in Focus /\ (\E i \in 1..Len(p.index) :
                 LET id == p.index[i][1] IN p.index[i][2] # ChainOf(blocks', id))
          THEN "C04:height_index_not_ancestors_and_self"
     ELSE IF "C04" \in Focus /\ p.forks_defined
                              /\ (\/ {p.forks[i][1] : i \in 1..Len(p.forks)} # Childless(blocks')
                                  \/ Len(p.forks) # Cardinality(Childless(blocks'))
                                  \/ \E i \in 1..Len(p.forks) :
                                        p.forks[i][1] \in DOMAIN blocks' /\ head' \in DOMAIN blocks'
                                        /\ p.forks[i][2] # LCA(blocks', p.forks[i][1], head'))
          THEN "C04:forks_report_not_one_pair_per_tip_with_last_common_ancestor"
     ELSE IF "C04" \in Focus /\ accepted /\ head' # head /\ head \in DOMAIN blocks
                 /\ ~(blocks'[head'].height > blocks[head].height) THEN "C04:head_switched_without_more_work"
     ELSE IF Focus \cap {"C01", "C02", "C03"} # {} /\ (\E i \in 1..Len(p.utxo) : ~RowsNoDup(p.utxo[i][2]))
          THEN "C03:duplicate_reference_in_reported_ledger"
     ELSE IF (IF accepted THEN "C03" \in Focus ELSE Focus \cap {"C01", "C02", "C03"} # {}) /\ (\E i \in 1..Len(p.utxo) :
                 LET id == p.utxo[i][1]
                     r  == ReplayUtxo(blocks', id)
                 IN ~r.ok \/ UtxoOf(p.utxo[i][2]) # r.u)
          THEN (IF accepted THEN "C03:ledger_at_block_differs_from_replay" ELSE "C01:state_changed_by_rejected_block")
     ELSE IF "C02" \in Focus /\ accepted /\ e.validated /\ b.parent \in DOMAIN blocks /\ b.height > Horizon
                 /\ ~(Total(u1) <= Total(pu) + Subsidy(b.height)) THEN "C02:total_grew_by_more_than_subsidy"
     \* the same on the totals the node itself reports (its own unspent sets at the block and at its parent)
     ELSE IF "C02" \in Focus /\ accepted /\ e.validated /\ b.height > Horizon
                 /\ (\E i \in 1..Len(p.utxo) : \E j \in 1..Len(p.utxo) :
                        /\ p.utxo[i][1] = b.id /\ p.utxo[j][1] = b.parent
                        /\ RowsNoDup(p.utxo[i][2]) /\ RowsNoDup(p.utxo[j][2])
                        /\ Total(UtxoOf(p.utxo[i][2])) > Total(UtxoOf(p.utxo[j][2])) + Subsidy(b.height))
          THEN "C02:reported_total_grew_by_more_than_subsidy"
     ELSE IF "C02" \in Focus /\ accepted /\ e.validated /\ e.allvalidated
                 /\ (\E i \in 1..Len(p.utxo) : p.utxo[i][1] = b.id /\ RowsNoDup(p.utxo[i][2])
                        /\ (Total(UtxoOf(p.utxo[i][2])) > CumSubsidy(b.height) \/ Total(UtxoOf(p.utxo[i][2])) > MaxMoney))
          THEN "C02:reported_total_exceeds_schedule"
     ELSE IF "C02" \in Focus /\ accepted /\ e.validated /\ e.allvalidated
                 /\ ~(Total(u1) <= CumSubsidy(b.height) /\ Total(u1) <= MaxMoney) THEN "C02:total_exceeds_schedule"
     ELSE IF "C03" \in Focus /\ (\E i \in 1..Len(p.bal) :
                 LET id == p.bal[i][1]
                     r  == ReplayUtxo(blocks', id)
                     rows == p.bal[i][2]      \* << key, value, << <<tx, idx>>, ... >> >>
                 IN \/ {rows[j][1] : j \in 1..Len(rows)} # KeysOf(r.u)
                    \/ Cardinality({rows[j][1] : j \in 1..Len(rows)}) # Len(rows)
                    \/ \E j \in 1..Len(rows) :
                         LET bo == BalanceOf(r.u, rows[j][1])
                             rf == {[tx |-> rows[j][3][m][1], idx |-> rows[j][3][m][2]] : m \in 1..Len(rows[j][3])}
                         IN rows[j][2] # bo.value \/ rf # bo.refs \/ Cardinality(rf) # Len(rows[j][3]))
          THEN "C03:per_key_balance_differs_from_unspent_outputs"
     ELSE IF "C15" \in Focus /\ p.walletbal >= 0 /\ head' \in DOMAIN utxo'
                 /\ p.walletbal # SumVals(utxo'[head'], {r \in DOMAIN utxo'[head'] : utxo'[head'][r].k \in Range(p.walletkeys)})
          THEN "C15:reported_balance_differs_from_unspent_outputs_paying_wallet_keys"
     ELSE IF "C03" \in Focus /\ p.walletbal >= 0 /\ head' \in DOMAIN utxo'
                 /\ p.walletbal # SumVals(utxo'[head'], {r \in DOMAIN utxo'[head'] : utxo'[head'][r].k \in Range(p.walletkeys)})
          THEN "C03:wallet_balance_differs"
     ELSE IF "C03" \in Focus /\ e.resnap.of > 0 /\ e.resnap.post # Ev[e.resnap.of].post
          THEN "C03:earlier_snapshot_changed"
     ELSE ""

(* the no-inflation clauses on the totals the node itself reports: usable also when the accepted block cannot be applied to the
   specification's ledger (e.g. two of its transactions spend the same output), where PostClause is not reached *)
ReportedC02(e, b) ==
  LET p == e.post
  IN IF ~("C02" \in Focus /\ e.validated /\ b.height > Horizon) THEN ""
     ELSE IF \E i \in 1..Len(p.utxo) : \E j \in 1..Len(p.utxo) :
                /\ p.utxo[i][1] = b.id /\ p.utxo[j][1] = b.parent
                /\ RowsNoDup(p.utxo[i][2]) /\ RowsNoDup(p.utxo[j][2])
                /\ Total(UtxoOf(p.utxo[i][2])) > Total(UtxoOf(p.utxo[j][2])) + Subsidy(b.height)
          THEN "C02:reported_total_grew_by_more_than_subsidy"
     ELSE IF e.allvalidated /\ (\E i \in 1..Len(p.utxo) : p.utxo[i][1] = b.id /\ RowsNoDup(p.utxo[i][2])
                /\ (Total(UtxoOf(p.utxo[i][2])) > CumSubsidy(b.height) \/ Total(UtxoOf(p.utxo[i][2])) > MaxMoney))
          THEN "C02:reported_total_exceeds_schedule"
     ELSE ""

Verdict(c, keep) == /\ PrintT(ToJson(<< "VERDICT", Traces[tid].id, c, l >>))
                    /\ done' = TRUE /\ UNCHANGED << tid, l >>
                    /\ IF keep THEN TRUE ELSE UNCHANGED lvars
Continue == /\ l' = l + 1 /\ UNCHANGED tid
            /\ done' = (l + 1 > Len(Ev))
            /\ (l + 1 > Len(Ev)) => PrintT(ToJson(<< "VERDICT", Traces[tid].id, "ok", l >>))

Drift(e, f) == LET predicted == IF f = "" THEN "ok" ELSE "rej"
               IN IF predicted # e.res \/ (e.res = "rej" /\ e.rule # "?" /\ e.rule # f)
                  THEN PrintT(ToJson(<< "DRIFT", Traces[tid].id, l, f, e.res, e.rule >>)) ELSE TRUE

StepAdd(e) ==
  LET b == ToBlk(e.blk)
      f == IF e.validated THEN FirstFailing(b, e.now) ELSE ""
  IN /\ Drift(e, IF f = "" /\ ~CanApply(b) THEN "apply_error" ELSE f)
     /\ IF AssembledClause(e, b) # "" THEN Verdict(AssembledClause(e, b), FALSE)
        ELSE IF e.res = "ok"
        THEN LET pc == IF e.validated THEN PreClause(e, b) ELSE ""
             IN IF pc # "" THEN Verdict(pc, FALSE)
                ELSE IF ~CanApply(b) THEN
                     Verdict(IF Focus \cap {"C01", "C03"} # {} THEN "C01:accepted_block_cannot_be_applied_to_parent_ledger"
                             ELSE IF ReportedC02(e, b) # "" THEN ReportedC02(e, b)
                             ELSE "inconclusive", FALSE)
                ELSE /\ Store(b)
                     /\ LET qc == PostClause(e, b, TRUE)
                        IN IF qc # "" THEN Verdict(qc, TRUE) ELSE Continue
        ELSE /\ UNCHANGED lvars
             /\ LET qc == PostClause(e, b, FALSE)
                IN IF qc # "" THEN Verdict(qc, TRUE)
                   ELSE IF e.assembled /\ Focus \cap {"C05", "C12"} # {} /\ f = "" /\ CanApply(b)
                        THEN Verdict("C05:assembled_block_rejected", TRUE)
                   ELSE Continue

(* ---- Wallet: create_spend_transaction observed on the chain state built so far (C14) ---- *)
RefsOfRows(rows) == {[tx |-> rows[i][1], idx |-> rows[i][2]] : i \in 1..Len(rows)}
RECURSIVE Greedy(_, _, _, _, _)
Greedy(ordr, u, usedB, need, acc) ==      \* Wallet!Collect on the observed visiting order
  IF SumSeq([k \in 1..Len(acc) |-> u[acc[k]].v], 1) >= need \/ ordr = << >> THEN acc
  ELSE LET r == [tx |-> ordr[1][1], idx |-> ordr[1][2]]
       IN IF r \in usedB \/ r \notin DOMAIN u THEN Greedy(Tail(ordr), u, usedB, need, acc)
          ELSE Greedy(Tail(ordr), u, usedB, need, Append(acc, r))
StepSpend(e) ==
  LET u == utxo[head]
      wk == {e.wallet_keys[i] : i \in 1..Len(e.wallet_keys)}
      usedB == RefsOfRows(e.used_before)
      usedA == RefsOfRows(e.used_after)
      free == {r \in DOMAIN u : u[r].k \in wk /\ r \notin usedB}
      affordable == SumVals(u, free) >= e.amount + e.fee
      t == e.tx
      refs == Refs(t)
      inSum == SumVals(u, refs \cap DOMAIN u)
      change == inSum - e.amount - e.fee
      c == IF "C14" \notin Focus THEN ""
           ELSE IF e.res = "error" THEN "C14:spend_raised_an_unexpected_error"
           ELSE IF e.res = "insufficient" /\ usedA # usedB THEN "C14:failed_spend_changed_the_record_of_used_outputs"
           ELSE IF e.res = "insufficient" /\ affordable /\ usedB = RefsOfRows(e.used_truth) THEN "C14:affordable_spend_reported_insufficient"
           ELSE IF e.res = "insufficient" THEN ""
           ELSE IF ~(refs \subseteq DOMAIN u) THEN "C14:spends_an_output_that_is_not_unspent_at_head"
           ELSE IF \E r \in refs : u[r].k \notin wk THEN "C14:spends_an_output_not_owned_by_the_wallet"
           ELSE IF refs \cap (usedB \cup RefsOfRows(e.used_truth)) # {} THEN "C14:spends_an_output_used_by_an_earlier_spend"
           ELSE IF Cardinality(refs) # Len(t.ins) THEN "C14:same_output_twice"
           ELSE IF Len(t.outs) = 0 \/ t.outs[1].v # e.amount \/ t.outs[1].k # e.recipient THEN "C14:recipient_not_paid_exactly_the_amount"
           ELSE IF change < 0 THEN "C14:inputs_do_not_cover_amount_plus_fee"
           ELSE IF change = 0 /\ Len(t.outs) # 1 THEN "C14:unexpected_extra_output"
           ELSE IF change > 0 /\ (Len(t.outs) # 2 \/ t.outs[2].v # change \/ t.outs[2].k # e.change_key) THEN "C14:change_is_not_inputs_minus_amount_minus_fee"
           ELSE IF TxByItself(t) # "" \/ TxInState(u, t) # "" THEN "C14:transaction_fails_validation_at_head"
           ELSE IF ~e.real_validators_accept THEN "C14:transaction_refused_by_the_nodes_own_validators"
           ELSE IF usedA # usedB \cup refs THEN "C14:record_of_used_outputs_not_updated_exactly"
           ELSE ""
      predicted == Greedy(e.owned_order, u, usedB, e.amount + e.fee, << >>)
  IN /\ UNCHANGED lvars
     /\ (e.res = "tx" /\ RefSeq(t) # predicted => PrintT(ToJson(<< "DRIFT", Traces[tid].id, l, "greedy", "selection", "differs" >>)))
     /\ IF c # "" THEN Verdict(c, TRUE) ELSE Continue

TInit == /\ tid \in 1..Len(Traces)
         /\ l = 1 /\ done = FALSE
         /\ LInit(ToBlk(Traces[tid].genesis))
TNext == /\ ~done /\ l <= Len(Ev)
         /\ IF Ev[l].ev = "spend" THEN StepSpend(Ev[l]) ELSE StepAdd(Ev[l])
TSpec == TInit /\ [][TNext]_tvars
=============================================================================
