------------------------------ MODULE TraceNet ------------------------------
(* Observed schedules of 2-3 real LocalPeers wired by FIFO links under a shared virtual clock.        *)
(* Every event is one Net action (step, tick, deliver, quiet round step, originate) with the projected *)
(* post-state of every node and every channel.                                                         *)
(* P (C10), on the *observed* state: stored sets parent-closed, the head stored, an inventory never     *)
(* larger than the batch, every node relays a given block / transaction at most once per peer, and at   *)
(* every state the harness reached by fair quiescent rounds (settled): all heads at the greatest initial *)
(* height and an originated transaction in every pool.                                                   *)
(* M: the observed state equals the state Net's action produces.                                         *)
EXTENDS Net, Json, IOUtils, TLCExt
Traces == JsonDeserialize(IOEnv.TRACE_FILE)
VARIABLES tid, l, done
tv == << has, head, pool, waiting, backoff, inv, fetching, chan, relayedB, relayedT, budget, qrounds, done, tid, l >>
Ev == Traces[tid].events
Out(c) == PrintT(ToJson(<< "VERDICT", Traces[tid].id, c, l >>))
S(n) == ToString(n)
SetOf(s) == {s[i] : i \in 1..Len(s)}

ObsHas(p, n) == SetOf(p.nodes[S(n)].has)
Msg(j) == CASE j.t = "GB" -> [t |-> "GB", loc |-> j.loc]
            [] j.t = "INV" -> [t |-> "INV", items |-> j.items]
            [] j.t = "GD" -> [t |-> "GD", b |-> j.b]
            [] j.t = "DATA" -> [t |-> "DATA", b |-> j.b, irt |-> j.irt]
            [] j.t = "TX" -> [t |-> "TX", x |-> j.x]
            [] OTHER -> [t |-> j.t]
ObsChan(p, s, r) == IF S(s) \in DOMAIN p.chan /\ S(r) \in DOMAIN p.chan[S(s)]
                    THEN [i \in 1..Len(p.chan[S(s)][S(r)]) |-> Msg(p.chan[S(s)][S(r)][i])] ELSE << >>

Watched(e) == IF e.only = 0 THEN Nodes ELSE {e.only}
ModelMatchesE(e) ==
  LET p == e.post IN
  /\ \A n \in Watched(e) : /\ ObsHas(p, n) = has'[n] /\ p.nodes[S(n)].head = head'[n] /\ p.nodes[S(n)].pool = pool'[n]
                      /\ p.nodes[S(n)].fetching = fetching'[n]
                      /\ \A m \in Peers[n] : /\ p.nodes[S(n)].waiting[S(m)] = waiting'[n][m]
                                             /\ p.nodes[S(n)].backoff[S(m)] = backoff'[n][m]
                                             /\ p.nodes[S(n)].inv[S(m)] = inv'[n][m]
  /\ e.only # 0 \/ \A s \in Nodes : \A r \in Peers[s] : ObsChan(p, s, r) = chan'[s][r]
Diff(e) ==      \* names the first component that differs (for the drift report)
  LET p == e.post
      n == CHOOSE x \in Watched(e) : TRUE
  IN IF ObsHas(p, n) # has'[n] THEN "has"
     ELSE IF p.nodes[S(n)].head # head'[n] THEN "head"
     ELSE IF p.nodes[S(n)].pool # pool'[n] THEN "pool"
     ELSE IF p.nodes[S(n)].fetching # fetching'[n] THEN "fetching: model " \o ToString(fetching'[n])
     ELSE IF \E m \in Peers[n] : p.nodes[S(n)].waiting[S(m)] # waiting'[n][m] THEN "waiting"
     ELSE IF \E m \in Peers[n] : p.nodes[S(n)].backoff[S(m)] # backoff'[n][m] THEN "backoff"
     ELSE IF \E m \in Peers[n] : p.nodes[S(n)].inv[S(m)] # inv'[n][m] THEN "inv: model " \o ToString(inv'[n])
     ELSE "channels"
ModelMatches(p) ==
  /\ \A n \in Nodes : /\ ObsHas(p, n) = has'[n] /\ p.nodes[S(n)].head = head'[n] /\ p.nodes[S(n)].pool = pool'[n]
                      /\ p.nodes[S(n)].fetching = fetching'[n]
                      /\ \A m \in Peers[n] : /\ p.nodes[S(n)].waiting[S(m)] = waiting'[n][m]
                                             /\ p.nodes[S(n)].backoff[S(m)] = backoff'[n][m]
                                             /\ p.nodes[S(n)].inv[S(m)] = inv'[n][m]
  /\ \A s \in Nodes : \A r \in Peers[s] : ObsChan(p, s, r) = chan'[s][r]

PClause(e) ==
  LET p == e.post
      W == Watched(e) IN
  IF e.a = "runaway" THEN "C10:message_traffic_between_honest_nodes_does_not_stop"      \* far more deliveries than any synchronisation of this universe needs, still not quiet
  ELSE IF \E n \in W : p.nodes[S(n)].escaped THEN "C10:exception_escaped_a_handler"
  ELSE IF \E n \in W : SetOf(p.nodes[S(n)].open) # Peers[n] THEN "C10:honest_peer_disconnected"
  ELSE IF \E n \in W : \E b \in ObsHas(p, n) : b \in DOMAIN Parent /\ Parent[b] \notin ObsHas(p, n) THEN "C10:stored_blocks_not_parent_closed"
  ELSE IF \E n \in W : p.nodes[S(n)].head \notin ObsHas(p, n) THEN "C10:head_not_stored"
  ELSE IF \E s \in Nodes : \E r \in Peers[s] : \E i \in 1..Len(ObsChan(p, s, r)) :
             ObsChan(p, s, r)[i].t = "INV" /\ Len(ObsChan(p, s, r)[i].items) > Batch THEN "C10:inventory_larger_than_batch"
  ELSE IF \E i \in 1..Len(e.relays) : e.relays[i][4] > 1 THEN
         (IF e.relays[CHOOSE i \in 1..Len(e.relays) : e.relays[i][4] > 1][2] = "block"
          THEN "C10:block_relayed_more_than_once" ELSE "C10:transaction_relayed_more_than_once")
  ELSE IF e.settled /\ \E n \in W : p.nodes[S(n)].head \in DOMAIN Parent /\ Height(p.nodes[S(n)].head) # MaxInitialHeight
       THEN "C10:not_converged_when_settled"
  ELSE IF e.settled /\ \E t \in Txs : (\E n \in Nodes : t \in SetOf(p.nodes[S(n)].pool)) /\ (\E n \in Nodes : t \notin SetOf(p.nodes[S(n)].pool))
       THEN "C10:transaction_did_not_reach_every_pool"
  ELSE ""

Apply(e) ==
  CASE e.a = "step" -> /\ StepEffect(e.n, e.m) /\ UNCHANGED << has, head, pool, backoff, inv, relayedB, relayedT, budget, qrounds, done >>
    [] e.a = "tick" -> /\ fetching' = [x \in Nodes |-> << >>] /\ backoff' = [x \in Nodes |-> [y \in Nodes |-> FALSE]]
                       /\ UNCHANGED << has, head, pool, waiting, inv, chan, relayedB, relayedT, budget, qrounds, done >>
    [] e.a = "deliver" -> IF chan[e.n][e.m] # << >> THEN Deliver(e.n, e.m) ELSE UNCHANGED nvars
    [] e.a = "inject" -> DeliverMsg(e.n, e.m, Msg(e.msg), chan)      \* local validation: the message is an input from the environment
    [] e.a = "orig" -> IF \A k \in 1..Len(pool[e.n]) : pool[e.n][k] # e.m THEN Originate(e.n, e.m) ELSE UNCHANGED nvars
    [] OTHER -> UNCHANGED nvars

TInit == /\ tid \in 1..Len(Traces) /\ l = 1 /\ NInit
TNext ==
  /\ ~(qrounds = 99) /\ l <= Len(Ev) /\ UNCHANGED tid
  /\ LET e == Ev[l] IN
     /\ Apply(e)
     /\ LET c == PClause(e) IN
        /\ (e.compare /\ ~ModelMatchesE(e) => PrintT(ToJson(<< "DRIFT", Traces[tid].id, l, "state after " \o e.a \o " differs from Net in " \o Diff(e) >>)))
        /\ IF c # "" THEN Out(c) /\ l' = Len(Ev) + 1
           ELSE /\ l' = l + 1 /\ ((l + 1 > Len(Ev)) => Out("ok"))
TSpec == TInit /\ [][TNext]_tv
=============================================================================
