----------------------------- MODULE StoreLock -----------------------------
(* The block store's write buffer under its two writers.  In a running node the network thread (handle_block_received) and the   *)
(* miner's found-block handler each call save_block (add_block_to_buffer) and flush_blocks (flush_blocks_to_disk) on the same    *)
(* BlockStore; blockstore.py protects the buffer with one lock.  One action per critical section / lock operation:               *)
(*    Add(w, b)      with self.lock: write_buffer.append(b)                                  (blockstore.py:97)                   *)
(*    Acquire(w)     flush: with self.lock:                                                  (blockstore.py:159)                  *)
(*    Write(w)              write_blocks_to_disk(...)   one SQL transaction                                                       *)
(*    Clear(w)              write_buffer.clear()                                                                                  *)
(*    Release(w)     end of the with block                                                                                        *)
(* LockScope = "whole"  is the code: the lock is held from Acquire to Release, the live buffer is written.                        *)
(* LockScope = "copy"   is the tempting refactoring "do not hold the lock during slow disk I/O": copy under the lock, release,    *)
(*                      write the copy, clear the live buffer -- kept as a switch for the necessity run (it loses blocks).       *)
(* LockScope = "swap"   another tempting variant: under the lock only swap the buffer for an empty one, write what was swapped out   *)
(*                      without the lock.  Nothing handed over meanwhile is cleared away -- but the two writers share ONE SQLite     *)
(*                      connection: a second BEGIN while the first writer's transaction is open fails ("cannot start a transaction   *)
(*                      within a transaction"), and what that writer had swapped out is gone.  The disk write is therefore two       *)
(*                      actions, Begin and Commit, and txn says whose SQL transaction is open.                                       *)
EXTENDS Naturals, Sequences, FiniteSets
CONSTANTS Writers, Blocks, LockScope, MaxFlushes
VARIABLES buffer, disk, lock, pc, copy, handed, nflush, txn, sqlerror
vars == << buffer, disk, lock, pc, copy, handed, nflush, txn, sqlerror >>
Range(s) == {s[i] : i \in 1..Len(s)}
None == 0          \* writers are positive integers

Init == /\ buffer = << >> /\ disk = {} /\ lock = None /\ pc = [w \in Writers |-> "idle"]
        /\ copy = [w \in Writers |-> << >>] /\ handed = {} /\ nflush = 0 /\ txn = None /\ sqlerror = FALSE

Add(w, b) == /\ pc[w] = "idle" /\ lock = None /\ b \notin handed        \* append under the lock: one step
             /\ buffer' = Append(buffer, b) /\ handed' = handed \cup {b}
             /\ UNCHANGED << disk, lock, pc, copy, nflush, txn, sqlerror >>

Acquire(w) == /\ pc[w] = "idle" /\ lock = None /\ nflush < MaxFlushes
              /\ nflush' = nflush + 1
              /\ IF LockScope = "whole"
                 THEN lock' = w /\ copy' = copy /\ buffer' = buffer
                 ELSE IF LockScope = "copy" THEN lock' = None /\ copy' = [copy EXCEPT ![w] = buffer] /\ buffer' = buffer
                 ELSE lock' = None /\ copy' = [copy EXCEPT ![w] = buffer] /\ buffer' = << >>
              /\ pc' = [pc EXCEPT ![w] = "write"]
              /\ UNCHANGED << disk, handed, txn, sqlerror >>
(* the disk write: BEGIN ... COMMIT on the one shared connection *)
Write(w) == /\ pc[w] = "write"
            /\ IF txn = None
               THEN txn' = w /\ pc' = [pc EXCEPT ![w] = "commit"] /\ UNCHANGED sqlerror
               ELSE sqlerror' = TRUE /\ pc' = [pc EXCEPT ![w] = "idle"] /\ UNCHANGED txn       \* the exception leaves the flush; a swapped-out copy is gone
            /\ UNCHANGED << buffer, disk, lock, copy, handed, nflush >>
Commit(w) == /\ pc[w] = "commit" /\ txn = w
             /\ disk' = disk \cup Range(IF LockScope = "whole" THEN buffer ELSE copy[w])
             /\ txn' = None /\ pc' = [pc EXCEPT ![w] = IF LockScope = "swap" THEN "idle" ELSE "clear"]
             /\ UNCHANGED << buffer, lock, copy, handed, nflush, sqlerror >>
Clear(w) == /\ pc[w] = "clear"
            /\ buffer' = << >>
            /\ pc' = [pc EXCEPT ![w] = "release"]
            /\ UNCHANGED << disk, lock, copy, handed, nflush, txn, sqlerror >>
Release(w) == /\ pc[w] = "release"
              /\ lock' = None /\ pc' = [pc EXCEPT ![w] = "idle"]
              /\ UNCHANGED << buffer, disk, copy, handed, nflush, txn, sqlerror >>

Next == \E w \in Writers : (\E b \in Blocks : Add(w, b)) \/ Acquire(w) \/ Write(w) \/ Commit(w) \/ Clear(w) \/ Release(w)
Spec == Init /\ [][Next]_vars

(* C08, "whatever ... is written to the block store and flushed": a block handed to the store is in the buffer or on disk, always *)
I_NoBlockLost == handed \subseteq (Range(buffer) \cup disk)
(* and once no flush is in progress and the buffer is empty, everything handed over is on disk *)
I_FlushedMeansStored == ((\A w \in Writers : pc[w] = "idle") /\ buffer = << >>) => handed \subseteq disk
I_LockDiscipline == \A w \in Writers : pc[w] \in {"write", "commit", "clear", "release"} /\ LockScope = "whole" => lock = w
I_NoSqlError == ~sqlerror
=============================================================================
