---------------------------- MODULE PowEvidence ----------------------------
(* The proof-of-work evidence data flow (consensus.py:146-200, pow.py): which ancestor blocks and which  *)
(* bytes of them the summary hash selects, how the selections are chained, and what the final hash is    *)
(* taken over.  The hash functions themselves (scrypt, double SHA-256, BLAKE2b) are uninterpreted: they    *)
(* appear as tables of observed applications, looked up with the inputs *this specification* derives.      *)
EXTENDS Naturals, Sequences, BigNat

CONSTANTS SampleCount,      \* CHAIN_SAMPLE_COUNT = 8
          SampleSize        \* CHAIN_SAMPLE_SIZE  = 4

Lookup(tab, x) == IF \E i \in 1..Len(tab) : tab[i][1] = x
                  THEN [ok |-> TRUE, v |-> tab[CHOOSE i \in 1..Len(tab) : tab[i][1] = x][2]]
                  ELSE [ok |-> FALSE, v |-> << >>]

(* select_block_height: first 8 bytes of the hash as a number, modulo the height of the block being mined *)
SelectedHeight(h, height) == ModSmall(SubSeq(h, 1, 8), height)
(* select_block_slice: next 4 bytes modulo the block's length give the start; wrap around to the beginning *)
RECURSIVE Wrap(_, _, _, _)
Wrap(bytes, start, k, acc) ==
  IF Len(acc) >= k THEN acc
  ELSE LET take == IF start + (k - Len(acc)) <= Len(bytes) THEN k - Len(acc) ELSE Len(bytes) - start
       IN Wrap(bytes, 0, k, acc \o SubSeq(bytes, start + 1, start + take))
Slice(h, bytes) == Wrap(bytes, ModSmall(SubSeq(h, 9, 12), Len(bytes)), SampleSize, << >>)

(* select_n_k_length_slices_from_chain: result [ok, sample]; ok = FALSE when an input is not in a table *)
RECURSIVE Sample(_, _, _, _, _, _)
Sample(cur, height, blockAt, sha, i, acc) ==
  LET hsel == SelectedHeight(cur, height) IN
  IF hsel \notin DOMAIN blockAt THEN [ok |-> FALSE, why |-> "selected ancestor not available", s |-> acc]
  ELSE LET piece == Slice(cur, blockAt[hsel])
           acc2 == acc \o piece
       IN IF i = SampleCount THEN [ok |-> TRUE, why |-> "", s |-> acc2]
          ELSE LET nx == Lookup(sha, cur \o piece)
               IN IF ~nx.ok THEN [ok |-> FALSE, why |-> "sha256d input derived by the specification was never hashed", s |-> acc2]
                  ELSE Sample(nx.v, height, blockAt, sha, i + 1, acc2)

Zeros32 == [i \in 1..(SampleCount * SampleSize) |-> 0]
(* construct_pow_evidence *)
Evidence(summaryBytes, height8, height, blockAt, txlistBytes, scrypt, sha, blake) ==
  LET sh == Lookup(scrypt, summaryBytes \o height8)
  IN IF ~sh.ok THEN [ok |-> FALSE, why |-> "scrypt was never applied to summary || height"]
     ELSE LET smp == IF height = 0 THEN [ok |-> TRUE, why |-> "", s |-> Zeros32] ELSE Sample(sh.v, height, blockAt, sha, 1, << >>)
          IN IF ~smp.ok THEN [ok |-> FALSE, why |-> smp.why]
             ELSE LET bh == Lookup(blake, sh.v \o smp.s \o txlistBytes)
                  IN IF ~bh.ok THEN [ok |-> FALSE, why |-> "blake2 input derived by the specification was never hashed"]
                     ELSE [ok |-> TRUE, why |-> "", summary_hash |-> sh.v, chain_sample |-> smp.s, block_hash |-> bh.v]
=============================================================================
