------------------------------- MODULE MC_Net -------------------------------
(* Bounded instances of Net: block universes with forks, 2-3 nodes, topologies, timer budget K and R  *)
(* fair rounds; `hist` (hidden by the VIEW) hands complete behaviours to the replay harness.           *)
EXTENDS Net, Json
CONSTANTS EmitHist, TxOrigin       \* TxOrigin: nodes that may originate a transaction once every head has the final height
VARIABLES hist
mv == << has, head, pool, waiting, backoff, inv, fetching, chan, relayedB, relayedT, budget, qrounds, done, hist >>

(* universes: Parent as a function on 0..N *)
ParentA == (0 :> 0) @@ (1 :> 0) @@ (2 :> 1) @@ (3 :> 2) @@ (4 :> 3) @@ (5 :> 1) @@ (6 :> 5)          \* 0-1-2-3-4 and 0-1-5-6
BlocksA == 0..6
Init2A == (1 :> {0, 1, 2, 3, 4}) @@ (2 :> {0, 1, 5, 6})
Init2B == (1 :> {0, 1, 2, 3, 4, 5}) @@ (2 :> {0})
Init2C == (1 :> {0, 1, 5, 6}) @@ (2 :> {0, 1, 2, 3, 4, 5})
Peers2 == (1 :> {2}) @@ (2 :> {1})
ParentL == (0 :> 0) @@ (1 :> 0) @@ (2 :> 1) @@ (3 :> 2) @@ (4 :> 1) @@ (5 :> 4)                      \* 0-1-2-3 and 0-1-4-5
BlocksL == 0..5
Init3L == (1 :> {0, 1, 2, 3}) @@ (2 :> {0, 1, 4}) @@ (3 :> {0})
PeersLine == (1 :> {2}) @@ (2 :> {1, 3}) @@ (3 :> {2})
PeersTri == (1 :> {2, 3}) @@ (2 :> {1, 3}) @@ (3 :> {1, 2})

Init == NInit /\ hist = << >>
Next ==
  \/ \E n \in Nodes : \E m \in Nodes : Step(n, m) /\ hist' = Append(hist, [a |-> "step", n |-> n, m |-> m])
  \/ \E n \in Nodes : Tick(n) /\ hist' = Append(hist, [a |-> "tick", n |-> n, m |-> 0])
  \/ \E s \in Nodes : \E r \in Nodes : Deliver(s, r) /\ hist' = Append(hist, [a |-> "deliver", n |-> s, m |-> r])
  \/ \E n \in Nodes : \E m \in Nodes : QuietRound(n, m) /\ hist' = Append(hist, [a |-> "round", n |-> n, m |-> m])
  \/ NextRound /\ hist' = Append(hist, [a |-> "nextround", n |-> 0, m |-> 0])
  \/ \E n \in TxOrigin : \E t \in Txs : Converged /\ Originate(n, t) /\ hist' = Append(hist, [a |-> "orig", n |-> n, m |-> t])
Spec == Init /\ [][Next]_mv
View == << has, head, pool, waiting, backoff, inv, fetching, chan, relayedB, relayedT, budget, qrounds, done >>

I_ParentClosed == ParentClosed
I_HeadStored == HeadStored
I_RelayOnce == RelayOnce
I_InvBounded == InvBounded
I_ConvergedWhenSettled == ConvergedWhenSettled
I_TxEverywhereWhenQuiet == (Quiet /\ Converged) => \A t \in Txs :
     (\E n \in Nodes : \E k \in 1..Len(pool[n]) : pool[n][k] = t) => \A n \in Nodes : \E k \in 1..Len(pool[n]) : pool[n][k] = t
I_Emit == (EmitHist /\ Settled) => PrintT(ToJson(<< "HIST", hist >>))
=============================================================================
