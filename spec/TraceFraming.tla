---------------------------- MODULE TraceFraming ----------------------------
(* Observed runs of the real MessageReceiver: a stream (bytes) cut into reads; after every read the  *)
(* harness logs what had been handed on so far (message ids), whether the read raised, and the       *)
(* receiver's fields.  P: equals the reference parse of the bytes received so far (C11).             *)
(* M: the fields equal those of Framing!Rcv.                                                         *)
EXTENDS Framing, Json, IOUtils, TLC, TLCExt
Input == JsonDeserialize(IOEnv.TRACE_FILE)      \* [streams: Seq([bytes, ids: Seq(<<start, id>>)]), traces: Seq([id, s, events])]
VARIABLES tid, l, done
tv == << rest, got, buf, magicRead, len, delivered, refused, tid, l, done >>
Tr == Input.traces[tid]
Stream == Input.streams[Tr.s]
IdAt(start) == LET i == CHOOSE j \in 1..Len(Stream.ids) : Stream.ids[j][1] = start IN Stream.ids[i][2]
HasId(start) == \E j \in 1..Len(Stream.ids) : Stream.ids[j][1] = start

Out(c) == PrintT(ToJson(<< "VERDICT", Tr.id, c, l >>))
TInit == /\ tid \in 1..Len(Input.traces) /\ l = 1 /\ done = FALSE
         /\ FInit(Input.streams[Input.traces[tid].s].bytes)
TNext ==
  /\ ~done /\ l <= Len(Tr.events)
  /\ UNCHANGED tid
  /\ LET e == Tr.events[l] IN
     IF refused # "" \/ e.k > Len(rest) THEN
        \* the harness kept feeding after a refusal, or fed more than the stream holds: machinery
        /\ Out("machinery:event_after_refusal_or_overlong_read") /\ done' = TRUE /\ UNCHANGED << l >> /\ UNCHANGED fvars
     ELSE
        /\ Recv(e.k)
        /\ LET r == Ref(SubSeq(Stream.bytes, 1, got'), 0, << >>)
               all == [i \in 1..Len(r.delivered) |-> IF HasId(r.delivered[i].start) THEN IdAt(r.delivered[i].start) ELSE 0 - 1]
               \* payload decoding is a function of the frame's own bytes (label -2 = the protocol decoder rejects exactly these bytes):
               \* the stream is refused at the first such frame, whatever arrived after it in the same read
               bad == {i \in 1..Len(all) : all[i] = 0 - 2}
               firstBad == IF bad = {} THEN 0 ELSE CHOOSE i \in bad : \A j \in bad : i <= j
               want == IF firstBad = 0 THEN all ELSE SubSeq(all, 1, firstBad - 1)
               refRefused == r.refused # "" \/ firstBad # 0
               c == IF Len(e.ids) < Len(want) /\ SubSeq(want, 1, Len(e.ids)) = e.ids THEN "C11:well_formed_message_not_delivered"
                    ELSE IF e.ids # want THEN "C11:delivered_sequence_differs_from_bytes_received"
                    ELSE IF e.refused /\ ~refRefused THEN "C11:well_formed_prefix_refused"
                    ELSE IF ~e.refused /\ r.refused # "" THEN "C11:bad_magic_or_oversize_not_refused_at_that_point"
                    ELSE IF ~e.refused /\ firstBad # 0 THEN "C11:frame_with_undecodable_payload_not_refused_at_that_point"
                    ELSE ""
               m == IF e.refused THEN (refused' # "" \/ firstBad # 0)
                    ELSE e.buflen = Len(buf') /\ e.magic = magicRead' /\ e.len = len'
           IN IF c # "" THEN Out(c) /\ done' = TRUE /\ l' = l
              ELSE /\ (~m => PrintT(ToJson(<< "DRIFT", Tr.id, l, "receiver fields differ from Framing!Rcv" >>)))
                   /\ l' = l + 1
                   /\ done' = (l + 1 > Len(Tr.events))
                   /\ (l + 1 > Len(Tr.events)) => PrintT(ToJson(<< "VERDICT", Tr.id, "ok", l >>))
TSpec == TInit /\ [][TNext]_tv
=============================================================================
