----------------------------- MODULE MC_Framing -----------------------------
(* Every stream of up to MaxFrames frames (good with body length 0..MaxBody, wrong magic at any of  *)
(* the four positions, over-limit length) and every cutting into reads.                             *)
EXTENDS Framing, TLC, Json
CONSTANTS MaxFrames, MaxBody, EmitCuts
VARIABLES stream, cuts, lastk      \* cuts: history for the replay harness (hidden by the VIEW)
mv == << rest, got, buf, magicRead, len, delivered, refused, stream, cuts, lastk >>

Body(n) == [i \in 1..n |-> 100 + i]
Good(n) == Magic \o Nat4(n) \o Body(n)
BadMagic(j) == [Magic EXCEPT ![j] = 0] \o Nat4(1) \o Body(1)
Oversize == Magic \o Nat4(MaxSize + 1) \o Body(2)
TruncatedTail == Magic \o Nat4(3) \o Body(1)        \* declared 3, only 1 byte follows (stream ends)
Frames == { Good(n) : n \in 0..MaxBody } \cup { BadMagic(j) : j \in 1..4 } \cup { Oversize, TruncatedTail }
RECURSIVE Cat(_, _)
Cat(fs, i) == IF i > Len(fs) THEN << >> ELSE fs[i] \o Cat(fs, i + 1)
Streams == { Cat(fs, 1) : fs \in UNION { [1..m -> Frames] : m \in 1..MaxFrames } }

Init == \E s \in Streams : FInit(s) /\ stream = s /\ cuts = << >> /\ lastk = 0
Next == \E k \in 1..Len(rest) : Recv(k) /\ UNCHANGED stream /\ cuts' = Append(cuts, k) /\ lastk' = k
Spec == Init /\ [][Next]_mv

Received == SubSeq(stream, 1, got)
I_C11_SameAsReference ==
  LET r == Ref(Received, 0, << >>)
  IN /\ delivered = r.delivered
     /\ refused = r.refused
I_C11_RefusedAtThatPoint ==       \* the refusal happens in the very read that delivers the deciding byte
  refused # "" => LET r == Ref(Received, 0, << >>)
                  IN got >= r.at /\ got - lastk < r.at
I_ExactlyOnceInOrder == \A i \in 1..Len(delivered) : \A j \in 1..Len(delivered) :
                           i < j => delivered[i].start + delivered[i].n <= delivered[j].start
I_Emit == (EmitCuts /\ (rest = << >> \/ refused # "")) => PrintT(ToJson(<< "CUTS", stream, cuts >>))
View == << rest, got, buf, magicRead, len, delivered, refused, stream, lastk >>
=============================================================================
