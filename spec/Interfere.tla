------------------------------ MODULE Interfere ------------------------------
(* "The verdict of validation (the subsidy of a height, the fees of a block, the commitment of a list, the evidence of a block) is a      *)
(* FUNCTION of its arguments" -- also when the network thread validates while the miner's thread assembles.  The consensus code of the     *)
(* tree keeps no state between calls; the tempting optimisation is a memo shared by the threads: the last (argument, result) pair,          *)
(* written in two steps.  Memo = "none": no shared state (the tree); "shared": one unlocked memo cell (necessity run: a thread can return  *)
(* the other thread's result).  F is any function of the argument (here: the argument itself).                                              *)
EXTENDS Naturals
CONSTANTS Args,          \* Args[t]: the argument thread t asks about
          Memo
VARIABLES key, val, th
vars == << key, val, th >>
Threads == DOMAIN Args
F(x) == x
Init == key = 0 /\ val = 0 /\ th = [t \in Threads |-> [pc |-> "start", ret |-> 0]]
Start(t) == /\ th[t].pc = "start"
            /\ IF Memo = "shared" /\ key = Args[t] THEN th' = [th EXCEPT ![t] = [pc |-> "done", ret |-> val]]
               ELSE th' = [th EXCEPT ![t].pc = IF Memo = "shared" THEN "setkey" ELSE "compute"]
            /\ UNCHANGED << key, val >>
SetKey(t) == th[t].pc = "setkey" /\ key' = Args[t] /\ th' = [th EXCEPT ![t].pc = "setval"] /\ UNCHANGED val
SetVal(t) == th[t].pc = "setval" /\ val' = F(Args[t]) /\ th' = [th EXCEPT ![t].pc = "return"] /\ UNCHANGED key
Return(t) == th[t].pc = "return" /\ th' = [th EXCEPT ![t] = [pc |-> "done", ret |-> val]] /\ UNCHANGED << key, val >>
Compute(t) == th[t].pc = "compute" /\ th' = [th EXCEPT ![t] = [pc |-> "done", ret |-> F(Args[t])]] /\ UNCHANGED << key, val >>
Next == \E t \in Threads : Start(t) \/ SetKey(t) \/ SetVal(t) \/ Return(t) \/ Compute(t)
Spec == Init /\ [][Next]_vars
I_ResultIsAFunctionOfTheArgument == \A t \in Threads : th[t].pc = "done" => th[t].ret = F(Args[t])
=============================================================================
