------------------------------- MODULE MC_Echo -------------------------------
(* Echo with a history variable: every interleaving of the miner's and the network thread's steps, printed when both are done. *)
EXTENDS Echo, Json, TLC
CONSTANTS EmitHist
VARIABLES hist
mv == << served, nb, buffered, stored, miner, echo, hist >>
MInit == Init /\ hist = << >>
MNext == \/ (MinerStep /\ hist' = Append(hist, [t |-> "miner", a |-> miner]))
         \/ (EchoStep /\ hist' = Append(hist, [t |-> "echo", a |-> echo.pc]))
MSpec == MInit /\ [][MNext]_mv
I_Emit == (EmitHist /\ Quiet) => PrintT(ToJson(<< "HIST", hist, [nb |-> nb, served |-> served, stored |-> stored] >>))
View == vars
=============================================================================
