------------------------------ MODULE MC_Node ------------------------------
(* Bounded instance of Node: a fixed universe of candidate blocks (valid on two forks, duplicate,   *)
(* orphan, one per rejection class incl. blocks that pass the by-itself rules but cannot be applied) *)
(* and transactions, delivered in every order by every peer.                                         *)
EXTENDS Node, Json
CONSTANTS UBlocks,      \* index -> block record (Ledger format)
          UTxs,         \* index -> transaction record
          GenesisB, Now, MaxSteps, EmitHist,
          Irts          \* in_response_to values of delivered blocks: {0} = broadcasts only; {0, 1} adds answers to requests (bulk download)
VARIABLES hist
mv == << blocks, order, utxo, byHeight, tips, head, lastValid, pool, chainT, locT, outT, inT, buffer, txnOpen,
         outbox, active, miner, hist >>
Init == NInit(GenesisB, Peers) /\ hist = << >>
Next == /\ Len(hist) < MaxSteps
        /\ \/ \E p \in Peers : \E i \in DOMAIN UBlocks : \E irt \in Irts :
                 /\ DeliverBlock(p, UBlocks[i], irt, Now)
                 /\ hist' = Append(hist, [op |-> "block", peer |-> p, i |-> i, irt |-> irt])
           \/ \E p \in Peers : \E j \in DOMAIN UTxs :
                 /\ DeliverTx(p, UTxs[j])
                 /\ hist' = Append(hist, [op |-> "tx", peer |-> p, i |-> j])
Spec == Init /\ [][Next]_mv
View == << blocks, order, utxo, byHeight, tips, head, lastValid, pool, chainT, locT, outT, inT, buffer, txnOpen, outbox, active >>

I_C13_PoolValid == P_PoolValid
I_C13_PoolCompatible == P_PoolCompatible
I_C09_StoreNotImpaired == P_StoreNotImpaired
I_C09_BufferOnlyServed == P_BufferOnlyServed
I_C09_RowsOnlyServed == P_RowsOnlyServed
I_C09_RelayAtMostOnce == P_RelayAtMostOnce
I_C09_AcceptedStored == ~txnOpen => DOMAIN blocks \subseteq S!Ids(chainT) \cup {buffer[k].id : k \in 1..Len(buffer)}
I_C09_ServedValid == Inv_C03_Replay /\ Inv_C04_Head
                     /\ \A id \in DOMAIN blocks : ~IsRoot(blocks[id]) =>
                          (P_C01(blocks[id], utxo[blocks[id].parent]) /\ P_C02(blocks[id], utxo[blocks[id].parent]))
I_Emit == EmitHist => PrintT(ToJson(<< "HIST", hist >>))
=============================================================================
