------------------------------ MODULE MC_Wire ------------------------------
(* Exhaustive check of the scaled grammar: every byte string over Alphabet up to MaxLen.           *)
(* One encoding per value: whatever decodes as a consensus type re-encodes to the consumed bytes.   *)
EXTENDS Wire
CONSTANTS Alphabet, MaxLen, Types
VARIABLE s
Init == s = << >>
Next == Len(s) < MaxLen /\ \E a \in Alphabet : s' = Append(s, a)
Spec == Init /\ [][Next]_s
I_C07_OneEncodingPerValue == \A t \in Types : Decodes(t, s) => Canonical(t, s)
I_ReencodeDecodesSame == \A t \in Types : Decodes(t, s) =>
                            LET r == Dec(t, s, 1) IN Dec(t, r.enc, 1).ok /\ Dec(t, r.enc, 1).enc = r.enc
I_VlqRoundTrip == Len(s) = 0 => \A v \in 0..20000 : VlqDec(VlqEnc(v), 1, 0, 0).v = v /\ VlqDec(VlqEnc(v), 1, 0, 0).n = VlqLen(v)
SomeDecodes == \A t \in Types : ~Decodes(t, s)      \* vacuity probe: must be violated
=============================================================================
