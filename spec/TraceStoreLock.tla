--------------------------- MODULE TraceStoreLock ---------------------------
(* The forced two-writer schedule of harness/store_drv.flush_with_concurrent_add, as observed: a list of StoreLock actions in the   *)
(* order they were seen to complete.  M: every observed action must be enabled in StoreLock with LockScope = "whole" (a hand-over  *)
(* completing while another writer is between Acquire and Release is not).  P (C08): the blocks on disk at the end, as read back    *)
(* through a fresh connection, are the ones StoreLock has.                                                                          *)
EXTENDS StoreLock, Json, IOUtils, TLC, TLCExt
Traces == JsonDeserialize(IOEnv.TRACE_FILE)       \* Seq([id, buffer0: Seq(Nat), disk0: Seq(Nat), events: Seq([a, w, b]), disk_end: Seq(Nat)])
VARIABLES tid, l, done
tv == << buffer, disk, lock, pc, copy, handed, nflush, tid, l, done >>
Tr == Traces[tid]
TInit == /\ tid \in 1..Len(Traces) /\ l = 1 /\ done = FALSE
         /\ buffer = Traces[tid].buffer0 /\ disk = Range(Traces[tid].disk0) /\ lock = None /\ pc = [w \in Writers |-> "idle"]
         /\ copy = [w \in Writers |-> << >>] /\ handed = Range(Traces[tid].buffer0) \cup Range(Traces[tid].disk0) /\ nflush = 0
Act(e) == CASE e.a = "add" -> Add(e.w, e.b)
            [] e.a = "acquire" -> Acquire(e.w)
            [] e.a = "write" -> Write(e.w)
            [] e.a = "clear" -> Clear(e.w)
            [] e.a = "release" -> Release(e.w)
Out(c) == PrintT(ToJson(<< "VERDICT", Tr.id, c, l >>))
TNext ==
  /\ ~done /\ UNCHANGED tid
  /\ IF l > Len(Tr.events)
     THEN /\ UNCHANGED << buffer, disk, lock, pc, copy, handed, nflush, l >> /\ done' = TRUE
          /\ Out(IF Range(Tr.disk_end) = disk THEN "ok"
                 ELSE IF handed \ Range(Tr.disk_end) # {} THEN "C08:block_handed_over_during_a_flush_is_missing_after_the_next_flush"
                 ELSE "C08:store_holds_blocks_never_handed_over")
     ELSE IF ENABLED Act(Tr.events[l])
     THEN Act(Tr.events[l]) /\ l' = l + 1 /\ UNCHANGED done
     ELSE \* the observed order is not a behaviour of StoreLock: report as drift and follow the observation (force the step's effect)
          /\ PrintT(ToJson(<< "DRIFT", Tr.id, l, "observed order of writer actions is not allowed by StoreLock (lock held from Acquire to Release): " \o Tr.events[l].a >>))
          /\ LET e == Tr.events[l] IN
             IF e.a = "add" THEN /\ buffer' = Append(buffer, e.b) /\ handed' = handed \cup {e.b} /\ UNCHANGED << disk, lock, pc, copy, nflush >>
             ELSE UNCHANGED << buffer, disk, lock, pc, copy, handed, nflush >>
          /\ l' = l + 1 /\ UNCHANGED done
TSpec == TInit /\ [][TNext]_tv
=============================================================================
