--------------------------- MODULE TraceStoreLock ---------------------------
(* Forced two-writer schedules of harness/store_drv (flush_with_concurrent_add: a second thread hands a block over while this thread's  *)
(* flush is inside its disk write; flush_with_concurrent_flush: a second thread hands a block over AND flushes while this thread is     *)
(* between BEGIN and COMMIT), as observed: a list of StoreLock actions in the order they were seen to complete.                          *)
(* M: every observed action must be enabled in StoreLock with LockScope = "whole" (anything completing while another writer is between  *)
(* Acquire and Release is not).  P: the blocks on disk at the end (fresh connection) are the ones handed over, and no writer saw an      *)
(* SQL error.  Prop names the property on whose behalf the schedule was run (C08 store fidelity, C09 relay path, C12 found block).       *)
EXTENDS StoreLock, Json, IOUtils, TLC, TLCExt
CONSTANTS Prop
Traces == JsonDeserialize(IOEnv.TRACE_FILE)       \* Seq([id, buffer0, disk0, events: Seq([a, w, b]), disk_end, errors: Seq(STRING)])
VARIABLES tid, l, done
tv == << buffer, disk, lock, pc, copy, handed, nflush, txn, sqlerror, tid, l, done >>
Tr == Traces[tid]
TInit == /\ tid \in 1..Len(Traces) /\ l = 1 /\ done = FALSE
         /\ buffer = Traces[tid].buffer0 /\ disk = Range(Traces[tid].disk0) /\ lock = None /\ pc = [w \in Writers |-> "idle"]
         /\ copy = [w \in Writers |-> << >>] /\ handed = Range(Traces[tid].buffer0) \cup Range(Traces[tid].disk0) /\ nflush = 0
         /\ txn = None /\ sqlerror = FALSE
Act(e) == CASE e.a = "add" -> Add(e.w, e.b)
            [] e.a = "acquire" -> Acquire(e.w)
            [] e.a = "write" -> Write(e.w)
            [] e.a = "commit" -> Commit(e.w)
            [] e.a = "clear" -> Clear(e.w)
            [] e.a = "release" -> Release(e.w)
Out(c) == PrintT(ToJson(<< "VERDICT", Tr.id, c, l >>))
Stay == UNCHANGED << buffer, disk, lock, pc, copy, handed, nflush, txn, sqlerror >>
TNext ==
  /\ ~done /\ UNCHANGED tid
  /\ IF l > Len(Tr.events)
     THEN /\ Stay /\ UNCHANGED l /\ done' = TRUE
          /\ Out(IF Tr.errors # << >> THEN Prop \o ":a_writer_of_the_block_store_got_an_error_while_another_writer_was_flushing"
                 ELSE IF Range(Tr.disk_end) = disk THEN "ok"
                 ELSE IF handed \ Range(Tr.disk_end) # {} THEN Prop \o ":block_handed_over_during_a_flush_is_missing_after_the_next_flush"
                 ELSE Prop \o ":store_holds_blocks_never_handed_over")
     ELSE IF ENABLED Act(Tr.events[l])
     THEN Act(Tr.events[l]) /\ l' = l + 1 /\ UNCHANGED done
     ELSE \* the observed order is not a behaviour of StoreLock: report as drift and follow the observation (force the step's effect)
          /\ PrintT(ToJson(<< "DRIFT", Tr.id, l, "observed order of writer actions is not allowed by StoreLock (lock held from Acquire to Release): " \o Tr.events[l].a >>))
          /\ LET e == Tr.events[l] IN
             IF e.a = "add" THEN /\ buffer' = Append(buffer, e.b) /\ handed' = handed \cup {e.b} /\ UNCHANGED << disk, lock, pc, copy, nflush, txn, sqlerror >>
             ELSE Stay
          /\ l' = l + 1 /\ UNCHANGED done
TSpec == TInit /\ [][TNext]_tv
=============================================================================
