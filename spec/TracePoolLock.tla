--------------------------- MODULE TracePoolLock ---------------------------
(* Outcomes of the preemption-point exploration of add_transaction_to_pool against a concurrent set_coinstate on a real node: P (C13) *)
(* is PoolLock's invariant on the observed final state.                                                                                *)
EXTENDS PoolLock, Json, IOUtils, TLC, TLCExt, Sequences
Traces == JsonDeserialize(IOEnv.TRACE_FILE)
VARIABLES tid, done
tv == << head, pool, lock, a, b, tid, done >>
TInit == tid \in 1..Len(Traces) /\ done = FALSE /\ Init
TNext == /\ ~done /\ done' = TRUE /\ UNCHANGED << tid, lock, a, b >>
         /\ head' = (IF Traces[tid].head_is_new THEN "new" ELSE "old")
         /\ pool' = (IF Traces[tid].pool_has_t THEN {T} ELSE {})
         /\ PrintT(ToJson(<< "VERDICT", Traces[tid].id,
                IF Traces[tid].errors # << >> THEN "C13:admission_or_state_replacement_raised_under_a_two_thread_schedule"
                ELSE IF ~(\A t \in pool' : ValidAt(head')) THEN "C13:pending_transaction_not_valid_at_the_head_after_a_concurrent_head_change"
                ELSE "ok", 1 >>))
TSpec == TInit /\ [][TNext]_tv
=============================================================================
