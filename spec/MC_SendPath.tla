---------------------------- MODULE MC_SendPath ----------------------------
(* Bounded instance of SendPath with a history variable: every interleaving of the two threads' source lines and every chunking of   *)
(* the transport is a separate behaviour; a behaviour is printed when nothing can happen any more.                                   *)
EXTENDS SendPath, Json
CONSTANTS EmitHist
VARIABLES hist
mv == << backlog, buf, interest, wire, queued, th, lock, crashed, full, hist >>
MInit == Init /\ hist = << >>
Label(t) == IF th[t].pc = "idle" THEN (IF th'[t].pc = "S1" THEN "send" ELSE "cansend") ELSE th[t].pc
MNext == \E t \in Threads : /\ StepOf(t)
                            /\ hist' = Append(hist, [t |-> t, a |-> Label(t), k |-> IF th[t].pc = "H1" THEN th'[t].sent ELSE 0, n |-> Len(buf)])
MSpec == MInit /\ [][MNext]_mv
Stuck == ~ENABLED Next
Bad == ~I_StreamIsQueuedFrames \/ ~I_NoStall \/ crashed
I_Emit == (EmitHist /\ Stuck) => PrintT(ToJson(<< "HIST", hist, IF crashed THEN "crash" ELSE IF Pending /\ ~interest THEN "stall" ELSE IF wire = Flat(queued) THEN "ok" ELSE "stream" >>))
View == << backlog, buf, interest, wire, queued, th, lock, crashed, full >>
=============================================================================
