------------------------------ MODULE MinerView ------------------------------
(* What the miner's request handler sees of the pending pool (mining.py:214 handle_request_scrypt_input_message ->                       *)
(* consensus.py:247 construct_block_pow_evidence_input): get_state() hands out (coinstate, transaction_pool); the candidate is then       *)
(* built in two reads of that list -- the fees for the reward transaction (construct_coinbase_transaction), and the candidate's           *)
(* transaction list ([coinbase] + transactions) -- while the network thread may admit another transaction (append, in place).            *)
(*   CopyOnGet = TRUE   get_state returns a copy of the list (the code after the repair of F-C12f);                                       *)
(*   CopyOnGet = FALSE  it returns the list object itself (necessity run): the second read can see a transaction the first did not.      *)
EXTENDS Naturals, Sequences
CONSTANTS Fee,           \* Fee[t]: fee of pending transaction t (transactions are 1..Len(Fee), admitted in this order)
          CopyOnGet
VARIABLES pool, view, miner
vars == << pool, view, miner >>
RECURSIVE Sum(_)
Sum(s) == IF s = << >> THEN 0 ELSE Fee[Head(s)] + Sum(Tail(s))
Init == pool = << >> /\ view = << >> /\ miner = [pc |-> "get", fees |-> 0, txs |-> << >>]
Admit == /\ Len(pool) < Len(Fee) /\ pool' = Append(pool, Len(pool) + 1) /\ UNCHANGED << view, miner >>
Seen == IF CopyOnGet THEN view ELSE pool
Get == /\ miner.pc = "get" /\ view' = pool /\ miner' = [miner EXCEPT !.pc = "fees"] /\ UNCHANGED pool
ReadFees == /\ miner.pc = "fees" /\ miner' = [miner EXCEPT !.pc = "list", !.fees = Sum(Seen)] /\ UNCHANGED << pool, view >>
ReadList == /\ miner.pc = "list" /\ miner' = [miner EXCEPT !.pc = "done", !.txs = Seen] /\ UNCHANGED << pool, view >>
Next == Admit \/ Get \/ ReadFees \/ ReadList
Spec == Init /\ [][Next]_vars
(* C12: the reward of the candidate counts exactly the fees of the transactions the candidate contains *)
I_C12_RewardCountsIncludedFees == miner.pc = "done" => miner.fees = Sum(miner.txs)
=============================================================================
