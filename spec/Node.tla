-------------------------------- MODULE Node --------------------------------
(* One skepticoin node as its peers and its miner see it: the served chain state (the Ledger       *)
(* variables = ChainManager.coinstate), the last validated state, the pending-transaction pool,     *)
(* the block store (Store.tla) and what has been queued to each peer.                                *)
(* Actions = the critical sections of networking/remote_peer.py handle_block_received (:451-510,    *)
(* its branches in the order the code takes them), handle_transaction_received (:512),               *)
(* ChainManager.set_coinstate / add_transaction_to_pool (manager.py:197-257) and the miner's         *)
(* request / found-block handlers (mining.py:214-271).                                               *)
EXTENDS Ledger

CONSTANTS
  Peers,
  IbdSkip,              \* IBD_VALIDATION_SKIP
  SaveBeforeApply,      \* TRUE: the block is buffered for the store before it is applied (pinned tree, F-C09)
  HandOverBeforeAdd     \* TRUE: the miner hands its *pre-block* state to the network layer (pinned tree, F-C12a)

VARIABLES
  lastValid,            \* last_known_valid_coinstate: a record of the six Ledger values, or << >>
  pool,                 \* transaction_pool: sequence of transactions
  chainT, locT, outT, inT, buffer, txnOpen,     \* Store.tla
  outbox,               \* peer -> sequence of [t, id] data messages queued by this node
  active,               \* peers with hello exchanged both ways and the connection open
  miner                 \* [snap: the six Ledger values the miner last fetched (or << >>), cand: candidate block (or << >>)]

S == INSTANCE Store
nvars == << blocks, order, utxo, byHeight, tips, head, lastValid, pool, chainT, locT, outT, inT, buffer, txnOpen,
            outbox, active, miner >>
storeVars == << chainT, locT, outT, inT, buffer, txnOpen >>

CS == [blocks |-> blocks, order |-> order, utxo |-> utxo, byHeight |-> byHeight, tips |-> tips, head |-> head]
CSPrimed == [blocks |-> blocks', order |-> order', utxo |-> utxo', byHeight |-> byHeight', tips |-> tips', head |-> head']
SetCS(c) == /\ blocks' = c.blocks /\ order' = c.order /\ utxo' = c.utxo
            /\ byHeight' = c.byHeight /\ tips' = c.tips /\ head' = c.head

SB(b) == [id |-> b.id, parent |-> b.parent, height |-> b.height,        \* the block as Store.tla sees it
          txs |-> [k \in 1..Len(b.txs) |-> [id |-> b.txs[k].id, nouts |-> Len(b.txs[k].outs), ins |-> RefSeq(b.txs[k])]]]

(* ---- pool ---- *)
TxOK(u, t) == TxInState(u, t) = ""
Cleanup(p, u) == SelectSeq(p, LAMBDA t : TxOK(u, t))          \* _cleanup_transaction_pool_for_coinstate
PoolRefs(p) == Flatten([k \in 1..Len(p) |-> RefSeq(p[k])], 1)
InPool(p, t) == \E k \in 1..Len(p) : p[k].id = t.id

(* ---- relay ---- *)
Broadcast(ob, msg) == [q \in Peers |-> IF q \in active THEN Append(ob[q], msg) ELSE ob[q]]

(* ---- store, as used by the relay path: buffer, then flush in the same step ---- *)
FlushOf(buf) ==        \* Store!FlushResult for an arbitrary buffer value
  LET c == S!InsChain(chainT, buf, 1)
      rows == S!TxRows(buf)
      L == S!InsLoc(locT, rows, 1)
      O == outT \cup S!OutRows(rows)
      newIn == { r \in S!InRows(rows) : r.key \notin inT }
      fkOK == \A r \in newIn : r.ref.tx = S!NullTx \/ << r.ref.tx, r.ref.idx >> \in O
  IN [ok |-> ~txnOpen /\ c.ok /\ fkOK, C |-> c.C, L |-> L, O |-> O, I |-> inT \cup { r.key : r \in newIn }]

(* ---- handle_block_received ---- *)
Branch(b, irt, now) ==
  IF b.id \in DOMAIN blocks THEN "dup"
  ELSE IF b.parent \notin DOMAIN blocks THEN "orphan"
  ELSE IF ByItself(b, now) # "" THEN "bad_by_itself"
  ELSE IF ~CanApply(b) THEN "apply_error"
  ELSE IF irt = 0 \/ b.height % IbdSkip = 0
       THEN (IF InState(b) # "" THEN "bad_in_state" ELSE "accept")
       ELSE "accept_unvalidated"

DeliverBlock(p, b, irt, now) ==
  LET br == Branch(b, irt, now) IN
  /\ p \in active
  /\ UNCHANGED miner
  /\ CASE br \in {"dup", "orphan", "bad_by_itself"} ->
            UNCHANGED << blocks, order, utxo, byHeight, tips, head, lastValid, pool, storeVars, outbox, active >>
       [] br = "apply_error" ->        \* the exception escapes the handler: the delivering peer is disconnected
            /\ buffer' = IF SaveBeforeApply THEN Append(buffer, SB(b)) ELSE buffer
            /\ active' = active \ {p}
            /\ UNCHANGED << blocks, order, utxo, byHeight, tips, head, lastValid, pool, chainT, locT, outT, inT, txnOpen, outbox >>
       [] br = "bad_in_state" ->       \* roll back to the last validated state, forget the buffer
            /\ IF lastValid # << >> THEN SetCS(lastValid) /\ pool' = Cleanup(pool, lastValid.utxo[lastValid.head])
               ELSE UNCHANGED << blocks, order, utxo, byHeight, tips, head, pool >>
            /\ buffer' = << >>
            /\ UNCHANGED << lastValid, chainT, locT, outT, inT, txnOpen, outbox, active >>
       [] br = "accept" ->
            LET buf == Append(buffer, SB(b))
                fl  == FlushOf(buf)
            IN /\ Store(b)
               /\ lastValid' = CSPrimed
               /\ pool' = Cleanup(pool, utxo'[head'])
               /\ IF fl.ok
                  THEN /\ chainT' = fl.C /\ locT' = fl.L /\ outT' = fl.O /\ inT' = fl.I /\ buffer' = << >> /\ UNCHANGED txnOpen
                       /\ outbox' = IF head' = b.id /\ irt = 0 THEN Broadcast(outbox, [t |-> "block", id |-> b.id]) ELSE outbox
                       /\ UNCHANGED active
                  ELSE /\ txnOpen' = TRUE /\ buffer' = buf /\ UNCHANGED << chainT, locT, outT, inT >>   \* flush raised after the state change
                       /\ active' = active \ {p} /\ UNCHANGED outbox
       [] br = "accept_unvalidated" ->   \* bulk download: applied, buffered, not validated, not relayed
            /\ Store(b)
            /\ pool' = Cleanup(pool, utxo'[head'])
            /\ buffer' = Append(buffer, SB(b))
            /\ UNCHANGED << lastValid, chainT, locT, outT, inT, txnOpen, outbox, active >>

(* ---- handle_transaction_received / add_transaction_to_pool ---- *)
TxBranch(t) ==
  IF InPool(pool, t) THEN "dup"
  ELSE LET f == TxByItself(t) IN
       IF f = "tx_range" THEN "range_error"              \* base ValidationError: not caught by admission
       ELSE IF f # "" THEN "refused"
       ELSE IF ~TxOK(utxo[head], t) THEN "refused"
       ELSE IF ~NoDup(PoolRefs(pool) \o RefSeq(t)) THEN "refused"
       ELSE "admit"

DeliverTx(p, t) ==
  LET br == TxBranch(t) IN
  /\ p \in active
  /\ UNCHANGED << blocks, order, utxo, byHeight, tips, head, lastValid, storeVars, miner >>
  /\ CASE br \in {"dup", "refused"} -> UNCHANGED << pool, outbox, active >>
       [] br = "range_error" -> /\ active' = active \ {p} /\ UNCHANGED << pool, outbox >>
       [] br = "admit" -> /\ pool' = Append(pool, t)
                          /\ outbox' = Broadcast(outbox, [t |-> "tx", id |-> t.id])
                          /\ UNCHANGED active

(* ---- the miner (mining.py) ---- *)
(* construct_block_pow_evidence_input on a chain-state value c with pending transactions p: reward = subsidy + fees to the   *)
(* miner's key, timestamp = max(now, parent + 1), target as prescribed; the nonce search is abstracted (a found block has     *)
(* an id below target and the evidence the miner computed for it)                                                             *)
Max(a, b) == IF a > b THEN a ELSE b
Candidate(c, p, now, key, bid, tid) ==
  LET pb == c.blocks[c.head]
      h  == pb.height + 1
      ts == Max(now, pb.ts + 1)
      et == ExpectedTarget(c.blocks, c.byHeight, c.head, ts)
      fs == FeeSum(c.utxo[c.head], p, 1)
      cbtx == [id |-> tid, sizeok |-> TRUE,
               ins |-> << [ref |-> NullRef, kind |-> "cbdata", signer |-> NoKey, cbh |-> h, small |-> TRUE] >>,
               outs |-> << [v |-> Subsidy(h) + fs.f, k |-> key] >>]
  IN [id |-> bid, parent |-> c.head, height |-> h, ts |-> ts, target |-> IF et.ok THEN et.t ELSE pb.target,
      powok |-> TRUE, evok |-> TRUE, merkleok |-> TRUE, sizeok |-> TRUE, txs |-> << cbtx >> \o p]

MinerRequest(now, key, bid, tid) ==      \* handle_request_scrypt_input_message: get_state() under the lock, candidate on that head
  /\ miner' = [snap |-> CS, cand |-> Candidate(CS, pool, now, key, bid, tid)]
  /\ UNCHANGED << blocks, order, utxo, byHeight, tips, head, lastValid, pool, storeVars, outbox, active >>

FoundOK(now) == /\ miner.cand # << >>
                /\ FirstFailingOn(miner.snap, miner.cand, now) = "" /\ CanApplyOn(miner.snap, miner.cand)

MinerFound(now) ==         \* handle_scrypt_output_message for a candidate whose id is below target
  LET b == miner.cand
      snap == miner.snap
      ok == FoundOK(now)
      n == Stored(snap, b)
      buf == Append(buffer, SB(b))
      fl == FlushOf(buf)
  IN /\ miner.cand # << >>
     /\ miner' = [snap |-> IF ok THEN n ELSE snap, cand |-> << >>]
     /\ IF HandOverBeforeAdd
        THEN \* pinned order: set_coinstate(old snapshot); broadcast; only then add_block on the miner's private copy, save, flush
             /\ SetCS(snap) /\ lastValid' = snap /\ pool' = Cleanup(pool, snap.utxo[snap.head])
             /\ outbox' = Broadcast(outbox, [t |-> "block", id |-> b.id])
             /\ IF ok /\ fl.ok THEN chainT' = fl.C /\ locT' = fl.L /\ outT' = fl.O /\ inT' = fl.I /\ buffer' = << >> /\ UNCHANGED txnOpen
                ELSE UNCHANGED storeVars
        ELSE IF ok
        THEN \* repaired order: validate-and-add on the snapshot, hand the new state over, broadcast, save, flush
             /\ SetCS(n) /\ lastValid' = n /\ pool' = Cleanup(pool, n.utxo[n.head])
             /\ outbox' = Broadcast(outbox, [t |-> "block", id |-> b.id])
             /\ IF fl.ok THEN chainT' = fl.C /\ locT' = fl.L /\ outT' = fl.O /\ inT' = fl.I /\ buffer' = << >> /\ UNCHANGED txnOpen
                ELSE txnOpen' = TRUE /\ buffer' = buf /\ UNCHANGED << chainT, locT, outT, inT >>
        ELSE \* add_block raised: nothing is handed over, stored or broadcast (and the miner loop ends)
             UNCHANGED << blocks, order, utxo, byHeight, tips, head, lastValid, pool, storeVars, outbox >>
     /\ UNCHANGED active

NInit(g, ps) ==
  /\ LInit(g)
  /\ lastValid = [blocks |-> (g.id :> g), order |-> << g.id >>, utxo |-> (g.id :> ApplyBlock(EmptyU, g).u),
                  byHeight |-> (g.id :> (0 :> g.id)), tips |-> {g.id}, head |-> g.id]
  /\ pool = << >>
  /\ S!SInit(SB(g))
  /\ outbox = [q \in Peers |-> << >>]
  /\ active = ps
  /\ miner = [snap |-> << >>, cand |-> << >>]

(* ---- P-layer (C09, C13) as state predicates / step predicates ---- *)
P_PoolValid == \A k \in 1..Len(pool) : TxByItself(pool[k]) = "" /\ TxOK(utxo[head], pool[k])
P_PoolCompatible == NoDup(PoolRefs(pool))
P_StoreNotImpaired == ~txnOpen
P_BufferOnlyServed == \A k \in 1..Len(buffer) : buffer[k].id \in DOMAIN blocks
P_RowsOnlyServed == S!Ids(chainT) \subseteq DOMAIN blocks
P_RelayAtMostOnce == \A q \in Peers : \A i, j \in 1..Len(outbox[q]) : (i # j /\ outbox[q][i].t = "block") => outbox[q][i] # outbox[q][j]
=============================================================================
