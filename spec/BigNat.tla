------------------------------ MODULE BigNat ------------------------------
(* Natural numbers of arbitrary size as big-endian sequences of base-256 digits   *)
(* (the same layout as the 32-byte `target` and 32-byte ids in skepticoin).       *)
(* TLC integers are 32-bit: every intermediate value below stays under 2^31.      *)
EXTENDS Naturals, Sequences

IsBytes(a) == \A i \in 1..Len(a) : a[i] \in 0..255

RECURSIVE Strip(_)
Strip(a) == IF Len(a) > 0 /\ a[1] = 0 THEN Strip(Tail(a)) ELSE a

Zeros(n) == [i \in 1..n |-> 0]
Ones(n)  == [i \in 1..n |-> 255]
PadTo(a, n) == IF Len(a) >= n THEN a ELSE Zeros(n - Len(a)) \o a

(* comparison of equal-length digit strings = numeric comparison; -1, 0, 1 *)
RECURSIVE CmpAt(_, _, _)
CmpAt(a, b, i) == IF i > Len(a) THEN 0
                  ELSE IF a[i] < b[i] THEN 0 - 1
                  ELSE IF a[i] > b[i] THEN 1
                  ELSE CmpAt(a, b, i + 1)
Cmp(a, b) == LET n == IF Len(a) > Len(b) THEN Len(a) ELSE Len(b)
             IN CmpAt(PadTo(a, n), PadTo(b, n), 1)
Less(a, b) == Cmp(a, b) < 0

(* small carry (< 2^31) as digits, most significant first, no leading zeros *)
RECURSIVE NatDigits(_)
NatDigits(c) == IF c = 0 THEN << >> ELSE Append(NatDigits(c \div 256), c % 256)

(* a * m for a small multiplier m < 2^22  (255 * m + carry < 2^31) *)
RECURSIVE MulSmallAt(_, _, _, _)
MulSmallAt(a, i, m, carry) ==
  IF i = 0 THEN NatDigits(carry)
  ELSE LET v == a[i] * m + carry
       IN Append(MulSmallAt(a, i - 1, m, v \div 256), v % 256)
MulSmall(a, m) == MulSmallAt(a, Len(a), m, 0)

(* a + b *)
RECURSIVE AddAt(_, _, _, _)
AddAt(a, b, i, carry) ==   \* a, b padded to the same length
  IF i = 0 THEN NatDigits(carry)
  ELSE LET v == a[i] + b[i] + carry
       IN Append(AddAt(a, b, i - 1, v \div 256), v % 256)
Add(a, b) == LET n == IF Len(a) > Len(b) THEN Len(a) ELSE Len(b)
             IN AddAt(PadTo(a, n), PadTo(b, n), n, 0)

(* a * b, schoolbook over the digits of b (most significant first: Horner) *)
RECURSIVE MulAt(_, _, _, _)
MulAt(a, b, j, acc) ==
  IF j > Len(b) THEN acc
  ELSE MulAt(a, b, j + 1, Add(Append(acc, 0), MulSmall(a, b[j])))
Mul(a, b) == MulAt(a, b, 1, << >>)

(* a \div d and a % d for a small divisor 0 < d < 2^23  (rem * 256 + digit < 2^31) *)
RECURSIVE DivAt(_, _, _, _, _)
DivAt(a, d, i, rem, q) ==
  IF i > Len(a) THEN [q |-> q, r |-> rem]
  ELSE LET v == rem * 256 + a[i]
       IN DivAt(a, d, i + 1, v % d, Append(q, v \div d))
DivSmall(a, d) == DivAt(a, d, 1, 0, << >>).q
ModSmall(a, d) == DivAt(a, d, 1, 0, << >>).r

(* small natural (< 2^31) as 4 digits *)
Nat4(e) == << e \div 16777216, (e \div 65536) % 256, (e \div 256) % 256, e % 256 >>

(* value of a short digit string that is known to fit a TLC integer *)
RECURSIVE ValAt(_, _, _)
ValAt(a, i, acc) == IF i > Len(a) THEN acc ELSE ValAt(a, i + 1, acc * 256 + a[i])
Val(a) == ValAt(Strip(a), 1, 0)

(* min(a * e \div d, 2^(8w) - 1) as exactly w digits; e given as digits, d small *)
ScaleCapped(a, e, d, w) ==
  LET q == Strip(DivSmall(Mul(a, e), d))
  IN IF Len(q) > w THEN Ones(w) ELSE PadTo(q, w)
=============================================================================
