--------------------------- MODULE TracePeerBook ---------------------------
(* Observed event sequences of a real NetworkManager (in-memory sockets, virtual clock).             *)
(* P (C19) is judged on quantities TLC derives from the *events* (attempt times, greetings, ends of   *)
(* outgoing connections), not on the node's own ban_score; M compares the two maps with PeerBook.     *)
EXTENDS PeerBook, Json, IOUtils, TLCExt
Traces == JsonDeserialize(IOEnv.TRACE_FILE)
VARIABLES tid, l, done, hk, hlast, hgreeted, hself, prevConn     \* prevConn: keys reported as connected after the previous event
tv == << connected, disconnected, myAddrs, clock, attempts, peersFile, broken, tid, l, done, hk, hlast, hgreeted, hself, prevConn >>
Ev == Traces[tid].events
Out(c) == PrintT(ToJson(<< "VERDICT", Traces[tid].id, c, l >>))
K(j) == Key(j.h, j.p, j.d)
SetOf(s) == {s[i] : i \in 1..Len(s)}
Get(f, k, dflt) == IF k \in DOMAIN f THEN f[k] ELSE dflt

ConnKeys(p) == {K(p.connected[i].key) : i \in 1..Len(p.connected)}
DiscKeys(p) == {K(p.disconnected[i].key) : i \in 1..Len(p.disconnected)}
ModelMatches(p) ==
  /\ ConnKeys(p) = DOMAIN connected' /\ DiscKeys(p) = DOMAIN disconnected'
  /\ \A i \in 1..Len(p.connected) : LET k == K(p.connected[i].key) IN
        k \in DOMAIN connected' => (connected'[k].hello = p.connected[i].hello /\ connected'[k].ban = p.connected[i].ban)
  /\ \A i \in 1..Len(p.disconnected) : LET k == K(p.disconnected[i].key) IN
        k \in DOMAIN disconnected' => (disconnected'[k].ban = p.disconnected[i].ban /\ disconnected'[k].last = p.disconnected[i].last)

Common(p) == IF ConnKeys(p) \cap DiscKeys(p) # {} THEN "C19:address_recorded_as_connected_and_waiting_for_reconnection"
             ELSE IF p.raised THEN "C19:network_manager_consistency_check_raised"
             ELSE IF Len(p.file) > FileMax THEN "C19:peers_file_longer_than_limit"
             ELSE IF Cardinality(SetOf(p.file)) # Len(p.file) THEN "C19:peers_file_lists_a_peer_twice"
             ELSE ""

Apply(e) ==
  CASE e.op = "tick" -> Tick(e.dt)
    [] e.op = "step" -> StepConnect
    [] e.op = "incoming" -> Incoming(e.h, e.p)
    [] e.op = "close" -> IF K(e.key) \in DOMAIN connected THEN PeerDisconnected(K(e.key)) ELSE UNCHANGED pvars
    [] e.op = "hello" -> IF K(e.key) \in DOMAIN connected THEN Hello(K(e.key), e.port, e.self) ELSE UNCHANGED pvars
    [] e.op = "peers" -> IF K(e.key) \in DOMAIN connected /\ connected[K(e.key)].hello
                         THEN PeersAnnounced(K(e.key), {<< e.addrs[i][1], e.addrs[i][2] >> : i \in 1..Len(e.addrs)})
                         ELSE IF K(e.key) \in DOMAIN connected THEN PeerDisconnected(K(e.key))     \* "First message must be Hello": dropped
                         ELSE UNCHANGED pvars

Clause(e) ==
  LET p == e.post
      c0 == IF e.op = "tick" THEN "" ELSE Common(p)
  IN IF c0 # "" THEN c0
     ELSE IF e.op = "step" THEN
          (LET as == SetOf(e.attempts) IN
           IF \E a \in as : << a.h, a.p >> \in hself THEN "C19:own_address_retried"
           ELSE IF \E a \in as : Get(hk, K(a), 0) > MaxAttempts THEN "C19:retried_beyond_the_configured_number_of_failures"
           ELSE IF \E a \in as : Get(hlast, K(a), None) # None /\ clock - Get(hlast, K(a), None) < Wait(Get(hk, K(a), 0))
                THEN "C19:retried_sooner_than_the_backoff_allows"
           ELSE "")
     ELSE IF e.op = "hello" /\ e.self /\ e.key.d = "OUTGOING" /\ K(e.key) \in ConnKeys(p) THEN "C19:connection_to_self_not_dropped"
     ELSE IF e.op = "hello" /\ e.key.d = "OUTGOING" /\ (Len(p.file) = 0 \/ K(p.file[1]) # K(e.key)) THEN "C19:greeted_peer_not_first_in_peers_file"
     ELSE ""

TInit == /\ tid \in 1..Len(Traces) /\ l = 1 /\ done = FALSE
         /\ PInit([k \in {K(Traces[tid].initial[i]) : i \in 1..Len(Traces[tid].initial)} |-> [ban |-> 0, last |-> None]])
         /\ hk = [x \in {} |-> 0] /\ hlast = [x \in {} |-> 0] /\ hgreeted = {} /\ hself = {} /\ prevConn = {}
TNext ==
  /\ ~done /\ l <= Len(Ev) /\ UNCHANGED tid
  /\ LET e == Ev[l] IN
     /\ Apply(e)
     /\ LET c == Clause(e) IN
        /\ (e.op # "tick" /\ ~ModelMatches(e.post) => PrintT(ToJson(<< "DRIFT", Traces[tid].id, l, "peer maps differ from PeerBook after " \o e.op >>)))
        \* history variables, from the observable events
        /\ hlast' = IF e.op = "step" THEN [k \in DOMAIN hlast \cup {K(e.attempts[i]) : i \in 1..Len(e.attempts)} |->
                                             IF \E i \in 1..Len(e.attempts) : K(e.attempts[i]) = k THEN clock ELSE hlast[k]] ELSE hlast
        \* an outgoing connection that was open after the previous event and is gone (or was re-attempted) now has ended
        /\ LET now == IF e.op = "tick" THEN prevConn ELSE ConnKeys(e.post)
               reatt == IF e.op = "step" THEN {K(e.attempts[i]) : i \in 1..Len(e.attempts)} ELSE {}
               ended == {k \in prevConn : k.d = "OUTGOING" /\ (k \notin now \/ k \in reatt)}
               greetedNow == IF e.op = "hello" /\ e.key.d = "OUTGOING" /\ e.was_open THEN {K(e.key)} ELSE {}
               \* an attempt (a connect() on a new socket) that the node does not even record as a connection has ended without a greeting too
               failedAtOnce == {k \in reatt : k \notin now}
               failed == {k \in ended : k \notin hgreeted /\ k \notin greetedNow} \cup failedAtOnce
           IN /\ hk' = [k \in DOMAIN hk \cup failed \cup greetedNow |->
                          IF k \in greetedNow THEN 0 ELSE IF k \in failed THEN Get(hk, k, 0) + 1 ELSE hk[k]]
              /\ hgreeted' = ((hgreeted \cup greetedNow) \ ended) \cap now
              /\ prevConn' = now
        /\ hself' = IF e.op = "hello" /\ e.key.d = "OUTGOING" /\ e.self /\ e.was_open THEN hself \cup {<< e.key.h, e.key.p >>} ELSE hself
        /\ IF c # "" THEN Out(c) /\ done' = TRUE /\ l' = l
           ELSE /\ l' = l + 1 /\ done' = (l + 1 > Len(Ev)) /\ ((l + 1 > Len(Ev)) => Out("ok"))
TSpec == TInit /\ [][TNext]_tv
=============================================================================
