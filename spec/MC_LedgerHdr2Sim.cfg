\* C05 (rule level): header-only chains crossing retarget boundaries (Period 3, Timespan 4) on both
\* sides of forks; every header mutation on every stored parent; hist hidden by the VIEW.
SPECIFICATION SpecGen
CONSTANTS
  Period = 2
  Timespan = 3
  W = 1
  MaxFuture = 30
  InitialSubsidy = 8
  HalvingInterval = 2
  MaxMoney = 30
  Horizon <- NoHorizon
  RulesOff = {}
  Known <- NoKnown
  Keys = {1}
  Miners = {1}
  MaxBlocks = 8
  MaxSteps = 14
  TsDeltas = {1, 2}
  TxLevel = 0
  HdrMuts = {"badtarget", "target_otherchain"}
  TxMuts = {}
  RewardDeltas <- RD1
  UseNoValidation = FALSE
  EmitHist = TRUE
  GenesisTarget <- Target1
INVARIANT I_C05
INVARIANT I_C06_TamperRejected
INVARIANT I_C02
INVARIANT I_C02_Cumulative
INVARIANT I_C03_Replay
INVARIANT I_C04_Head
INVARIANT I_C04_Tips
INVARIANT I_C04_Index
PROPERTY A_C04_HeadOnlyUp
INVARIANT Emit
