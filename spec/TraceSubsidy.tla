---------------------------- MODULE TraceSubsidy ----------------------------
(* Observed values of get_block_subsidy / params / the validator's amount limit, judged against  *)
(* the era machine.  Heights may exceed 2^31: they are logged as digit strings.                  *)
EXTENDS Subsidy, Json, IOUtils, TLC, TLCExt

Events == JsonDeserialize(IOEnv.TRACE_FILE)
VARIABLES l, done
tv == << era, sub, total, prev, l, done >>

EraOfHeight(hb) == Val(DivSmall(hb, Interval))      \* quotient fits: heights < 2^40

RECURSIVE TotalUpTo(_, _)
TotalUpTo(e, acc) == IF e < 0 THEN acc ELSE TotalUpTo(e - 1, Add(acc, MulSmall(Nat4(SubsidyOfEra(e)), Interval)))
ModelTotal == Strip(TotalUpTo(64, << >>))

Clause(e) ==
  CASE e.k = "height" ->
         IF e.v # SubsidyOfEra(IF Len(Strip(DivSmall(e.h, Interval))) > 3 THEN 64 ELSE EraOfHeight(e.h))
         THEN "C16:subsidy_at_height_differs_from_schedule" ELSE ""
    [] e.k = "era" ->      \* summary of a complete scan of one era: all values equal, count = Interval
         IF e.vmin # SubsidyOfEra(e.era) \/ e.vmax # SubsidyOfEra(e.era) THEN "C16:subsidy_within_era_differs_from_schedule"
         ELSE IF e.n # Interval THEN "C16:era_length_differs" ELSE ""
    [] e.k = "mono" ->     \* two heights a < b with observed values
         IF e.vb > e.va THEN "C16:subsidy_increases_with_height" ELSE ""
    [] e.k = "sum" ->      \* sum over all heights as computed from the code's values
         IF Strip(e.total) # ModelTotal THEN "C16:sum_over_all_heights_differs_from_schedule"
         ELSE IF Strip(e.total) # Strip(DocMax) THEN "C16:sum_over_all_heights_differs_from_documented_maximum" ELSE ""
    [] e.k = "param" ->    \* constants of the code base, as digits
         IF e.name = "MAX_SASHIMI" /\ Strip(e.value) # Strip(DocMax) THEN "C16:maximum_constant_differs_from_documentation"
         ELSE IF e.name = "INITIAL_SUBSIDY" /\ Strip(e.value) # Strip(Nat4(Initial)) THEN "C16:initial_subsidy_differs_from_documentation"
         ELSE IF e.name = "SUBSIDY_HALVING_INTERVAL" /\ Strip(e.value) # Strip(Nat4(Interval)) THEN "C16:halving_interval_differs_from_documentation"
         ELSE ""
    [] e.k = "limit" ->    \* validator's amount limit probed: accepts value iff 0 < value <= limit
         IF Strip(e.largest_accepted) # Strip(DocMax) THEN "C16:validator_amount_limit_differs_from_maximum_supply"
         ELSE IF e.zero_accepted THEN "C16:validator_accepts_zero_amount" ELSE ""
    [] e.k = "enforce" ->  \* the validator's reward rule probed at height h (no fees): a reward of v is accepted iff v <= subsidy(h)
         LET S == SubsidyOfEra(IF Len(Strip(DivSmall(e.h, Interval))) > 3 THEN 64 ELSE EraOfHeight(e.h))
         IN IF e.accepted /\ e.v > S THEN "C16:validator_accepts_a_reward_above_the_subsidy_of_that_height"
            ELSE IF ~e.accepted /\ e.v <= S THEN "C16:validator_rejects_the_documented_subsidy_of_that_height" ELSE ""
    [] e.k = "enforce_wire" ->  \* a block as bytes on the wire whose reward outputs add up (as the 64-bit amounts the format defines) to more than any
                                \* subsidy, decoded by the node and put to its reward rule
         IF e.accepted THEN "C16:validator_accepts_a_reward_above_the_subsidy_of_that_height" ELSE ""
    [] e.k = "mint" ->     \* the reward the node's own block assembly claims at height h without fees
         LET S == SubsidyOfEra(IF Len(Strip(DivSmall(e.h, Interval))) > 3 THEN 64 ELSE EraOfHeight(e.h))
         IN IF e.v # S THEN "C16:assembled_reward_differs_from_the_subsidy_of_that_height" ELSE ""
    [] OTHER -> "machinery:unknown_event"

TInit == SInit /\ l = 1 /\ done = FALSE
TNext == /\ ~done /\ l <= Len(Events)
         /\ UNCHANGED svars
         /\ LET c == Clause(Events[l])
            IN IF c # "" THEN /\ PrintT(ToJson(<< "VERDICT", 1, c, l >>)) /\ done' = TRUE /\ l' = l
               ELSE /\ l' = l + 1 /\ done' = (l + 1 > Len(Events))
                    /\ (l + 1 > Len(Events)) => PrintT(ToJson(<< "VERDICT", 1, "ok", l >>))
TSpec == TInit /\ [][TNext]_tv
=============================================================================
