--------------------------- MODULE TraceInterfere ---------------------------
(* Outcomes of preemption-point exploration of a computation that must be a function of its arguments: what it returned (as a digest of   *)
(* its results) while another thread ran a different computation at stop k, against what it returns alone.  Prop / What name the property *)
(* and the computation.                                                                                                                    *)
EXTENDS Naturals, Sequences, Json, IOUtils, TLC, TLCExt
Traces == JsonDeserialize(IOEnv.TRACE_FILE)       \* Seq([id, prop, what, alone, got, other_alone, other_got, errors])
VARIABLES tid, done
TInit == tid \in 1..Len(Traces) /\ done = FALSE
Clause(t) == IF t.errors # << >> THEN t.prop \o ":" \o t.what \o "_raises_when_another_thread_computes_at_the_same_time"
             ELSE IF t.got # t.alone \/ t.other_got # t.other_alone THEN t.prop \o ":" \o t.what \o "_depends_on_what_another_thread_computes_at_the_same_time"
             ELSE "ok"
TNext == /\ ~done /\ done' = TRUE /\ UNCHANGED tid
         /\ PrintT(ToJson(<< "VERDICT", Traces[tid].id, Clause(Traces[tid]), 1 >>))
TSpec == TInit /\ [][TNext]_<< tid, done >>
=============================================================================
