--------------------------- MODULE ForkChoiceInd ---------------------------
(* Fork choice (coinstate.py:111-121) as an inductive argument checked symbolically by Apalache for every tree of up to   *)
(* MaxN + 1 blocks at once (no enumeration of trees or arrival orders): if the head is the first-seen block of greatest   *)
(* height, it still is after any block is added under the code's rule "move the head only to a strictly higher block".    *)
(* Complements TLC's exhaustive enumeration in MC_LedgerForks (6-7 blocks).                                               *)
(*   apalache-mc check --init=IndInv --inv=IndInv --length=1 ForkChoiceInd.tla      (inductive step)                      *)
(*   apalache-mc check --init=Init --inv=IndInv --length=0 ForkChoiceInd.tla        (base case)                            *)
EXTENDS Integers

MaxN == 12
Ids == 0..MaxN

VARIABLES
  \* @type: Int;
  n,
  \* @type: Int -> Int;
  ht,
  \* @type: Int;
  head

Init == n = 1 /\ ht = [i \in Ids |-> 0] /\ head = 0

Add(p) ==       \* block n arrives with parent p (any earlier block)
  /\ n <= MaxN /\ p >= 0 /\ p < n
  /\ ht' = [ht EXCEPT ![n] = ht[p] + 1]
  /\ head' = IF head = p THEN n                                   \* simple extension of the head
             ELSE IF ht[p] + 1 > ht[head] THEN n                  \* strictly more work: switch
             ELSE head                                            \* ties keep the first-seen tip
  /\ n' = n + 1
Next == \E p \in Ids : Add(p)

FirstSeenBest == /\ head >= 0 /\ head < n
                 /\ \A i \in Ids : i < n => (ht[i] < ht[head] \/ (ht[i] = ht[head] /\ i >= head))
IndInv == /\ n \in 1..(MaxN + 1)
          /\ ht \in [Ids -> 0..MaxN]
          /\ head \in Ids
          /\ \A i \in Ids : i < n => ht[i] <= i        \* a block is at most as high as the number of blocks before it
          /\ FirstSeenBest
=============================================================================
