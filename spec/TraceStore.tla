----------------------------- MODULE TraceStore -----------------------------
(* Observed use of the real BlockStore (real SQLite file): add_block_to_buffer / flush / clear, and   *)
(* after every flush a read-back through a fresh connection.  P (C08): the read-back is exactly what   *)
(* was written.  M: the tables evolve as Store.tla says (including its known deviation).               *)
EXTENDS Store, Json, IOUtils, TLCExt
Traces == JsonDeserialize(IOEnv.TRACE_FILE)
VARIABLES tid, l, done, wr        \* wr: id -> block as buffered, for everything that a committed flush wrote
tv == << chainT, locT, outT, inT, buffer, txnOpen, tid, l, done, wr >>
Ev == Traces[tid].events
ToB(jb) == [id |-> jb.id, parent |-> jb.parent, height |-> jb.height,
            txs |-> [k \in 1..Len(jb.txs) |-> [id |-> jb.txs[k].id, nouts |-> jb.txs[k].nouts,
                       ins |-> [m \in 1..Len(jb.txs[k].ins) |-> [tx |-> jb.txs[k].ins[m][1], idx |-> jb.txs[k].ins[m][2]]]]]]
TxIds(b) == [k \in 1..Len(b.txs) |-> b.txs[k].id]
Out(c) == PrintT(ToJson(<< "VERDICT", Traces[tid].id, c, l >>))

ReadClause(e, W) ==      \* e.read: sequence of [id, parent, height, txids, bytes_equal], W: what must be there
  LET rd == e.read
      ids == {rd[i].id : i \in 1..Len(rd)}
      pos(x) == CHOOSE i \in 1..Len(rd) : rd[i].id = x
      lost == {i \in 1..Len(rd) : rd[i].id \in DOMAIN W /\ rd[i].txids # TxIds(W[rd[i].id])}
      relocated == \A i \in lost :     \* exactly the transactions already located in another stored block are missing
                      LET want == TxIds(W[rd[i].id])
                          miss == {want[k] : k \in 1..Len(want)} \ {rd[i].txids[k] : k \in 1..Len(rd[i].txids)}
                      IN /\ rd[i].txids = SelectSeq(want, LAMBDA x : x \notin miss)
                         /\ \A x \in miss : \E j \in 1..Len(locT') : locT'[j][1] = x /\ locT'[j][2] # rd[i].id
      skipped == (DOMAIN W) \ ids
      skippedRelocated == \A x \in skipped : \A k \in 1..Len(W[x].txs) :
                             \E j \in 1..Len(locT') : locT'[j][1] = W[x].txs[k].id /\ locT'[j][2] # x
  IN IF Cardinality(ids) # Len(rd) THEN "C08:block_read_back_twice"
     ELSE IF ids \ DOMAIN W # {} THEN "C08:block_read_back_that_was_never_written"
     ELSE IF skipped # {} THEN (IF skippedRelocated THEN "C08:shared_transaction_kept_for_first_block_only" ELSE "C08:written_block_missing_on_read_back")
     ELSE IF lost # {} THEN (IF relocated THEN "C08:shared_transaction_kept_for_first_block_only" ELSE "C08:transaction_list_differs_on_read_back")
     ELSE IF \E i \in 1..Len(rd) : ~rd[i].bytes_equal THEN "C08:block_content_differs_on_read_back"
     ELSE IF \E i \in 1..Len(rd) : rd[i].parent # NoB /\ (rd[i].parent \notin ids \/ pos(rd[i].parent) > i) THEN "C08:child_read_before_parent"
     ELSE IF ~e.ledger_equal THEN "C08:rebuilt_ledger_differs"
     ELSE IF ~e.head_height_equal THEN "C08:rebuilt_head_height_differs"
     ELSE ""

Step(e) ==
  CASE e.op = "buffer" -> /\ BufferBlock(ToB(e.blk)) /\ UNCHANGED wr
                          /\ l' = l + 1 /\ done' = (l + 1 > Len(Ev)) /\ UNCHANGED tid
                          /\ (l + 1 > Len(Ev)) => Out("ok")
    [] e.op = "clear"  -> /\ ClearBuffer /\ UNCHANGED wr
                          /\ l' = l + 1 /\ done' = (l + 1 > Len(Ev)) /\ UNCHANGED tid
                          /\ (l + 1 > Len(Ev)) => Out("ok")
    [] e.op = "flush"  ->
         LET predictedRaise == buffer # << >> /\ (txnOpen \/ ~FlushResult.ok)
             W == IF e.raised THEN wr ELSE [x \in DOMAIN wr \cup {buffer[k].id : k \in 1..Len(buffer)} |->
                                              IF x \in DOMAIN wr THEN wr[x] ELSE buffer[CHOOSE k \in 1..Len(buffer) : buffer[k].id = x]]
         IN /\ (e.honest /\ predictedRaise # e.raised => PrintT(ToJson(<< "DRIFT", Traces[tid].id, l, "flush outcome differs from Store!FlushResult" >>)))
            /\ IF e.raised THEN (IF buffer = << >> THEN FlushNoop ELSE /\ txnOpen' = TRUE /\ UNCHANGED << chainT, locT, outT, inT, buffer >>)
               ELSE IF buffer = << >> THEN FlushNoop
               ELSE /\ chainT' = FlushResult.C /\ locT' = FlushResult.L /\ outT' = FlushResult.O /\ inT' = FlushResult.I
                    /\ buffer' = << >> /\ UNCHANGED txnOpen
            /\ wr' = W
            /\ UNCHANGED tid
            /\ LET c0 == IF e.raised /\ e.honest THEN "C08:flush_of_accepted_blocks_failed" ELSE IF e.raised THEN "" ELSE ReadClause(e, W)
                   \* C17 on what a restarted node holds: the ordered transaction list of every block read back is the list its header commits to
                   c == IF ~e.raised /\ Traces[tid].prop = "C17" /\ (\E i \in 1..Len(e.read) : ~e.read[i].merkle_ok)
                        THEN "C17:block_read_back_from_the_store_holds_another_list_than_its_header_commits_to" ELSE c0
                   rs == {[id |-> e.read[i].id, parent |-> e.read[i].parent, height |-> e.read[i].height, txids |-> e.read[i].txids] : i \in 1..Len(e.read)}
               IN /\ (~e.raised /\ rs # ReadSet' => PrintT(ToJson(<< "DRIFT", Traces[tid].id, l, "read-back differs from Store!ReadSet" >>)))
                  /\ IF c # "" /\ ~(c = "C08:shared_transaction_kept_for_first_block_only" /\ e.continue_after_known)
                     THEN Out(c) /\ done' = TRUE /\ l' = l
                     ELSE /\ (c # "" => PrintT(ToJson(<< "FINDING", Traces[tid].id, l, c >>)))
                          /\ l' = l + 1 /\ done' = (l + 1 > Len(Ev))
                          /\ (l + 1 > Len(Ev)) => Out("ok")

(* a flush that is cut short by the death of the process (StoreCrash.tla: nothing of it is durable), followed by a restart: the tables are  *)
(* as before, the write buffer is gone with the process.  P (for the property named in the trace): what the restarted node reads back is   *)
(* made of blocks exactly as they were handed over -- those of earlier flushes, possibly those of the cut flush, never a part of one.      *)
CrashClause(e, p) ==
  LET rd == e.read
      ids == {rd[i].id : i \in 1..Len(rd)}
      pos(x) == CHOOSE i \in 1..Len(rd) : rd[i].id = x
      H == [x \in DOMAIN wr \cup {buffer[k].id : k \in 1..Len(buffer)} |->
               IF x \in DOMAIN wr THEN wr[x] ELSE buffer[CHOOSE k \in 1..Len(buffer) : buffer[k].id = x]]
      pre(c) == p \o ":" \o c
  IN IF Cardinality(ids) # Len(rd) THEN pre("block_read_back_twice_after_a_crash")
     ELSE IF ids \ DOMAIN H # {} THEN pre("block_read_back_after_a_crash_that_was_never_written")
     ELSE IF (DOMAIN wr) \ ids # {} THEN pre("block_of_an_earlier_flush_lost_by_a_crash_during_a_later_one")
     ELSE IF \E i \in 1..Len(rd) : rd[i].txids # TxIds(H[rd[i].id]) THEN pre("block_read_back_after_a_crash_lacks_transactions")
     ELSE IF \E i \in 1..Len(rd) : ~rd[i].bytes_equal THEN pre("block_read_back_after_a_crash_differs_from_the_block_handed_over")
     ELSE IF \E i \in 1..Len(rd) : rd[i].parent # NoB /\ (rd[i].parent \notin ids \/ pos(rd[i].parent) > i) THEN pre("child_read_before_parent_after_a_crash")
     ELSE IF p = "C17" /\ (\E i \in 1..Len(rd) : ~rd[i].merkle_ok) THEN "C17:block_read_back_from_the_store_holds_another_list_than_its_header_commits_to"
     ELSE IF p = "C01" /\ e.spent_is_unspent THEN "C01:output_spent_by_an_ancestor_is_spendable_again_after_a_crash"
     ELSE IF p = "C02" /\ e.total_exceeds THEN "C02:total_of_unspent_outputs_exceeds_the_schedule_after_a_crash"
     ELSE IF ~e.ledger_equal THEN pre("ledger_rebuilt_after_a_crash_differs_from_replay")
     ELSE ""
StepCrash(e) ==
  /\ buffer' = << >> /\ txnOpen' = FALSE /\ UNCHANGED << chainT, locT, outT, inT, wr, tid >>
  /\ LET c == CrashClause(e, Traces[tid].prop)
          rs == {[id |-> e.read[i].id, parent |-> e.read[i].parent, height |-> e.read[i].height, txids |-> e.read[i].txids] : i \in 1..Len(e.read)}
          rowsSame == /\ {e.rows.chain[i] : i \in 1..Len(e.rows.chain)} = Ids(chainT)
                      /\ {<< e.rows.loc[i][1], e.rows.loc[i][2] >> : i \in 1..Len(e.rows.loc)} = {<< locT[i][1], locT[i][2] >> : i \in 1..Len(locT)}
                      /\ {<< e.rows.outs[i][1], e.rows.outs[i][2] >> : i \in 1..Len(e.rows.outs)} = outT
                      /\ {<< e.rows.ins[i][1], e.rows.ins[i][2] >> : i \in 1..Len(e.rows.ins)} = inT
      IN /\ (~rowsSame => PrintT(ToJson(<< "DRIFT", Traces[tid].id, l, "rows of a flush that was killed before its COMMIT are in the tables (StoreCrash: Atomic)" >>)))
         /\ (rowsSame /\ rs # ReadSet => PrintT(ToJson(<< "DRIFT", Traces[tid].id, l, "read-back after a crash differs from Store!ReadSet" >>)))
         /\ IF c # "" THEN Out(c) /\ done' = TRUE /\ l' = l
            ELSE /\ l' = l + 1 /\ done' = (l + 1 > Len(Ev)) /\ ((l + 1 > Len(Ev)) => Out("ok"))

TInit == /\ tid \in 1..Len(Traces) /\ l = 1 /\ done = FALSE
         /\ SInit(ToB(Traces[tid].genesis))
         /\ wr = (Traces[tid].genesis.id :> ToB(Traces[tid].genesis))
TNext == ~done /\ l <= Len(Ev) /\ (IF Ev[l].op = "crash" THEN StepCrash(Ev[l]) ELSE Step(Ev[l]))
TSpec == TInit /\ [][TNext]_tv
=============================================================================
