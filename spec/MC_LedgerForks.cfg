\* C04: every history of MaxBlocks header-only blocks (each new block picks any earlier block as parent)
SPECIFICATION Spec
CONSTANTS
  Period = 1000
  Timespan = 4
  W = 1
  MaxFuture = 30
  InitialSubsidy = 8
  HalvingInterval = 2
  MaxMoney = 30
  Horizon <- NoHorizon
  RulesOff = {}
  Known <- NoKnown
  Keys = {1}
  Miners = {1}
  MaxBlocks = 6
  MaxSteps = 6
  TsDeltas = {1}
  TxLevel = 0
  HdrMuts = {}
  TxMuts = {}
  RewardDeltas = {0}
  UseNoValidation = FALSE
  EmitHist = TRUE
  GenesisTarget <- Target1
INVARIANT I_C04_Head
INVARIANT I_C04_Tips
INVARIANT I_C04_Index
INVARIANT I_C03_Replay
INVARIANT I_C02_Cumulative
INVARIANT Emit
PROPERTY A_C04_HeadOnlyUp
PROPERTY A_C03_Immutable
