------------------------------- MODULE Wallet -------------------------------
(* The wallet (skepticoin/wallet.py): spending (create_spend_transaction), the key pool              *)
(* (get_annotated_public_key / restore_annotated_public_key), dump/load and the save via a side       *)
(* file + rename (save_wallet), composed with AtomicFile's file-system model.                          *)
EXTENDS Naturals, Integers, Sequences, FiniteSets, TLC

CONSTANTS
  Outs,             \* the wallet-owned unspent outputs at the head, in the order the code visits them: Seq([ref, v])
  Amounts, Fees,    \* values tried by Spend
  MarkBeforeKnown,  \* TRUE: references are recorded as used while collecting (pinned tree, F-C14)
  KeyIds,           \* key ids in the wallet (for the key-pool part)
  MaxOps

VARIABLES used,      \* spent_transaction_outputs (set of refs)
          lastOp,    \* [amount, fee, res, ins, change]  result of the last Spend
          unused,    \* unused_public_keys (sequence; hand-out pops the last)
          annotated, \* keys with an annotation (handed out)
          handed,    \* history: keys handed out and not restored since
          saved,     \* the wallet value in wallet.json: [unused, annotated]
          nops
wvars == << used, lastOp, unused, annotated, handed, saved, nops >>

RECURSIVE Collect(_, _, _, _)
Collect(i, need, got, acc) ==      \* greedy: visit outputs in order, skip used ones, stop when enough
  IF got >= need THEN [ok |-> TRUE, ins |-> acc, got |-> got, visited |-> i - 1]
  ELSE IF i > Len(Outs) THEN [ok |-> FALSE, ins |-> acc, got |-> got, visited |-> Len(Outs)]
  ELSE IF Outs[i].ref \in used THEN Collect(i + 1, need, got, acc)
  ELSE Collect(i + 1, need, got + Outs[i].v, Append(acc, Outs[i].ref))

Available == { i \in 1..Len(Outs) : Outs[i].ref \notin used }
RECURSIVE SumAvail(_)
SumAvail(S) == IF S = {} THEN 0 ELSE LET i == CHOOSE x \in S : TRUE IN Outs[i].v + SumAvail(S \ {i})

Spend(a, f) ==
  LET c == Collect(1, a + f, 0, << >>)
      refs == { c.ins[k] : k \in 1..Len(c.ins) }
  IN /\ nops < MaxOps
     /\ IF c.ok
        THEN /\ used' = used \cup refs
             /\ lastOp' = [amount |-> a, fee |-> f, res |-> "tx", ins |-> c.ins, change |-> c.got - a - f]
        ELSE /\ used' = IF MarkBeforeKnown THEN used \cup refs ELSE used
             /\ lastOp' = [amount |-> a, fee |-> f, res |-> "insufficient", ins |-> << >>, change |-> 0]
     /\ nops' = nops + 1
     /\ UNCHANGED << unused, annotated, handed, saved >>

HandOut ==         \* get_annotated_public_key: pops the last unused key; when none is left an arbitrary key is re-used
  /\ nops < MaxOps /\ nops' = nops + 1
  /\ IF unused = << >>
     THEN \E k \in KeyIds : lastOp' = [amount |-> 0, fee |-> 0, res |-> "reused", ins |-> << k >>, change |-> 0] /\ UNCHANGED << unused, annotated, handed >>
     ELSE LET k == unused[Len(unused)] IN
          /\ unused' = SubSeq(unused, 1, Len(unused) - 1)
          /\ annotated' = annotated \cup {k}
          /\ handed' = handed \cup {k}
          /\ lastOp' = [amount |-> 0, fee |-> 0, res |-> "key", ins |-> << k >>, change |-> 0]
  /\ UNCHANGED << used, saved >>
Restore(k) ==      \* restore_annotated_public_key
  /\ nops < MaxOps /\ nops' = nops + 1 /\ k \in annotated
  /\ annotated' = annotated \ {k} /\ unused' = Append(unused, k) /\ handed' = handed \ {k}
  /\ lastOp' = [amount |-> 0, fee |-> 0, res |-> "restored", ins |-> << k >>, change |-> 0]
  /\ UNCHANGED << used, saved >>
Save ==            \* save_wallet (atomicity of the file replacement: AtomicFile.tla)
  /\ nops < MaxOps /\ nops' = nops + 1
  /\ saved' = [unused |-> unused, annotated |-> annotated]
  /\ lastOp' = [amount |-> 0, fee |-> 0, res |-> "saved", ins |-> << >>, change |-> 0]
  /\ UNCHANGED << used, unused, annotated, handed >>
Load ==            \* Wallet.load: the record of used outputs is not persisted
  /\ nops < MaxOps /\ nops' = nops + 1
  /\ unused' = saved.unused /\ annotated' = saved.annotated
  /\ handed' = saved.annotated /\ used' = {}
  /\ lastOp' = [amount |-> 0, fee |-> 0, res |-> "loaded", ins |-> << >>, change |-> 0]
  /\ UNCHANGED saved

WInit == /\ used = {} /\ lastOp = [amount |-> 0, fee |-> 0, res |-> "", ins |-> << >>, change |-> 0]
         /\ unused = [i \in 1..Cardinality(KeyIds) |-> i] /\ annotated = {} /\ handed = {}
         /\ saved = [unused |-> unused, annotated |-> annotated] /\ nops = 0
WNext == (\E a \in Amounts, f \in Fees : Spend(a, f)) \/ HandOut \/ (\E k \in KeyIds : Restore(k)) \/ Save \/ Load
WSpec == WInit /\ [][WNext]_wvars

(* C14 *)
A_C14_InsufficientChangesNothing == [][lastOp'.res = "insufficient" /\ nops' # nops => used' = used]_wvars
A_C14_InsufficientOnlyIfUnaffordable ==
   [][(nops' # nops /\ lastOp'.res = "insufficient") => SumAvail(Available) < lastOp'.amount + lastOp'.fee]_wvars
A_C14_SpendsOnlyFreshOutputs == [][(nops' # nops /\ lastOp'.res = "tx") =>
      /\ \A k \in 1..Len(lastOp'.ins) : lastOp'.ins[k] \notin used
      /\ Cardinality({lastOp'.ins[k] : k \in 1..Len(lastOp'.ins)}) = Len(lastOp'.ins)
      /\ lastOp'.change >= 0]_wvars
(* C15 (key pool) *)
A_C15_NoKeyTwice == [][(nops' # nops /\ lastOp'.res = "key") => lastOp'.ins[1] \notin handed]_wvars
A_C15_ReuseOnlyWhenExhausted == [][(nops' # nops /\ lastOp'.res = "reused") => unused = << >>]_wvars
I_C15_UnusedDisjoint == \A i \in 1..Len(unused) : unused[i] \notin annotated
=============================================================================
