-------------------------------- MODULE Echo --------------------------------
(* The block the node's own miner has found, under the node's two threads, when a neighbour sends it back:                          *)
(* "miner"  MinerWatcher.handle_scrypt_output_message (mining.py :252-266) for the found block B                                    *)
(*            M1  the request handler took the snapshot (B is built on it)                                                          *)
(*            M4  self.coinstate = self.coinstate.add_block(B, now)                                                                 *)
(*            M5  chain_manager.set_coinstate(self.coinstate)             B becomes part of the state the network thread reads      *)
(*            M6  network_manager.broadcast_block(B)                      one Data(B) frame queued for every active peer            *)
(*            M7  disk_interface.save_block(B);  M8  disk_interface.flush_blocks()                                                  *)
(* "echo"   the network thread's handle_block_received (remote_peer.py :451-510) for a Data(B) frame that a neighbour relays back    *)
(*          (possible only once B has left the node: E1 is enabled after a broadcast)                                               *)
(*            E1  coinstate_prior = chain_manager.coinstate;  B known there -> nothing else happens                                 *)
(*            E3  coinstate_prior.add_block_no_validation(B);  E5  validate_block_in_coinstate(B, coinstate_prior)  (B is valid)    *)
(*            E6  set_coinstate(changed);  E4  save_block(B);  E7  flush_blocks();  E8  broadcast_block(B)  (B is the new head)     *)
(* HandOverBeforeBroadcast = TRUE is the order of the code (M5 before M6); FALSE (M6 before M5) is the necessity run: the echo can   *)
(* then find B unknown, accept it as a new head and relay it a second time.                                                          *)
EXTENDS Naturals, Sequences
CONSTANTS HandOverBeforeBroadcast
VARIABLES served,     \* B is part of the chain state the node serves
          nb,         \* number of broadcast_block(B) calls: Data(B) frames queued per active peer
          buffered, stored, miner, echo
vars == << served, nb, buffered, stored, miner, echo >>
Init == /\ served = FALSE /\ nb = 0 /\ buffered = FALSE /\ stored = FALSE
        /\ miner = "M1" /\ echo = [pc |-> "E1", known |-> FALSE]
MGo(p) == miner' = p
M1 == miner = "M1" /\ MGo("M4") /\ UNCHANGED << served, nb, buffered, stored, echo >>
M4 == miner = "M4" /\ MGo(IF HandOverBeforeBroadcast THEN "M5" ELSE "M6") /\ UNCHANGED << served, nb, buffered, stored, echo >>
M5 == miner = "M5" /\ served' = TRUE /\ MGo(IF HandOverBeforeBroadcast THEN "M6" ELSE "M7") /\ UNCHANGED << nb, buffered, stored, echo >>
M6 == miner = "M6" /\ nb' = nb + 1 /\ MGo(IF HandOverBeforeBroadcast THEN "M7" ELSE "M5") /\ UNCHANGED << served, buffered, stored, echo >>
M7 == miner = "M7" /\ buffered' = TRUE /\ MGo("M8") /\ UNCHANGED << served, nb, stored, echo >>
M8 == miner = "M8" /\ stored' = (stored \/ buffered) /\ buffered' = FALSE /\ MGo("done") /\ UNCHANGED << served, nb, echo >>
EGo(p) == echo' = [echo EXCEPT !.pc = p]
E1 == /\ echo.pc = "E1" /\ nb >= 1                             \* a neighbour can only send back what it has been sent
      /\ echo' = [pc |-> IF served THEN "done" ELSE "E3", known |-> served]
      /\ UNCHANGED << served, nb, buffered, stored, miner >>
E3 == echo.pc = "E3" /\ EGo("E5") /\ UNCHANGED << served, nb, buffered, stored, miner >>
E5 == echo.pc = "E5" /\ EGo("E6") /\ UNCHANGED << served, nb, buffered, stored, miner >>
E6 == echo.pc = "E6" /\ served' = TRUE /\ EGo("E4") /\ UNCHANGED << nb, buffered, stored, miner >>
E4 == echo.pc = "E4" /\ buffered' = TRUE /\ EGo("E7") /\ UNCHANGED << served, nb, stored, miner >>
E7 == echo.pc = "E7" /\ stored' = (stored \/ buffered) /\ buffered' = FALSE /\ EGo("E8") /\ UNCHANGED << served, nb, miner >>
E8 == echo.pc = "E8" /\ nb' = nb + 1 /\ EGo("done") /\ UNCHANGED << served, buffered, stored, miner >>
MinerStep == M1 \/ M4 \/ M5 \/ M6 \/ M7 \/ M8
EchoStep == E1 \/ E3 \/ E5 \/ E6 \/ E4 \/ E7 \/ E8
Next == MinerStep \/ EchoStep
Spec == Init /\ [][Next]_vars
Quiet == miner = "done" /\ echo.pc = "done"
(* C10: a node relays a given block at most once *)
I_C10_RelayedAtMostOnce == nb <= 1
(* C12: the found block is served, stored and broadcast when its handling is over *)
I_C12_FoundAdoptedStoredBroadcast == (miner = "done") => (served /\ stored /\ nb >= 1)
=============================================================================
