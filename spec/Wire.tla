-------------------------------- MODULE Wire --------------------------------
(* The byte codecs of skepticoin (serialization.py, datatypes.py, signing.py,                     *)
(* networking/messages.py) as data -- one schema per type -- plus one generic decoder `Dec`        *)
(* that returns where decoding stopped and the *canonical re-encoding* of what it read.            *)
(* A byte string s is a canonical encoding of type t iff Dec(t, s, 1).enc = the bytes consumed.    *)
(*                                                                                                 *)
(* StrictVLQ = FALSE is the decoder of the pinned tree (any number of leading 0x80 octets is        *)
(* accepted); TRUE accepts exactly the encoder's form (bit_length \div 7 + 1 octets -- so 127 is    *)
(* `80 7f`; the canonical form is the *encoder's*, which real network data uses).                   *)
EXTENDS Naturals, Sequences, FiniteSets, TLC

CONSTANTS StrictVLQ,
          Scaled        \* TRUE: every fixed width is 1 byte (exhaustive checking); FALSE: the real widths

Wd(n) == IF Scaled THEN 1 ELSE n
F(n) == [k |-> "fixed", n |-> Wd(n)]
Zeros(n) == [k |-> "zeros", n |-> Wd(n)]            \* read and ignored; re-encoded as zeros (reserved space)
Any1 == [k |-> "fixed", n |-> 1]                    \* a version byte that the decoder ignores
Sub(t) == [k |-> "sub", of |-> t]
Lst(t) == [k |-> "list", of |-> t]
Cst(v) == [k |-> "const", v |-> v]
VLQ == [k |-> "vlq"]
LP1 == [k |-> "lp1"]                                \* one length byte, then that many bytes
Tagged(w, alts) == [k |-> "tagged", w |-> w, alts |-> alts]   \* w tag bytes (big-endian value) select the alternative

Schema ==
  [ OutputReference |-> << F(32), F(4) >>,
    SigBlank        |-> << >>,
    SigCoinbase     |-> << F(4), LP1 >>,
    SigSecp         |-> << F(64) >>,
    Signature       |-> << Tagged(1, (0 :> "SigBlank") @@ (1 :> "SigCoinbase") @@ (2 :> "SigSecp")) >>,
    KeySecp         |-> << F(64) >>,
    PublicKey       |-> << Tagged(1, (2 :> "KeySecp")) >>,
    Input           |-> << Sub("OutputReference"), Sub("Signature") >>,
    Output          |-> << F(8), Sub("PublicKey") >>,
    Transaction     |-> << Cst(0), Lst("Input"), Lst("Output") >>,
    BlockSummary    |-> << VLQ, F(32), F(32), F(4), F(32), F(4) >>,
    PowEvidence     |-> << F(32), F(32), F(32) >>,
    BlockHeader     |-> << Cst(0), Sub("BlockSummary"), Sub("PowEvidence") >>,
    Block           |-> << Sub("BlockHeader"), Lst("Transaction") >>,
    \* ---- wire messages (a frame body = MessageHeader, then Message)
    MessageHeader   |-> << Any1, F(4), F(4), F(4), F(8), Zeros(32) >>,
    SupportedVersion|-> << F(1) >>,
    Hash32          |-> << F(32) >>,
    InventoryItem   |-> << F(2), F(32) >>,
    Peer            |-> << F(4), F(16), F(2) >>,
    Hello           |-> << Any1, F(16), F(2), F(16), F(2), F(4), LP1, Lst("SupportedVersion"), Zeros(256) >>,
    GetBlocks       |-> << Cst(0), Lst("Hash32"), F(32) >>,
    Inventory       |-> << Cst(0), Lst("InventoryItem") >>,
    GetData         |-> << Cst(0), F(2), F(32) >>,
    Data            |-> << Cst(0), Tagged(2, (0 :> "Block") @@ (1 :> "BlockHeader") @@ (2 :> "Transaction")) >>,
    GetPeers        |-> << Cst(0) >>,
    Peers           |-> << Cst(0), Lst("Peer") >>,
    Message         |-> << Tagged(2, (0 :> "Hello") @@ (1 :> "GetBlocks") @@ (2 :> "Inventory") @@ (3 :> "GetData")
                                     @@ (4 :> "Data") @@ (5 :> "GetPeers") @@ (6 :> "Peers")) >>,
    Frame           |-> << Sub("MessageHeader"), Sub("Message") >>,
    VlqOnly         |-> << VLQ >> ]

ConsensusTypes == {"OutputReference", "Signature", "PublicKey", "Input", "Output", "Transaction",
                   "BlockSummary", "PowEvidence", "BlockHeader", "Block"}

Err == [ok |-> FALSE, p |-> 0, enc |-> << >>]
Ok(p, enc) == [ok |-> TRUE, p |-> p, enc |-> enc]

(* variable-length quantity: most significant group first, high bit = "another octet follows"       *)
RECURSIVE BitLen(_)
BitLen(v) == IF v = 0 THEN 0 ELSE 1 + BitLen(v \div 2)
RECURSIVE VlqDec(_, _, _, _)
VlqDec(b, p, acc, n) ==       \* [ok, p, v, n]; the model covers values < 2^28 (any number of leading 0x80 octets)
  IF p > Len(b) \/ acc >= 268435456 THEN [ok |-> FALSE, p |-> p, v |-> 0, n |-> n]
  ELSE LET x == b[p] IN
       IF x < 128 THEN [ok |-> TRUE, p |-> p + 1, v |-> acc + x, n |-> n + 1]
       ELSE IF acc + (x - 128) >= 2097152 THEN [ok |-> FALSE, p |-> p, v |-> 0, n |-> n]
       ELSE VlqDec(b, p + 1, (acc + (x - 128)) * 128, n + 1)
RECURSIVE Pow128(_)
Pow128(j) == IF j = 0 THEN 1 ELSE 128 * Pow128(j - 1)
VlqLen(v) == BitLen(v) \div 7 + 1                  \* the encoder's choice (stream_serialize_vlq)
VlqEnc(v) == [i \in 1..VlqLen(v) |-> LET j == VlqLen(v) - i IN ((v \div Pow128(j)) % 128) + (IF j > 0 THEN 128 ELSE 0)]
VlqRead(b, p) == LET r == VlqDec(b, p, 0, 0)
                 IN IF ~r.ok \/ (StrictVLQ /\ r.n # VlqLen(r.v)) THEN [ok |-> FALSE, p |-> p, v |-> 0] ELSE [ok |-> TRUE, p |-> r.p, v |-> r.v]

RECURSIVE BEVal(_, _, _, _)
BEVal(b, p, w, acc) == IF w = 0 THEN acc ELSE BEVal(b, p + 1, w - 1, acc * 256 + b[p])

RECURSIVE Dec(_, _, _), DecFields(_, _, _, _, _), DecList(_, _, _, _, _)
DecFields(fs, i, b, p, enc) ==
  IF i > Len(fs) THEN Ok(p, enc)
  ELSE LET f == fs[i] IN
   CASE f.k = "fixed" -> IF p + f.n - 1 > Len(b) THEN Err
                         ELSE DecFields(fs, i + 1, b, p + f.n, enc \o SubSeq(b, p, p + f.n - 1))
     [] f.k = "zeros" -> IF p + f.n - 1 > Len(b) THEN Err
                         ELSE DecFields(fs, i + 1, b, p + f.n, enc \o [j \in 1..f.n |-> 0])
     [] f.k = "const" -> IF p > Len(b) \/ b[p] # f.v THEN Err ELSE DecFields(fs, i + 1, b, p + 1, Append(enc, f.v))
     [] f.k = "lp1"   -> IF p > Len(b) \/ p + b[p] > Len(b) THEN Err
                         ELSE DecFields(fs, i + 1, b, p + 1 + b[p], enc \o SubSeq(b, p, p + b[p]))
     [] f.k = "vlq"   -> LET r == VlqRead(b, p) IN
                         IF ~r.ok THEN Err ELSE DecFields(fs, i + 1, b, r.p, enc \o VlqEnc(r.v))
     [] f.k = "sub"   -> LET r == Dec(f.of, b, p) IN
                         IF ~r.ok THEN Err ELSE DecFields(fs, i + 1, b, r.p, enc \o r.enc)
     [] f.k = "tagged" -> IF p + f.w - 1 > Len(b) THEN Err
                          ELSE LET tag == BEVal(b, p, f.w, 0) IN
                               IF tag \notin DOMAIN f.alts THEN Err
                               ELSE LET r == Dec(f.alts[tag], b, p + f.w) IN
                                    IF ~r.ok THEN Err
                                    ELSE DecFields(fs, i + 1, b, r.p, enc \o SubSeq(b, p, p + f.w - 1) \o r.enc)
     [] f.k = "list"  -> LET c == VlqRead(b, p) IN
                         IF ~c.ok THEN Err
                         ELSE LET r == DecList(f.of, c.v, b, c.p, enc \o VlqEnc(c.v)) IN
                              IF ~r.ok THEN Err ELSE DecFields(fs, i + 1, b, r.p, r.enc)
DecList(t, k, b, p, enc) ==
  IF k = 0 THEN Ok(p, enc)
  ELSE IF p > Len(b) THEN Err           \* every element consumes at least one byte
  ELSE LET r == Dec(t, b, p) IN IF ~r.ok THEN Err ELSE DecList(t, k - 1, b, r.p, enc \o r.enc)
Dec(t, b, p) == DecFields(Schema[t], 1, b, p, << >>)

Decodes(t, b) == Dec(t, b, 1).ok
Consumed(t, b) == Dec(t, b, 1).p - 1
Canonical(t, b) == LET r == Dec(t, b, 1) IN r.ok /\ r.enc = SubSeq(b, 1, r.p - 1)
=============================================================================
