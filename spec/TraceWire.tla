----------------------------- MODULE TraceWire -----------------------------
(* Observed calls of the real encoders/decoders.  P (C07): values survive encode/decode; whatever   *)
(* decodes as a consensus type re-encodes to the consumed bytes; ids are the double SHA-256 of the   *)
(* canonical encoding (facts established by the harness with hashlib on the independent encoding).   *)
(* M: Wire!Dec on the same bytes predicts decodes / consumed length / canonical.                     *)
EXTENDS Wire, Json, IOUtils, TLCExt
Events == JsonDeserialize(IOEnv.TRACE_FILE)
VARIABLES l, done
tv == << l, done >>
IsConsensus(t) == t \in ConsensusTypes \cup {"VlqOnly"}
(* C18 (kind "netfmt"): bytes the code produced for a header at a height of the real network must be the network's wire format,  *)
(* i.e. what Wire's decoder (strict: the encoder's VLQ form) reads back as its own canonical encoding.                           *)
NetFmt(e) == LET r == Dec(e.t, e.b, 1) IN r.ok /\ r.p - 1 = Len(e.b) /\ r.enc = e.b
P(e) ==
  IF e.kind = "netfmt" THEN (IF NetFmt(e) /\ e.dec /\ e.reenc_equal THEN "" ELSE "C18:header_encoding_at_a_real_network_height_is_not_the_wire_format_of_the_network")
  ELSE IF e.kind = "value" /\ ~e.dec THEN "C07:encoding_of_a_value_does_not_decode"
  ELSE IF e.kind = "value" /\ ~e.roundtrip THEN "C07:value_changed_by_encode_then_decode"
  ELSE IF e.dec /\ IsConsensus(e.t) /\ ~e.reenc_equal THEN "C07:decoded_bytes_are_not_the_single_canonical_encoding"
  ELSE IF e.dec /\ IsConsensus(e.t) /\ ~e.same_enc THEN "C07:same_value_accepted_under_two_encodings"
  ELSE IF e.dec /\ ~e.id_equal THEN "C07:id_is_not_double_sha256_of_canonical_encoding"
  ELSE ""
M(e) ==
  LET r == Dec(e.t, e.b, 1)
  IN IF e.kind = "netfmt" THEN ""
     ELSE IF r.ok # e.dec THEN "decodability differs from Wire!Dec"
     ELSE IF r.ok /\ r.p - 1 # e.consumed THEN "consumed length differs from Wire!Dec"
     ELSE IF r.ok /\ IsConsensus(e.t) /\ (r.enc = SubSeq(e.b, 1, r.p - 1)) # e.reenc_equal THEN "canonicality differs from Wire!Dec"
     ELSE ""
TInit == l = 1 /\ done = FALSE
TNext == /\ ~done /\ l <= Len(Events)
         /\ LET e == Events[l]
                c == P(e)
            IN /\ (c # "" => PrintT(ToJson(<< "FINDING", l, c >>)))          \* every violating call is reported
               /\ (LET m == M(e) IN m # "" => PrintT(ToJson(<< "DRIFT", l, m >>)))
               /\ l' = l + 1 /\ done' = (l + 1 > Len(Events))
               /\ (l + 1 > Len(Events)) => PrintT(ToJson(<< "VERDICT", 1, "ok", l >>))
TSpec == TInit /\ [][TNext]_tv
=============================================================================
