\* C01/C02/C03: exhaustive, structured candidates (valid shapes + single mutations) on any stored parent.
\* hist is hidden by the VIEW: a rejected candidate is a self-loop.
SPECIFICATION Spec
CONSTANTS
  Period = 1000
  Timespan = 4
  W = 1
  MaxFuture = 30
  InitialSubsidy = 8
  HalvingInterval = 2
  MaxMoney = 30
  Horizon <- NoHorizon
  RulesOff = {}
  Known <- NoKnown
  Keys = {1, 2}
  Miners = {1}
  MaxBlocks = 2
  MaxSteps = 99
  TsDeltas = {1}
  TxLevel = 2
  HdrMuts = {}
  TxMuts = {"ghost", "spent", "otherfork", "nullref", "sameblock", "dupin", "wrongkey", "sig_outs", "blank", "cbdata", "overspend", "zeroout", "overmax", "noouts", "noins", "duptx", "dupref2"}
  RewardDeltas <- RD2
  UseNoValidation = FALSE
  EmitHist = FALSE
  GenesisTarget <- Target1
VIEW View
INVARIANT I_C01
INVARIANT I_C02
INVARIANT I_C02_Cumulative
INVARIANT I_C03_Replay
INVARIANT I_C03_Snapshot
INVARIANT I_C04_Head
INVARIANT I_C04_Tips
INVARIANT I_C04_Index
INVARIANT I_C05
INVARIANT I_C06_TamperRejected
PROPERTY A_C04_HeadOnlyUp
PROPERTY A_C03_Immutable
