--------------------------- MODULE TraceRetarget ---------------------------
(* The retargeting rule with the real constants (period 10,080 blocks, 1,209,600 s, 32-byte targets, cap 2^256 - 1), evaluated by TLC  *)
(* with BigNat on observations of the real validator and the real block assembly at real period boundaries:                            *)
(*   event = [kind, boundary, prev (32 digits), elapsed, stated (32 digits), accepted]                                                 *)
(* kind "validate": a candidate block whose only questionable field is the stated target was offered to full validation;              *)
(* kind "assemble": the node's own block assembly produced a candidate with this target.                                               *)
(* P (C05): accepted => stated = prescribed; an assembled candidate states the prescribed target.                                      *)
EXTENDS BigNat, Naturals, Sequences, Json, IOUtils, TLC, TLCExt
CONSTANTS Timespan, W
Events == JsonDeserialize(IOEnv.TRACE_FILE)
VARIABLES l, done
tv == << l, done >>
Prescribed(e) == IF e.boundary THEN ScaleCapped(e.prev, Nat4(e.elapsed), Timespan, W) ELSE e.prev
Clause(e) ==
  IF e.kind = "validate" /\ e.accepted /\ e.stated # Prescribed(e) THEN "C05:accepted_target_is_not_the_one_the_retargeting_rule_prescribes"
  ELSE IF e.kind = "assemble" /\ e.stated # Prescribed(e) THEN "C05:assembled_block_target_not_as_prescribed"
  ELSE ""
TInit == l = 1 /\ done = FALSE
TNext == /\ ~done /\ l <= Len(Events)
         /\ LET c == Clause(Events[l]) IN
            /\ (c # "" => PrintT(ToJson(<< "FINDING", l, c >>)))
            /\ (Events[l].kind = "validate" /\ ~Events[l].accepted /\ Events[l].stated = Prescribed(Events[l]) /\ Events[l].pure
                  => PrintT(ToJson(<< "DRIFT", l, "a candidate stating the prescribed target (and otherwise valid) was rejected" >>)))
            /\ l' = l + 1 /\ done' = (l + 1 > Len(Events))
            /\ ((l + 1 > Len(Events)) => PrintT(ToJson(<< "VERDICT", 1, "ok", l >>)))
TSpec == TInit /\ [][TNext]_tv
=============================================================================
