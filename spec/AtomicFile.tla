----------------------------- MODULE AtomicFile -----------------------------
(* A file system as far as "replace a file atomically" needs it: paths hold a version tag and a     *)
(* byte count; a process may crash between any two system calls (only what reached the kernel       *)
(* survives -- user-space buffers are lost).  Used for wallet.json (save_wallet) and peers.json      *)
(* (write_peers).  POSIX rename atomicity is assumed; power loss (no fsync) is out of scope.         *)
EXTENDS Naturals, Sequences, FiniteSets, TLC

CONSTANTS Target,       \* the file that must always be complete, e.g. "wallet.json"
          NewSize       \* size of the complete new content

VARIABLES fs,           \* path -> [ver, n]   ver \in {"old", "new", "mixed"}; absent paths are not in the domain
          fd            \* descriptor -> [path, trunc]
afvars == << fs, fd >>

Complete(p) == p \in DOMAIN fs /\ (fs[p].ver = "old" \/ (fs[p].ver = "new" /\ fs[p].n = NewSize))
I_TargetAlwaysComplete == Complete(Target)

Open(d, p, trunc) ==
  /\ fd' = (d :> [path |-> p]) @@ fd
  /\ fs' = IF trunc \/ p \notin DOMAIN fs THEN (p :> [ver |-> "new", n |-> 0]) @@ fs ELSE fs
Write(d, k) ==
  /\ d \in DOMAIN fd
  /\ LET p == fd[d].path IN
     fs' = [fs EXCEPT ![p] = IF @.ver = "old" THEN [ver |-> "mixed", n |-> k] ELSE [ver |-> @.ver, n |-> @.n + k]]
  /\ UNCHANGED fd
Close(d) == /\ fd' = [x \in (DOMAIN fd) \ {d} |-> fd[x]] /\ UNCHANGED fs
Rename(a, b) == /\ a \in DOMAIN fs
                /\ fs' = [p \in ((DOMAIN fs) \ {a}) \cup {b} |-> IF p = b THEN fs[a] ELSE fs[p]]
                /\ UNCHANGED fd
Unlink(p) == /\ fs' = [q \in (DOMAIN fs) \ {p} |-> fs[q]] /\ UNCHANGED fd

AFInit == fs = (Target :> [ver |-> "old", n |-> 1]) /\ fd = [x \in {} |-> 0]
=============================================================================
