---------------------------- MODULE MC_AtomicFile ----------------------------
(* The save procedure as a process: open the side file (truncating), write the content in any       *)
(* number of chunks, close, rename over the target.  Every state is a possible crash point, so the   *)
(* invariant "the target is the complete old or the complete new content" is evaluated everywhere.   *)
(* InPlace = TRUE is the necessity run (writing the target directly must violate it), and            *)
(* RenameBeforeClose checks that the order of close and rename does not matter for process crashes   *)
(* only if everything was written before.                                                            *)
(* A crash (the process dies: descriptors are gone, the files stay as they are) may be followed by a restart, which runs the program's   *)
(* start-up path and then possibly another save.  The start-up path of the tree only reads the target; PromoteSide = TRUE is the         *)
(* tempting "recovery" that moves a left-over side file over the target (necessity run: the side file of an interrupted save is a        *)
(* truncated prefix).                                                                                                                     *)
EXTENDS AtomicFile
CONSTANTS Side, InPlace, RenameEarly, PromoteSide
VARIABLES pc, left
mv == << fs, fd, pc, left >>
Init == AFInit /\ pc = "start" /\ left = NewSize
Path == IF InPlace THEN Target ELSE Side
Crash == /\ pc \in {"start", "writing", "writing_renamed", "closed"} /\ pc' = "crashed"
         /\ fd' = [x \in {} |-> 0] /\ UNCHANGED << fs, left >>
Restart == /\ pc = "crashed" /\ pc' = "restarted" /\ UNCHANGED << fd, left >>
           /\ IF PromoteSide /\ Side \in DOMAIN fs /\ ~InPlace THEN Rename(Side, Target) /\ UNCHANGED fd ELSE UNCHANGED fs
SaveAgain == /\ pc = "restarted" /\ Complete(Target) /\ pc' = "start" /\ left' = NewSize /\ UNCHANGED << fs, fd >>
Next ==
  \/ Crash \/ Restart \/ SaveAgain
  \/ pc = "start" /\ Open(3, Path, TRUE) /\ pc' = "writing" /\ UNCHANGED left
  \/ pc = "writing" /\ left > 0 /\ (\E k \in 1..left : Write(3, k) /\ left' = left - k) /\ UNCHANGED pc
  \/ pc = "writing" /\ RenameEarly /\ ~InPlace /\ Rename(Side, Target) /\ pc' = "writing_renamed" /\ UNCHANGED left
  \/ pc = "writing" /\ left = 0 /\ Close(3) /\ pc' = "closed" /\ UNCHANGED left
  \/ pc = "closed" /\ ~InPlace /\ Rename(Side, Target) /\ pc' = "done" /\ UNCHANGED left
Spec == Init /\ [][Next]_mv
I_C15_Atomic == I_TargetAlwaysComplete
I_DoneIsNew == pc = "done" => (fs[Target].ver = "new" /\ fs[Target].n = NewSize)
=============================================================================
