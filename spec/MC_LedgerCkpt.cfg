\* C05 (rule level): header-only chains crossing retarget boundaries (Period 3, Timespan 4) on both
\* sides of forks; every header mutation on every stored parent; hist hidden by the VIEW.
SPECIFICATION Spec
CONSTANTS
  Period = 1000
  Timespan = 4
  W = 1
  MaxFuture = 30
  InitialSubsidy = 8
  HalvingInterval = 2
  MaxMoney = 30
  Horizon = 4
  RulesOff = {}
  Known <- Known3
  Keys = {1}
  Miners = {1}
  MaxBlocks = 3
  MaxSteps = 99
  TsDeltas = {1}
  TxLevel = 0
  HdrMuts = {"badtarget", "height_plus", "ts_equal", "badpow"}
  TxMuts = {}
  RewardDeltas <- RD2
  UseNoValidation = FALSE
  EmitHist = FALSE
  GenesisTarget <- Target1
VIEW View
INVARIANT I_C03_Replay
INVARIANT I_C04_Tips
INVARIANT I_C18
