-------------------------- MODULE TraceActivePeers --------------------------
(* Outcomes of the preemption-point exploration of the miner's found-block handling against a peer connecting / disconnecting on the  *)
(* network thread (real node, real store): P (C12) -- the handling does not raise, the block is in the store, and every peer that was  *)
(* active before and stayed connected got it exactly once.                                                                             *)
EXTENDS Naturals, Sequences, Json, IOUtils, TLC, TLCExt
Traces == JsonDeserialize(IOEnv.TRACE_FILE)
VARIABLES tid, done
TInit == tid \in 1..Len(Traces) /\ done = FALSE
Clause(t) == IF t.raised # "" THEN "C12:found_block_handling_raises_when_a_peer_connects_or_disconnects_meanwhile"
             ELSE IF ~t.stored THEN "C12:found_block_not_written_to_store"
             ELSE IF ~t.served THEN "C12:found_block_not_in_served_chain_state"
             ELSE IF \E i \in 1..Len(t.stayers_got) : t.stayers_got[i] # 1 THEN "C12:found_block_not_broadcast_exactly_once"
             ELSE "ok"
TNext == /\ ~done /\ done' = TRUE /\ UNCHANGED tid
         /\ PrintT(ToJson(<< "VERDICT", Traces[tid].id, Clause(Traces[tid]), 1 >>))
TSpec == TInit /\ [][TNext]_<< tid, done >>
=============================================================================
