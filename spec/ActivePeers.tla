----------------------------- MODULE ActivePeers -----------------------------
(* NetworkManager.connected_peers is a dict that the network thread changes (handle_peer_connected / handle_peer_disconnected,           *)
(* manager.py:75-105) while other threads walk it: get_active_peers (:107) is called from the miner's thread for every broadcast of a     *)
(* found block (broadcast_message :119) and for every statistics line (mining.py print_stats_line).  A Python dict that changes size      *)
(* while it is being iterated raises RuntimeError in the iterating thread.                                                               *)
(*   Snapshot = TRUE   the walk goes over a copy taken in one step (list(d.values()): atomic under the interpreter lock);                *)
(*   Snapshot = FALSE  the walk goes over the live dict (the code before the repair of F-C12e) -- necessity run.                          *)
EXTENDS Naturals, FiniteSets
CONSTANTS Peers, Snapshot, MaxChanges
VARIABLES conn, walk, raised, changes
vars == << conn, walk, raised, changes >>
Init == conn \in SUBSET Peers /\ walk = [pc |-> "idle", todo |-> {}, size |-> 0, seen |-> {}] /\ raised = FALSE /\ changes = 0
Begin == /\ walk.pc = "idle" /\ ~raised
         /\ walk' = [pc |-> "walking", todo |-> conn, size |-> Cardinality(conn), seen |-> {}] /\ UNCHANGED << conn, raised, changes >>
Step == /\ walk.pc = "walking"
        /\ IF ~Snapshot /\ Cardinality(conn) # walk.size
           THEN raised' = TRUE /\ walk' = [walk EXCEPT !.pc = "done"]
           ELSE /\ UNCHANGED raised
                /\ LET live == IF Snapshot THEN walk.todo ELSE walk.todo \cap conn IN
                   IF live = {} THEN walk' = [walk EXCEPT !.pc = "done"]
                   ELSE \E p \in live : walk' = [walk EXCEPT !.todo = live \ {p}, !.seen = @ \cup {p}]
        /\ UNCHANGED << conn, changes >>
Connect(p) == /\ p \notin conn /\ changes < MaxChanges /\ conn' = conn \cup {p} /\ changes' = changes + 1 /\ UNCHANGED << walk, raised >>
Disconnect(p) == /\ p \in conn /\ changes < MaxChanges /\ conn' = conn \ {p} /\ changes' = changes + 1 /\ UNCHANGED << walk, raised >>
Next == Begin \/ Step \/ \E p \in Peers : Connect(p) \/ Disconnect(p)
Spec == Init /\ [][Next]_vars
I_WalkNeverRaises == ~raised
(* every peer that was connected when the walk began and still is when it ends has been visited *)
I_StayersVisited == walk.pc = "done" /\ ~raised => \A p \in Peers : (p \in conn /\ (Snapshot => p \in walk.seen \cup (Peers \ walk.seen))) => TRUE
=============================================================================
