----------------------------- MODULE StoreCrash -----------------------------
(* One flush of the block store's write buffer (blockstore.py write_blocks_to_disk :105) as the SQL statements it issues, one     *)
(* action per statement execution (executemany steps its statement once per row), with the process killed at any point and the   *)
(* node restarted on whatever the file then holds:                                                                                *)
(*     BEGIN TRANSACTION                                                                                                          *)
(*     insert or ignore into chain               one row per block                                                                *)
(*     insert or ignore into transaction_locator one row per transaction                                                          *)
(*     insert or ignore into transaction_outputs one row per output                                                               *)
(*     insert or ignore into transaction_inputs  one row per input                                                                *)
(*     COMMIT                                                                                                                     *)
(* Atomic = TRUE   the rows are part of one SQL transaction: they become durable at COMMIT, a crash before it leaves none of them *)
(*                 (the code as it is: an explicit BEGIN on a connection in the sqlite3 module's default, deferred mode);         *)
(* Atomic = FALSE  every row is durable as soon as its statement has run (autocommit: isolation_level=None without an explicit    *)
(*                 BEGIN, a commit per statement, a `with connection:` block on an autocommit connection ...): the necessity run. *)
(* read_blocks_from_disk (:187) returns a block when its chain row and at least one of its locator rows exist, with whatever      *)
(* output and input rows its located transactions have.                                                                           *)
EXTENDS Naturals, Sequences, FiniteSets
CONSTANTS Blocks,        \* the write buffer: Seq([id, txs : Seq([id, nouts, nins])])
          Atomic
VARIABLES durable, pending, pc, i
vars == << durable, pending, pc, i >>

RECURSIVE Cat(_, _)
Cat(ss, k) == IF k > Len(ss) THEN << >> ELSE ss[k] \o Cat(ss, k + 1)
TxsOf(b) == [k \in 1..Len(b.txs) |-> << b.txs[k], b.id >>]
AllTx == Cat([k \in 1..Len(Blocks) |-> TxsOf(Blocks[k])], 1)
ChainRows == [k \in 1..Len(Blocks) |-> << "chain", Blocks[k].id, 0 >>]
LocRows == [k \in 1..Len(AllTx) |-> << "loc", AllTx[k][1].id, AllTx[k][2] >>]
OutRows == Cat([k \in 1..Len(AllTx) |-> [s \in 1..AllTx[k][1].nouts |-> << "out", AllTx[k][1].id, s >>]], 1)
InRows == Cat([k \in 1..Len(AllTx) |-> [s \in 1..AllTx[k][1].nins |-> << "in", AllTx[k][1].id, s >>]], 1)
Stmts == ChainRows \o LocRows \o OutRows \o InRows            \* in the order write_blocks_to_disk executes them

Init == durable = {} /\ pending = {} /\ pc = "begin" /\ i = 1
Begin == pc = "begin" /\ pc' = "rows" /\ UNCHANGED << durable, pending, i >>
Insert == /\ pc = "rows" /\ i <= Len(Stmts) /\ i' = i + 1 /\ UNCHANGED pc
          /\ IF Atomic THEN pending' = pending \cup {Stmts[i]} /\ UNCHANGED durable
                       ELSE durable' = durable \cup {Stmts[i]} /\ UNCHANGED pending
Commit == /\ pc = "rows" /\ i > Len(Stmts) /\ durable' = durable \cup pending /\ pending' = {} /\ pc' = "done" /\ UNCHANGED i
Crash == /\ pc \in {"begin", "rows"} /\ pending' = {} /\ pc' = "restarted" /\ UNCHANGED << durable, i >>     \* kill -9, power loss
Next == Begin \/ Insert \/ Commit \/ Crash
Spec == Init /\ [][Next]_vars

RowsOfBlock(b) == {<< "chain", b.id, 0 >>} \cup {<< "loc", b.txs[k].id, b.id >> : k \in 1..Len(b.txs)}
                  \cup UNION {{<< "out", b.txs[k].id, s >> : s \in 1..b.txs[k].nouts} : k \in 1..Len(b.txs)}
                  \cup UNION {{<< "in", b.txs[k].id, s >> : s \in 1..b.txs[k].nins} : k \in 1..Len(b.txs)}
BlockSet == {Blocks[k] : k \in 1..Len(Blocks)}
Returned(d) == {b \in BlockSet : << "chain", b.id, 0 >> \in d /\ \E k \in 1..Len(b.txs) : << "loc", b.txs[k].id, b.id >> \in d}
(* what a restarted node reads back is made of complete blocks only: a block that is returned has every one of its rows *)
I_ReadBackIsWholeBlocks == (pc \in {"restarted", "done"}) => \A b \in Returned(durable) : RowsOfBlock(b) \subseteq durable
(* all or nothing *)
I_AllOrNothing == (pc = "restarted") => (durable = {} \/ durable = UNION {RowsOfBlock(b) : b \in BlockSet})
I_DoneMeansAll == (pc = "done") => durable = UNION {RowsOfBlock(b) : b \in BlockSet}
=============================================================================
