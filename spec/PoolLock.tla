------------------------------ MODULE PoolLock ------------------------------
(* ChainManager's lock around the pending pool (manager.py:197 set_coinstate, :205 add_transaction_to_pool): a transaction T that is     *)
(* valid at the old head is being admitted by one thread while another thread replaces the chain state by one whose head spends T's     *)
(* input (the miner found a block, or the network thread adopted one).                                                                   *)
(*   AddTx:    [acquire]  validate T at the current head   [acquire]  no shared references with the pool ; append   release              *)
(*   SetState: acquire ; coinstate := new ; pool := transactions still valid at the new head ; release                                   *)
(* LockScope = "whole"   the code: the lock is taken before the validation;                                                             *)
(* LockScope = "append"  the tempting narrowing ("do not keep the miner waiting during slow signature checks"): validation against a    *)
(*                       snapshot outside the lock, lock only around the append -- necessity run.                                       *)
EXTENDS Naturals, FiniteSets
CONSTANTS LockScope
VARIABLES head, pool, lock, a, b
vars == << head, pool, lock, a, b >>
T == "T"
ValidAt(h) == h = "old"          \* T's input is unspent at the old head and spent at the new one
Init == head = "old" /\ pool = {} /\ lock = "none" /\ a = [pc |-> "start", ok |-> FALSE] /\ b = "start"

A_Acquire == /\ a.pc = "start" /\ LockScope = "whole" /\ lock = "none" /\ lock' = "a" /\ a' = [a EXCEPT !.pc = "validate"] /\ UNCHANGED << head, pool, b >>
A_Skip    == /\ a.pc = "start" /\ LockScope = "append" /\ a' = [a EXCEPT !.pc = "validate"] /\ UNCHANGED << head, pool, lock, b >>
A_Validate == /\ a.pc = "validate" /\ a' = [pc |-> IF LockScope = "whole" THEN "append" ELSE "acquire2", ok |-> ValidAt(head)]
              /\ UNCHANGED << head, pool, lock, b >>
A_Acquire2 == /\ a.pc = "acquire2" /\ lock = "none" /\ lock' = "a" /\ a' = [a EXCEPT !.pc = "append"] /\ UNCHANGED << head, pool, b >>
A_Append == /\ a.pc = "append" /\ pool' = (IF a.ok THEN pool \cup {T} ELSE pool) /\ a' = [a EXCEPT !.pc = "release"] /\ UNCHANGED << head, lock, b >>
A_Release == /\ a.pc = "release" /\ lock' = "none" /\ a' = [a EXCEPT !.pc = "done"] /\ UNCHANGED << head, pool, b >>
B_Acquire == /\ b = "start" /\ lock = "none" /\ lock' = "b" /\ b' = "set" /\ UNCHANGED << head, pool, a >>
B_Set == /\ b = "set" /\ head' = "new" /\ pool' = {t \in pool : ValidAt("new")} /\ b' = "release" /\ UNCHANGED << lock, a >>
B_Release == /\ b = "release" /\ lock' = "none" /\ b' = "done" /\ UNCHANGED << head, pool, a >>
Next == A_Acquire \/ A_Skip \/ A_Validate \/ A_Acquire2 \/ A_Append \/ A_Release \/ B_Acquire \/ B_Set \/ B_Release
Spec == Init /\ [][Next]_vars
(* C13: whenever nobody is inside a critical section, every pending transaction is valid at the current head *)
I_C13_PoolValidAtHead == lock = "none" => \A t \in pool : ValidAt(head)
=============================================================================
