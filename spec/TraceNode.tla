----------------------------- MODULE TraceNode -----------------------------
(* Trace validation for Node.tla: every delivery of a block / transaction data message to a real    *)
(* LocalPeer (production entry point, real store attached) and every miner request / found block    *)
(* is one event carrying the projected post-state.  TLC keeps its own node state and judges:        *)
(*   P (VERDICT/FINDING): the clauses of C09, C12, C13 exactly as worded;                            *)
(*   M (DRIFT): the post-state predicted by Node!DeliverBlock / DeliverTx / MinerFound.              *)
EXTENDS Node, Json, IOUtils, TLCExt

CONSTANTS Focus
Traces == JsonDeserialize(IOEnv.TRACE_FILE)
VARIABLES tid, l, done, txd, unval,    \* txd: observed transactions by id; unval: blocks applied without validation (bulk download)
          arr, arrOrd                  \* the tree of blocks that ARRIVED (parents before children), whatever the node did with them: used for
                                       \* C04 on runs in which every offered block is fully valid by construction (trace field all_valid)
tv == << blocks, order, utxo, byHeight, tips, head, lastValid, pool, chainT, locT, outT, inT, buffer, txnOpen,
         outbox, active, miner, tid, l, done, txd, unval, arr, arrOrd >>
AllValid == "all_valid" \in DOMAIN Traces[tid] /\ Traces[tid].all_valid
Ev == Traces[tid].events
ToBlk(jb) == [id |-> jb.id, parent |-> jb.parent, height |-> jb.height, ts |-> jb.ts,
              target |-> jb.target, powok |-> Less(jb.idb, jb.target),
              evok |-> jb.evok, merkleok |-> jb.merkleok, sizeok |-> jb.sizeok, txs |-> jb.txs]
Out(c) == PrintT(ToJson(<< "VERDICT", Traces[tid].id, c, l >>))
Finding(c) == PrintT(ToJson(<< "FINDING", Traces[tid].id, l, c >>))
DriftIf(cond, what) == cond => PrintT(ToJson(<< "DRIFT", Traces[tid].id, l, what >>))

SetOf(s) == {s[i] : i \in 1..Len(s)}
RowIds(p) == {p.rows[i][1] : i \in 1..Len(p.rows)}
MsgsTo(p, q) == IF q \in DOMAIN p.out THEN p.out[q] ELSE << >>
BlockMsgs(p, q, id) == Cardinality({i \in 1..Len(MsgsTo(p, q)) : MsgsTo(p, q)[i][1] = "block" /\ MsgsTo(p, q)[i][2] = id})
TxMsgs(p, q, id) == Cardinality({i \in 1..Len(MsgsTo(p, q)) : MsgsTo(p, q)[i][1] = "tx" /\ MsgsTo(p, q)[i][2] = id})
PoolIds(pl) == [k \in 1..Len(pl) |-> pl[k].id]

(* every pool entry reported by id must be a transaction whose content was observed *)
PoolKnown(p) == \A i \in 1..Len(p.pool) : p.pool[i] \in DOMAIN txd'
PoolOf(p) == [i \in 1..Len(p.pool) |-> txd'[p.pool[i]]]

(* ---- C13, evaluated on the spec's own ledger at the reported head ---- *)
C13Clause(p, prePool, headChanged) ==
  IF "C13" \notin Focus THEN ""
  ELSE IF ~PoolKnown(p) THEN "C13:pool_holds_a_transaction_never_submitted"
  ELSE IF p.head \notin DOMAIN utxo' THEN "inconclusive"
  ELSE LET u == utxo'[p.head]
           pl == PoolOf(p)
       IN IF \E k \in 1..Len(pl) : TxByItself(pl[k]) # "" \/ TxInState(u, pl[k]) # "" THEN "C13:pending_transaction_not_valid_at_head"
          ELSE IF ~NoDup(PoolRefs(pl)) THEN "C13:two_pending_transactions_spend_the_same_output"
          ELSE IF headChanged /\ p.pool # PoolIds(SelectSeq(prePool, LAMBDA t : TxInState(u, t) = ""))
               THEN "C13:pool_after_head_change_is_not_the_still_valid_transactions_in_order"
          ELSE ""

(* ---- block delivered by a peer ---- *)
StepBlock(e) ==
  LET b == ToBlk(e.blk)
      p == e.post
      relay == e.irt = 0
      pre == DOMAIN blocks
      served == SetOf(p.served)
      new == served \ pre
      gone == pre \ served
      br == Branch(b, e.irt, e.now)
      valid == FirstFailing(b, e.now) = "" /\ CanApply(b)
      accepted == b.id \in new
      preActive == active
      stillOpen == SetOf(p.open)
      strict == unval = {}             \* no unvalidated bulk-download blocks around: "left exactly as it was"
      c9 ==
        IF "C09" \notin Focus \/ ~relay THEN ""
        ELSE IF new \ {b.id} # {} THEN "C09:unrelated_block_entered_state"
        ELSE IF accepted /\ ~valid THEN "C09:block_entered_state_without_passing_full_validation"
        ELSE IF accepted /\ b.id \notin RowIds(p) THEN "C09:accepted_block_not_written_to_store"
        ELSE IF accepted /\ p.head = b.id /\ (\E q \in preActive \cap stillOpen : BlockMsgs(p, q, b.id) # 1)
             THEN "C09:new_head_not_relayed_exactly_once"
        ELSE IF accepted /\ p.head # b.id /\ (\E q \in DOMAIN p.out : BlockMsgs(p, q, b.id) # 0) THEN "C09:block_that_is_not_the_new_head_was_relayed"
        ELSE IF ~accepted /\ b.id \in pre /\ (served # pre \/ p.head # head \/ p.pool # PoolIds(pool) \/ RowIds(p) # S!Ids(chainT)
                                               \/ (\E q \in DOMAIN p.out : Len(p.out[q]) # 0))
             THEN "C09:repeated_delivery_had_an_effect"
        ELSE IF ~accepted /\ b.id \notin pre /\ (b.id \in served \/ b.id \in RowIds(p)) THEN "C09:rejected_block_in_state_or_store"
        ELSE IF ~accepted /\ b.id \notin pre /\ b.id \in SetOf(p.buffer) THEN "C09:rejected_block_stays_queued_for_the_store"
        \* (with unvalidated bulk-download blocks around, a rejected block rolls the node back to its last validated state: those blocks
        \*  go, and with them the pending transactions that spent their outputs -- outside C09's quantification, required by C13)
        ELSE IF ~accepted /\ (strict \/ served = pre) /\ p.pool # PoolIds(pool) THEN "C09:rejected_block_changed_the_pending_pool"
        ELSE IF ~accepted /\ strict /\ (served # pre \/ p.head # head) THEN "C09:rejected_block_changed_chain_state"
        ELSE IF ~accepted /\ RowIds(p) # S!Ids(chainT) THEN "C09:rejected_block_changed_the_store"
        ELSE IF ~accepted /\ (\E q \in DOMAIN p.out : BlockMsgs(p, q, b.id) # 0) THEN "C09:rejected_block_relayed"
        ELSE ""
      \* C05 on the delivery path: a relayed block that entered the chain state satisfies every header rule, judged with the node's clock
      c5 ==
        IF "C05" \notin Focus \/ ~relay \/ ~accepted \/ b.parent \notin pre \/ b.height <= Horizon THEN ""
        ELSE IF ~b.powok THEN "C05:id_not_below_target"
        ELSE IF ~(LET et == ExpectedTarget(blocks, byHeight, b.parent, b.ts) IN et.ok /\ b.target = et.t) THEN "C05:target_not_as_prescribed"
        ELSE IF b.height # blocks[b.parent].height + 1 THEN "C05:height_not_parent_plus_one"
        ELSE IF ~(Len(b.txs) >= 1 /\ Len(b.txs[1].ins) >= 1 /\ b.txs[1].ins[1].cbh = b.height) THEN "C05:reward_height_differs"
        ELSE IF ~(blocks[b.parent].ts < b.ts) THEN "C05:timestamp_not_after_parent"
        ELSE IF ~(b.ts <= e.now + MaxFuture) THEN "C05:timestamp_too_far_in_future"
        ELSE IF ~b.evok THEN "C05:evidence_not_as_recomputed"
        ELSE ""
      \* C01 / C02 on the delivery path: a relayed block that entered the chain state spends only what is there and authorised, and conserves value
      c12 ==
        IF Focus \cap {"C01", "C02", "C16"} = {} \/ ~relay \/ ~accepted \/ b.parent \notin pre \/ b.height <= Horizon THEN ""
        ELSE LET pu == utxo[b.parent] IN
             IF "C01" \in Focus /\ ~P_SpendsExist(b, pu) THEN "C01:spend_of_missing_or_spent_output"
             ELSE IF "C01" \in Focus /\ ~P_NoDoubleSpend(b) THEN "C01:output_spent_twice_in_block"
             ELSE IF "C01" \in Focus /\ ~P_NoSameBlockSpend(b) THEN "C01:spend_of_output_created_in_same_block"
             ELSE IF "C01" \in Focus /\ ~P_Authorised(b, pu) THEN "C01:spend_not_authorised_by_owner_key"
             ELSE IF "C02" \in Focus /\ ~P_OneReward(b) THEN "C02:reward_transaction_malformed"
             ELSE IF "C02" \in Focus /\ ~P_TxValues(b, pu) THEN "C02:transaction_values_out_of_range_or_overspent"
             ELSE IF "C02" \in Focus /\ ~P_Reward(b, pu) THEN "C02:reward_exceeds_subsidy_plus_fees"
             ELSE IF "C16" \in Focus /\ ~P_Reward(b, pu) THEN "C16:block_claiming_more_than_the_subsidy_of_its_height_plus_fees_entered_the_chain_state"
             ELSE ""
  IN \* the spec state follows the *implementation's* outcome where that outcome is explainable
     /\ UNCHANGED << miner, tid >>
     /\ txd' = txd
     /\ IF b.id \notin DOMAIN arr /\ b.parent \in DOMAIN arr
        THEN arr' = (b.id :> [parent |-> b.parent, height |-> b.height]) @@ arr /\ arrOrd' = Append(arrOrd, b.id)
        ELSE UNCHANGED << arr, arrOrd >>
     /\ IF accepted /\ CanApply(b)
        THEN /\ Store(b)
             /\ lastValid' = IF e.irt = 0 \/ b.height % IbdSkip = 0 THEN CSPrimed ELSE lastValid
             /\ unval' = IF e.irt = 0 \/ b.height % IbdSkip = 0 THEN {} ELSE unval \cup {b.id}
        ELSE IF gone # {} /\ lastValid # << >> /\ served = DOMAIN lastValid.blocks
        THEN SetCS(lastValid) /\ UNCHANGED lastValid /\ unval' = {}
        ELSE UNCHANGED << blocks, order, utxo, byHeight, tips, head, lastValid, unval >>
     /\ LET prePool == pool IN
        /\ pool' = IF PoolKnown(p) THEN PoolOf(p) ELSE pool
        /\ active' = active \cap stillOpen
        /\ outbox' = outbox
        \* store tables follow Node's model of the step
        /\ LET buf == IF br \in {"accept", "accept_unvalidated"} \/ (br = "apply_error" /\ SaveBeforeApply) THEN Append(buffer, SB(b)) ELSE buffer
               fl == FlushOf(buf)
           IN IF br = "accept" /\ fl.ok THEN /\ chainT' = fl.C /\ locT' = fl.L /\ outT' = fl.O /\ inT' = fl.I /\ buffer' = << >> /\ UNCHANGED txnOpen
              ELSE IF br = "accept" THEN /\ txnOpen' = TRUE /\ buffer' = buf /\ UNCHANGED << chainT, locT, outT, inT >>
              ELSE IF br = "bad_in_state" THEN /\ buffer' = << >> /\ UNCHANGED << chainT, locT, outT, inT, txnOpen >>
              ELSE /\ buffer' = buf /\ UNCHANGED << chainT, locT, outT, inT, txnOpen >>
        /\ LET c13 == C13Clause(p, prePool, p.head # head)
               \* C04 on the delivery path (arrivals include repeated deliveries): evaluated when the served set is what the ledger holds
               c4 == IF "C04" \in Focus /\ AllValid /\ p.head # FirstSeenBest(arr', arrOrd')
                     THEN "C04:head_is_not_the_first_seen_block_of_greatest_height_among_the_valid_blocks_that_arrived"
                     ELSE IF "C04" \notin Focus \/ served # DOMAIN blocks' THEN ""
                     ELSE IF p.head # FirstSeenBest(blocks', order') THEN "C04:head_not_first_seen_of_greatest_height"
                     ELSE IF SetOf(p.tips) # Childless(blocks') THEN "C04:tips_not_exactly_childless_blocks"
                     ELSE ""
               c == IF c9 # "" THEN c9 ELSE IF c12 # "" THEN c12 ELSE IF c5 # "" THEN c5 ELSE IF c4 # "" THEN c4 ELSE c13
           IN /\ DriftIf((br \in {"accept", "accept_unvalidated"}) # accepted, "block accepted/refused differs from Node!Branch = " \o br)
              /\ DriftIf(RowIds(p) # S!Ids(chainT'), "store rows differ from Node/Store model")
              /\ DriftIf(SetOf(p.buffer) # {buffer'[k].id : k \in 1..Len(buffer')}, "write buffer differs from Node/Store model")
              /\ DriftIf((e.peer \in stillOpen) # (br \notin {"apply_error"} /\ ~(br = "accept" /\ ~FlushOf(Append(buffer, SB(b))).ok)) /\ e.peer \in preActive,
                         "connection open/closed differs from Node model")
              /\ IF c # "" /\ c # "inconclusive" THEN Out(c) /\ done' = TRUE /\ l' = l
                 ELSE /\ l' = l + 1 /\ done' = (l + 1 > Len(Ev)) /\ ((l + 1 > Len(Ev)) => Out("ok"))

(* ---- transaction delivered by a peer ---- *)
StepTx(e) ==
  LET t == e.tx
      p == e.post
      br == TxBranch(t)
      stillOpen == SetOf(p.open)
      admitted == t.id \in SetOf(p.pool) /\ ~InPool(pool, t)
      ok == TxByItself(t) = "" /\ TxOK(utxo[head], t) /\ NoDup(PoolRefs(pool) \o RefSeq(t))
      c13a == IF "C13" \notin Focus THEN ""
              ELSE IF admitted /\ ~ok THEN "C13:invalid_or_conflicting_transaction_admitted"
              ELSE IF SelectSeq(p.pool, LAMBDA x : x # t.id) # PoolIds(SelectSeq(pool, LAMBDA x : x.id # t.id)) THEN "C13:submission_disturbed_other_pending_transactions"
              ELSE ""
      c10 == IF "C10" \notin Focus THEN ""
             ELSE IF admitted /\ (\E q \in active \cap stillOpen : TxMsgs(p, q, t.id) # 1) THEN "C10:admitted_transaction_not_relayed_exactly_once"
             ELSE IF ~admitted /\ (\E q \in DOMAIN p.out : TxMsgs(p, q, t.id) # 0) THEN "C10:transaction_relayed_without_being_newly_admitted"
             ELSE ""
      c9 == IF Focus \cap {"C09", "C13", "C20"} # {} /\ (SetOf(p.served) # DOMAIN blocks \/ p.head # head \/ RowIds(p) # S!Ids(chainT))
            THEN "C13:transaction_submission_changed_chain_state_or_store" ELSE ""
  IN /\ UNCHANGED << blocks, order, utxo, byHeight, tips, head, lastValid, storeVars, miner, tid, unval, arr, arrOrd >>
     /\ txd' = (t.id :> t) @@ txd
     /\ pool' = IF PoolKnown(p) THEN PoolOf(p) ELSE pool
     /\ active' = active \cap stillOpen
     /\ outbox' = outbox
     /\ LET c13b == C13Clause(p, pool, FALSE)
            c == IF c13a # "" THEN c13a ELSE IF c13b # "" THEN c13b ELSE IF c10 # "" THEN c10 ELSE c9
        IN /\ DriftIf((br = "admit") # admitted, "transaction admitted/refused differs from Node!TxBranch = " \o br)
           /\ DriftIf((e.peer \in stillOpen) # (br # "range_error") /\ e.peer \in active, "connection open/closed differs from Node model")
           /\ IF c # "" /\ c # "inconclusive" THEN Out(c) /\ done' = TRUE /\ l' = l
              ELSE /\ l' = l + 1 /\ done' = (l + 1 > Len(Ev)) /\ ((l + 1 > Len(Ev)) => Out("ok"))

(* ---- the miner found a block ---- *)
StepMine(e) ==
  LET b == ToBlk(e.blk)
      p == e.post
      served == SetOf(p.served)
      stillOpen == SetOf(p.open)
      hasParent == b.parent \in DOMAIN blocks
      pu == IF hasParent THEN utxo[b.parent] ELSE EmptyU
      f == FirstFailing(b, e.now)
      fees == FeeSum(pu, OtherTxs(b), 1)
      cb == b.txs[1]
      noValidTime == hasParent /\ b.ts = blocks[b.parent].ts + 1 /\ b.ts > e.now + MaxFuture    \* F-C12b: no admissible timestamp exists
      c12 ==
        IF "C12" \notin Focus THEN ""
        ELSE IF ~b.powok THEN "machinery:candidate_not_below_target"
        ELSE IF ~hasParent THEN "C12:candidate_built_on_unknown_parent"
        ELSE IF f = "future" /\ noValidTime THEN "C12:candidate_one_second_after_a_head_at_the_future_limit_is_rejected"
        ELSE IF f # "" \/ ~CanApply(b) THEN "C12:found_block_fails_own_full_validation"
        ELSE IF ~(b.ts > blocks[b.parent].ts) THEN "C12:timestamp_not_later_than_parent"
        ELSE IF ~fees.ok \/ SumOuts(cb) # Subsidy(b.height) + fees.f THEN "C12:reward_is_not_exactly_subsidy_plus_fees"
        ELSE IF \E i \in 1..Len(cb.outs) : cb.outs[i].k # e.miner_key THEN "C12:reward_not_paid_to_the_miner_key"
        ELSE IF SetOf([k \in 1..Len(OtherTxs(b)) |-> OtherTxs(b)[k].id]) # SetOf(e.pool_at_request) THEN "C12:candidate_does_not_contain_the_pending_transactions"
        ELSE IF b.id \notin served THEN "C12:found_block_not_in_served_chain_state"
        ELSE IF b.parent = head /\ p.head # b.id THEN "C12:found_block_extends_head_but_is_not_the_new_head"
        ELSE IF b.id \notin RowIds(p) THEN "C12:found_block_not_written_to_store"
        ELSE IF \E q \in active \cap stillOpen : BlockMsgs(p, q, b.id) # 1 THEN "C12:found_block_not_broadcast_exactly_once"
        ELSE ""
      inState == b.id \in served
  IN /\ UNCHANGED << tid, miner, unval, arr, arrOrd >>
     /\ txd' = txd
     \* the served state after a found block is the miner's snapshot + the block: blocks the network thread added since the
     \* snapshot are dropped from the served state (they stay in the store) -- followed here so that later events are judged
     \* against the state the node really serves
     /\ LET n == IF inState /\ CanApply(b) /\ b.id \notin DOMAIN blocks THEN Stored(CSV, b) ELSE CSV
            KeepS == served \cap DOMAIN n.blocks
            Restrict(fn) == [x \in KeepS |-> fn[x]]
            r == IF KeepS = DOMAIN n.blocks \/ KeepS = {} THEN n
                 ELSE [blocks |-> Restrict(n.blocks), order |-> SelectSeq(n.order, LAMBDA x : x \in KeepS), utxo |-> Restrict(n.utxo),
                       byHeight |-> Restrict(n.byHeight), tips |-> {x \in KeepS : \A y \in KeepS : n.blocks[y].parent # x},
                       head |-> IF p.head \in KeepS THEN p.head ELSE n.head]
        IN SetCS(r) /\ lastValid' = r
     /\ pool' = IF PoolKnown(p) THEN PoolOf(p) ELSE pool
     /\ active' = active \cap stillOpen /\ outbox' = outbox
     /\ LET buf == IF f = "" /\ CanApply(b) THEN Append(buffer, SB(b)) ELSE buffer
            fl == FlushOf(buf)
        IN IF f = "" /\ CanApply(b) /\ fl.ok THEN /\ chainT' = fl.C /\ locT' = fl.L /\ outT' = fl.O /\ inT' = fl.I /\ buffer' = << >> /\ UNCHANGED txnOpen
           ELSE IF f = "" /\ CanApply(b) THEN /\ txnOpen' = TRUE /\ buffer' = buf /\ UNCHANGED << chainT, locT, outT, inT >>
           ELSE UNCHANGED storeVars
     /\ LET c13 == C13Clause(p, pool, p.head # head)
            c == IF c12 # "" THEN c12 ELSE c13
        IN /\ DriftIf(RowIds(p) # S!Ids(chainT'), "store rows differ from Node/Store model after a found block")
           /\ IF c = "C12:candidate_one_second_after_a_head_at_the_future_limit_is_rejected"
              THEN /\ Finding(c) /\ l' = l + 1 /\ done' = (l + 1 > Len(Ev)) /\ ((l + 1 > Len(Ev)) => Out("ok"))
              ELSE IF c # "" /\ c # "inconclusive" THEN Out(c) /\ done' = TRUE /\ l' = l
              ELSE /\ l' = l + 1 /\ done' = (l + 1 > Len(Ev)) /\ ((l + 1 > Len(Ev)) => Out("ok"))

(* ---- the miner's request handler raised while assembling a candidate from (served state, pending transactions) ---- *)
StepMineFailed(e) ==
  /\ UNCHANGED << tid, miner, unval, txd, pool, active, outbox, lastValid, arr, arrOrd >> /\ UNCHANGED storeVars /\ SetCS(CSV)
  /\ IF "C12" \in Focus THEN Out("C12:miner_cannot_assemble_a_candidate_from_its_head_and_the_pending_transactions") /\ done' = TRUE /\ l' = l
     ELSE /\ l' = l + 1 /\ done' = (l + 1 > Len(Ev)) /\ ((l + 1 > Len(Ev)) => Out("ok"))

(* ---- the node process dies and the program is started again on the same store (read_chain_from_disk, NetworkingThread start-up) ---- *)
(* What is only in memory is gone: the write buffer, the pending pool, the connections (the peers connect again).  The chain state is rebuilt  *)
(* from the store.  P: nothing enters the chain state that had not been accepted before (a rejected block that reached the disk would), the     *)
(* restarted head is of the greatest height among the blocks served; M: the blocks served are the rows the store model holds.                    *)
StepRestart(e) ==
  LET p == e.post
      served == SetOf(p.served)
      KeepS == served \cap DOMAIN blocks
      Restrict(fn) == [x \in KeepS |-> fn[x]]
      r == IF KeepS = DOMAIN blocks THEN [CSV EXCEPT !.head = IF p.head \in KeepS THEN p.head ELSE CSV.head]
           ELSE [blocks |-> Restrict(blocks), order |-> SelectSeq(order, LAMBDA x : x \in KeepS), utxo |-> Restrict(utxo),
                 byHeight |-> Restrict(byHeight), tips |-> {x \in KeepS : \A y \in KeepS : blocks[y].parent # x},
                 head |-> IF p.head \in KeepS THEN p.head ELSE head]
      c == IF Focus \cap {"C08", "C09", "C12", "C13", "C04"} = {} THEN ""
           ELSE IF served \ DOMAIN blocks # {} THEN "C09:block_that_was_never_accepted_is_in_the_chain_state_after_a_restart"
           ELSE IF KeepS = {} THEN "C08:restarted_node_has_no_chain_state"
           ELSE IF p.head \notin KeepS \/ (\E x \in KeepS : blocks[x].height > blocks[p.head].height) THEN "C08:restarted_head_is_not_of_the_greatest_height"
           \* for the restarted process the blocks arrive in the order the store hands them over: its head is the first of them of the greatest height
           ELSE IF "C04" \in Focus /\ (LET ro == SelectSeq(e.read_order, LAMBDA x : x \in KeepS)
                                           top == {x \in KeepS : \A y \in KeepS : blocks[y].height <= blocks[x].height}
                                           firstTop == SelectSeq(ro, LAMBDA x : x \in top)
                                       IN Len(firstTop) > 0 /\ p.head # firstTop[1])
                THEN "C04:head_after_a_restart_is_not_the_first_block_of_greatest_height_in_the_order_the_store_returns_them"
           ELSE IF Len(p.pool) # 0 THEN "C13:pending_transaction_survived_a_restart_without_being_submitted_again"
           ELSE ""
  IN /\ UNCHANGED << tid, miner, txd, arr, arrOrd, chainT, locT, outT, inT >>
     /\ SetCS(r) /\ lastValid' = r /\ unval' = {}
     /\ pool' = << >> /\ buffer' = << >> /\ txnOpen' = FALSE
     /\ active' = SetOf(p.open) /\ outbox' = outbox
     /\ DriftIf(served # {x \in S!Ids(chainT) : x \in DOMAIN blocks}, "blocks served after a restart are not the rows of the Store model")
     /\ IF c # "" THEN Out(c) /\ done' = TRUE /\ l' = l
        ELSE /\ l' = l + 1 /\ done' = (l + 1 > Len(Ev)) /\ ((l + 1 > Len(Ev)) => Out("ok"))

TInit == /\ tid \in 1..Len(Traces) /\ l = 1 /\ done = FALSE
         /\ NInit(ToBlk(Traces[tid].genesis), SetOf(Traces[tid].peers))
         /\ txd = [x \in {} |-> 0] /\ unval = {}
         /\ arr = (Traces[tid].genesis.id :> [parent |-> Traces[tid].genesis.parent, height |-> 0]) /\ arrOrd = << Traces[tid].genesis.id >>
TNext == /\ ~done /\ l <= Len(Ev)
         /\ LET e == Ev[l] IN
            CASE e.op = "block" -> StepBlock(e)
              [] e.op = "tx" -> StepTx(e)
              [] e.op = "mine" -> StepMine(e)
              [] e.op = "mine_failed" -> StepMineFailed(e)
              [] e.op = "restart" -> StepRestart(e)
TSpec == TInit /\ [][TNext]_tv
=============================================================================
