------------------------------- MODULE Store -------------------------------
(* The SQLite block store (skepticoin/blockstore.py) as the relational state its schema defines,   *)
(* with the write buffer and the one-SQL-transaction-per-flush discipline.                          *)
(*   chain(block_hash PK, previous_block_hash -> chain)                                             *)
(*   transaction_locator(transaction_hash PK, block_hash -> chain)        <- ONE block per tx id    *)
(*   transaction_outputs((transaction_hash, seq) PK, transaction_hash -> locator)                   *)
(*   transaction_inputs((transaction_hash, seq) PK, transaction_hash -> locator,                    *)
(*                      (output_reference_hash, index) -> outputs, NULL for the reward input)        *)
(* All inserts are INSERT OR IGNORE (a primary-key conflict is skipped silently, a foreign-key       *)
(* failure raises and leaves the SQL transaction open: every later flush then fails at BEGIN).       *)
EXTENDS Naturals, Integers, Sequences, FiniteSets, TLC

NoB == 0 - 1
NullTx == 0 - 1

VARIABLES chainT,    \* set of block records [id, parent, height] committed
          locT,      \* sequence of << txid, blockid >> in insertion (rowid) order
          outT,      \* set of << txid, seq >>
          inT,       \* set of << txid, seq >>
          buffer,    \* write_buffer: sequence of blocks [id, parent, height, txs]
          txnOpen    \* a failed flush left BEGIN without COMMIT
svars == << chainT, locT, outT, inT, buffer, txnOpen >>

(* a block: [id, parent, height, txs: Seq([id, ins: Seq([tx, idx]), nouts])] *)
Ids(S) == {r.id : r \in S}
Located(L) == {L[i][1] : i \in 1..Len(L)}

RECURSIVE InsChain(_, _, _)
InsChain(C, blocks, i) ==      \* [ok, C]
  IF i > Len(blocks) THEN [ok |-> TRUE, C |-> C]
  ELSE LET b == blocks[i] IN
       IF b.id \in Ids(C) THEN InsChain(C, blocks, i + 1)
       ELSE IF b.parent # NoB /\ b.parent \notin Ids(C) THEN [ok |-> FALSE, C |-> C]       \* FK previous_block_hash
       ELSE InsChain(C \cup {[id |-> b.id, parent |-> b.parent, height |-> b.height]}, blocks, i + 1)

RECURSIVE Flatten(_, _)
Flatten(ss, i) == IF i > Len(ss) THEN << >> ELSE ss[i] \o Flatten(ss, i + 1)
TxRows(blocks) == Flatten([i \in 1..Len(blocks) |-> [k \in 1..Len(blocks[i].txs) |-> << blocks[i].txs[k], blocks[i].id >>]], 1)

RECURSIVE InsLoc(_, _, _)
InsLoc(L, rows, i) == IF i > Len(rows) THEN L
                      ELSE IF rows[i][1].id \in Located(L) THEN InsLoc(L, rows, i + 1)           \* PK: ignored
                      ELSE InsLoc(Append(L, << rows[i][1].id, rows[i][2] >>), rows, i + 1)
OutRows(rows) == UNION { { << rows[i][1].id, s >> : s \in 0..(rows[i][1].nouts - 1) } : i \in 1..Len(rows) }
InRows(rows) == UNION { { [key |-> << rows[i][1].id, s - 1 >>, ref |-> rows[i][1].ins[s]] : s \in 1..Len(rows[i][1].ins) } : i \in 1..Len(rows) }

FlushResult ==       \* write_blocks_to_disk(write_buffer) on the committed tables
  LET c == InsChain(chainT, buffer, 1)
      rows == TxRows(buffer)
      L == InsLoc(locT, rows, 1)
      O == outT \cup OutRows(rows)
      newIn == { r \in InRows(rows) : r.key \notin inT }
      fkOK == \A r \in newIn : r.ref.tx = NullTx \/ << r.ref.tx, r.ref.idx >> \in O
  IN [ok |-> c.ok /\ fkOK, C |-> c.C, L |-> L, O |-> O, I |-> inT \cup { r.key : r \in newIn }]

BufferBlock(b) ==            \* BlockStore.add_block_to_buffer
  /\ buffer' = Append(buffer, b) /\ UNCHANGED << chainT, locT, outT, inT, txnOpen >>
ClearBuffer ==               \* remote_peer.py: DefaultBlockStore.instance.write_buffer.clear()
  /\ buffer' = << >> /\ UNCHANGED << chainT, locT, outT, inT, txnOpen >>
FlushOK ==                   \* flush_blocks_to_disk, committed
  /\ buffer # << >> /\ ~txnOpen /\ FlushResult.ok
  /\ chainT' = FlushResult.C /\ locT' = FlushResult.L /\ outT' = FlushResult.O /\ inT' = FlushResult.I
  /\ buffer' = << >> /\ UNCHANGED txnOpen
FlushRaises ==               \* BEGIN inside an open transaction, or a foreign-key failure: nothing is committed,
  /\ buffer # << >> /\ (txnOpen \/ ~FlushResult.ok)      \* the buffer is NOT cleared, the transaction stays open
  /\ txnOpen' = TRUE /\ UNCHANGED << chainT, locT, outT, inT, buffer >>
FlushNoop == buffer = << >> /\ UNCHANGED svars

(* read_blocks_from_disk: rows of `chain` by height; a block's transactions are the locator rows that  *)
(* point at it, in rowid order; a block without any located transaction is skipped                    *)
TxsOf(L, bid) == LET idx == { i \in 1..Len(L) : L[i][2] = bid }
                 IN [k \in 1..Cardinality(idx) |->
                       L[CHOOSE i \in idx : Cardinality({ j \in idx : j < i }) = k - 1][1]]
ReadSet == { [id |-> r.id, parent |-> r.parent, height |-> r.height, txids |-> TxsOf(locT, r.id)]
             : r \in { x \in chainT : TxsOf(locT, x.id) # << >> } }

SInit(g) == /\ chainT = {[id |-> g.id, parent |-> NoB, height |-> 0]}
            /\ locT = [k \in 1..Len(g.txs) |-> << g.txs[k].id, g.id >>]
            /\ outT = OutRows(TxRows(<< g >>))
            /\ inT = { r.key : r \in InRows(TxRows(<< g >>)) }
            /\ buffer = << >> /\ txnOpen = FALSE
=============================================================================
