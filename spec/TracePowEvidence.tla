-------------------------- MODULE TracePowEvidence --------------------------
(* For blocks offered to full validation: the evidence stated in the header against the evidence this     *)
(* specification derives from the summary, the ancestors it selects and the transaction list (C05, C06,   *)
(* C18 evidence clause).  P: accepted => stated = derived.  M: the harness' own recomputation flag agrees. *)
EXTENDS PowEvidence, Json, IOUtils, TLC, TLCExt
Events == JsonDeserialize(IOEnv.TRACE_FILE)
VARIABLES l, done
tv == << l, done >>
BlockAt(e) == [h \in {e.ancestors[i][1] : i \in 1..Len(e.ancestors)} |->
                 e.ancestors[CHOOSE i \in 1..Len(e.ancestors) : e.ancestors[i][1] = h][2]]
TInit == l = 1 /\ done = FALSE
TNext == /\ ~done /\ l <= Len(Events)
         /\ LET e == Events[l]
                d == Evidence(e.summary, e.height8, e.height, BlockAt(e), e.txlist, e.scrypt, e.sha, e.blake)
                same == d.ok /\ d.summary_hash = e.stated.summary_hash /\ d.chain_sample = e.stated.chain_sample /\ d.block_hash = e.stated.block_hash
                c == IF e.accepted /\ ~same THEN e.prop \o ":accepted_block_whose_evidence_is_not_the_recomputed_one" ELSE ""
            IN /\ (same # e.evok => PrintT(ToJson(<< "DRIFT", l, "evidence flag of the harness differs from PowEvidence!Evidence: " \o (IF d.ok THEN "derived differs" ELSE d.why) >>)))
               /\ (c # "" => PrintT(ToJson(<< "FINDING", l, c >>)))
               /\ l' = l + 1 /\ done' = (l + 1 > Len(Events))
               /\ (l + 1 > Len(Events)) => PrintT(ToJson(<< "VERDICT", 1, "ok", l >>))
TSpec == TInit /\ [][TNext]_tv
=============================================================================
