------------------------------ MODULE SendPath ------------------------------
(* The send side of one connection (networking/remote_peer.py: send_message :238, start_sending :254, stop_sending :261,           *)
(* handle_can_send :290), at the granularity of source lines, under its two callers:                                                *)
(*   "net"    the network thread: answers to the peer (send_message from a message handler) and handle_can_send whenever the        *)
(*            selector reports the socket writable while EVENT_WRITE is registered for it;                                          *)
(*   "miner"  any other thread that broadcasts (MinerWatcher.handle_scrypt_output_message -> broadcast_block, the send script       *)
(*            -> broadcast_transaction): send_message only.                                                                         *)
(* One action per source line (a thread switch is possible between any two of them, a fortiori between lines):                      *)
(*   send_message      S1  self.send_backlog.append(frame)                                                                          *)
(*                     S2  if len(self.send_buffer) == 0:                                                                           *)
(*                     S3      self.send_buffer = self.send_backlog.pop(0)                                                          *)
(*                     S4      self.start_sending()                 selector.modify(READ | WRITE)                                   *)
(*   handle_can_send   H1  sent = sock.send(self.send_buffer)        the transport takes 1..n bytes (0 when the buffer is empty); a short  *)
(*                                                                    write means its buffer is now full: until the selector reports the    *)
(*                                                                    socket writable again a further send() raises BlockingIOError, which  *)
(*                                                                    the caller (local_peer.py :213) treats as a dead connection           *)
(*                     H2  self.send_buffer = self.send_buffer[sent:]                                                               *)
(*                     H3  if len(self.send_buffer) == 0:                                                                           *)
(*                     H4      if len(self.send_backlog) == 0:                                                                      *)
(*                     H5          self.stop_sending()              selector.modify(READ)                                           *)
(*                     H6      self.send_buffer = self.send_backlog.pop(0)                                                          *)
(*                     H7      back to H1 without a new selector event (a loop since the repair of F-C10a; it was a recursive call, *)
(*                             one interpreter frame per drained frame)                                                             *)
(* Locked = TRUE   both functions are critical sections of one per-connection lock (the code after the repair of F-C12c);           *)
(* Locked = FALSE  no lock (the code as it was): kept as a switch for the witness run and to generate the adversarial schedules     *)
(*                 that are replayed into the real code.                                                                            *)
EXTENDS Naturals, Sequences, FiniteSets, TLC
CONSTANTS Lens,          \* Lens[f] = length in bytes of frame f; frames are 1..Len(Lens)
          NetFrames,     \* frames the network thread sends, in this order (answers to the peer)
          MinerFrames,   \* frames the other thread sends, in this order (broadcasts)
          MaxChunk,      \* the transport accepts at most this many bytes per send()
          Locked
VARIABLES backlog,       \* send_backlog: Seq of frames
          buf,           \* send_buffer: Seq of bytes, a byte is <<frame, index>>
          interest,      \* EVENT_WRITE registered for the socket
          wire,          \* bytes the transport has accepted, in order
          queued,        \* frames in the order send_message appended them (history; the order a reader of the stream must see)
          th,            \* th[t] = [pc, todo, sent]
          lock, crashed,
          full           \* the transport's buffer is full (the last send() was a short write and no writable event has been reported since)
vars == << backlog, buf, interest, wire, queued, th, lock, crashed, full >>
Threads == {"net", "miner"}
None == "none"
Bytes(f) == [i \in 1..Lens[f] |-> << f, i >>]
RECURSIVE Flat(_)
Flat(fs) == IF fs = << >> THEN << >> ELSE Bytes(Head(fs)) \o Flat(Tail(fs))
Min(a, b) == IF a < b THEN a ELSE b
IsPrefix(a, b) == Len(a) <= Len(b) /\ SubSeq(b, 1, Len(a)) = a

Init == /\ backlog = << >> /\ buf = << >> /\ interest = FALSE /\ wire = << >> /\ queued = << >>
        /\ th = [t \in Threads |-> [pc |-> "idle", todo |-> IF t = "net" THEN NetFrames ELSE MinerFrames, sent |-> 0]]
        /\ lock = None /\ crashed = FALSE /\ full = FALSE

Goto(t, p) == th' = [th EXCEPT ![t].pc = p]
Finish(t) == /\ th' = [th EXCEPT ![t].pc = "idle"] /\ lock' = IF Locked THEN None ELSE lock

(* ---- send_message, thread t ---- *)
BeginSend(t) == /\ th[t].pc = "idle" /\ th[t].todo # << >> /\ ~crashed
                /\ (Locked => lock = None) /\ lock' = IF Locked THEN t ELSE lock
                /\ Goto(t, "S1") /\ UNCHANGED << backlog, buf, interest, wire, queued, crashed, full >>
S1(t) == /\ th[t].pc = "S1"
         /\ backlog' = Append(backlog, Head(th[t].todo)) /\ queued' = Append(queued, Head(th[t].todo))
         /\ th' = [th EXCEPT ![t].pc = "S2", ![t].todo = Tail(th[t].todo)]
         /\ UNCHANGED << buf, interest, wire, lock, crashed, full >>
S2(t) == /\ th[t].pc = "S2"
         /\ IF buf = << >> THEN Goto(t, "S3") /\ UNCHANGED lock ELSE Finish(t)
         /\ UNCHANGED << backlog, buf, interest, wire, queued, crashed, full >>
S3(t) == /\ th[t].pc = "S3"
         /\ IF backlog = << >>
            THEN /\ crashed' = TRUE /\ Finish(t) /\ UNCHANGED << backlog, buf >>        \* pop from an empty list: IndexError
            ELSE /\ buf' = Bytes(Head(backlog)) /\ backlog' = Tail(backlog) /\ Goto(t, "S4") /\ UNCHANGED << lock, crashed >>
         /\ UNCHANGED << interest, wire, queued, full >>
S4(t) == /\ th[t].pc = "S4" /\ interest' = TRUE /\ Finish(t)
         /\ UNCHANGED << backlog, buf, wire, queued, crashed, full >>

(* ---- handle_can_send, network thread only ---- *)
BeginCanSend == /\ th["net"].pc = "idle" /\ interest /\ ~crashed
                /\ (Locked => lock = None) /\ lock' = IF Locked THEN "net" ELSE lock
                /\ full' = FALSE                                           \* the selector reported the socket writable
                /\ Goto("net", "H1") /\ UNCHANGED << backlog, buf, interest, wire, queued, crashed >>
H1 == /\ th["net"].pc = "H1"
      /\ IF full /\ buf # << >>
         THEN /\ crashed' = TRUE /\ Finish("net") /\ UNCHANGED << wire, full >>       \* BlockingIOError: the connection is dropped
         ELSE /\ \E k \in (IF buf = << >> THEN {0} ELSE 1..Min(Len(buf), MaxChunk)) :
                    /\ wire' = wire \o SubSeq(buf, 1, k)
                    /\ th' = [th EXCEPT !["net"].pc = "H2", !["net"].sent = k]
                    /\ full' = (k < Len(buf))
              /\ UNCHANGED << lock, crashed >>
      /\ UNCHANGED << backlog, buf, interest, queued >>
H2 == /\ th["net"].pc = "H2"
      /\ buf' = SubSeq(buf, Min(th["net"].sent, Len(buf)) + 1, Len(buf)) /\ Goto("net", "H3")
      /\ UNCHANGED << backlog, interest, wire, queued, lock, crashed, full >>
H3 == /\ th["net"].pc = "H3"
      /\ IF buf = << >> THEN Goto("net", "H4") /\ UNCHANGED lock ELSE Finish("net")
      /\ UNCHANGED << backlog, buf, interest, wire, queued, crashed, full >>
H4 == /\ th["net"].pc = "H4"
      /\ Goto("net", IF backlog = << >> THEN "H5" ELSE "H6")
      /\ UNCHANGED << backlog, buf, interest, wire, queued, lock, crashed, full >>
H5 == /\ th["net"].pc = "H5" /\ interest' = FALSE /\ Finish("net")
      /\ UNCHANGED << backlog, buf, wire, queued, crashed, full >>
H6 == /\ th["net"].pc = "H6"
      /\ IF backlog = << >>
         THEN /\ crashed' = TRUE /\ Finish("net") /\ UNCHANGED << backlog, buf >>
         ELSE /\ buf' = Bytes(Head(backlog)) /\ backlog' = Tail(backlog) /\ Goto("net", "H1") /\ UNCHANGED << lock, crashed >>
      /\ UNCHANGED << interest, wire, queued, full >>

StepOf(t) == BeginSend(t) \/ S1(t) \/ S2(t) \/ S3(t) \/ S4(t)
             \/ (t = "net" /\ (BeginCanSend \/ H1 \/ H2 \/ H3 \/ H4 \/ H5 \/ H6))
Next == \E t \in Threads : StepOf(t)
Spec == Init /\ [][Next]_vars
(* liveness: with the transport and both threads making progress whenever they can (weak fairness on every step; the selector reports a    *)
(* writable socket for as long as write interest is registered), everything that was queued is eventually on the wire                      *)
FairSpec == Spec /\ WF_vars(Next)
L_EverythingQueuedIsEventuallyWritten == <>((\A t \in Threads : th[t].todo = << >>) /\ wire = Flat(queued))

(* ---- properties ---- *)
Idle == \A t \in Threads : th[t].pc = "idle"
Pending == buf # << >> \/ backlog # << >>
(* what the peer reads is a prefix of the frames in the order they were queued: nothing lost, duplicated, torn or reordered *)
I_StreamIsQueuedFrames == IsPrefix(wire, Flat(queued))
(* pending output is never left without a registered write interest (the connection would be mute for ever: every later        *)
(* send_message finds send_buffer non-empty and only appends)                                                                  *)
I_NoStall == (Idle /\ Pending) => interest
(* when nothing can happen any more, everything queued has been written *)
I_AllWritten == (Idle /\ ~interest /\ (\A t \in Threads : th[t].todo = << >>)) => wire = Flat(queued)
I_NoCrash == ~crashed
(* the node never writes to a transport that has just told it (by a short write) that it is full *)
I_NeverSendsWhenFull == ~(th["net"].pc = "H1" /\ full /\ buf # << >>)
I_Lock == Locked => \A t \in Threads : (th[t].pc # "idle") => lock = t
=============================================================================
