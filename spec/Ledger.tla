------------------------------- MODULE Ledger -------------------------------
(* The chain state of a skepticoin node (skepticoin/coinstate.py, balances.py) and the       *)
(* consensus rules that guard it (skepticoin/consensus.py).                                   *)
(*                                                                                            *)
(* M-layer (implementation shaped): the state is the five persistent maps of `CoinState`,     *)
(* updated incrementally exactly as `add_block_no_validation` does; every `raise` of          *)
(* `validate_block_by_itself` / `validate_block_in_coinstate` is one named rule R_*; the      *)
(* rules are tried in the order of the code, `FirstFailing` names the one that fires.         *)
(*                                                                                            *)
(* P-layer (property strength): C01..C05, C18 stated over the *replayed* ledger               *)
(* (`ReplayUtxo`, computed from genesis along the block's own chain), independent of the      *)
(* incremental maps.  TLC checks M => P on MC_Ledger*, and TraceLedger evaluates the same     *)
(* P operators on every step the real code takes.                                             *)
EXTENDS Naturals, Integers, Sequences, FiniteSets, TLC, BigNat

CONSTANTS
  Period,           \* BLOCKS_BETWEEN_TARGET_READJUSTMENT
  Timespan,         \* DESIRED_TARGET_READJUSTMENT_TIMESPAN
  W,                \* width of a target in bytes (32 in the code)
  MaxFuture,        \* MAX_FUTURE_BLOCK_TIME
  InitialSubsidy, HalvingInterval, MaxMoney,
  Horizon,          \* MAX_KNOWN_HASH_HEIGHT  (-1: nothing is below the horizon)
  Known,            \* KNOWN_HASHES: checkpointed height -> id
  RulesOff          \* names of rules switched off (necessity runs: the property a rule protects must then fail); normally {}

VARIABLES
  blocks,           \* block_by_hash:           id -> block
  order,            \* arrival order of stored ids (not in the code: needed to *state* first-seen)
  utxo,             \* unspent_transaction_outs_by_hash: id -> (ref -> [v, k])
  byHeight,         \* block_by_height_by_hash: id -> (height -> id)
  tips,             \* heads
  head              \* current_chain_hash

lvars == << blocks, order, utxo, byHeight, tips, head >>

NoBlock == 0 - 1
NoKey   == 0 - 1
NullRef == [tx |-> 0 - 1, idx |-> 0]      \* "reference to thin air"

-----------------------------------------------------------------------------
(* generic helpers *)

RECURSIVE SumSeq(_, _)
SumSeq(s, i) == IF i > Len(s) THEN 0 ELSE s[i] + SumSeq(s, i + 1)
Range(s) == {s[i] : i \in 1..Len(s)}
Pow2(n) == 2 ^ n

OutVals(t) == [i \in 1..Len(t.outs) |-> t.outs[i].v]
SumOuts(t) == SumSeq(OutVals(t), 1)
RefSeq(t)  == [i \in 1..Len(t.ins) |-> t.ins[i].ref]
Refs(t)    == Range(RefSeq(t))
OutRef(t, i) == [tx |-> t.id, idx |-> i - 1]
NewRefs(t) == {OutRef(t, i) : i \in 1..Len(t.outs)}

RECURSIVE SumVals(_, _)
SumVals(u, S) == IF S = {} THEN 0
                 ELSE LET r == CHOOSE x \in S : TRUE IN u[r].v + SumVals(u, S \ {r})
Total(u) == SumVals(u, DOMAIN u)

Subsidy(h) == LET e == h \div HalvingInterval
              IN IF e >= 64 \/ e >= 31 THEN 0 ELSE InitialSubsidy \div Pow2(e)
              \* e >= 31: 2^e exceeds any InitialSubsidy representable in TLC; the quotient is 0 as in the code
RECURSIVE CumSubsidy(_)
CumSubsidy(h) == IF h < 0 THEN 0 ELSE Subsidy(h) + CumSubsidy(h - 1)

-----------------------------------------------------------------------------
(* applying transactions to an unspent-output map: balances.py uto_apply_*                     *)
(* `del` of a missing reference raises (KeyError): ok = FALSE                                  *)

ApplyTx(u, t, isCb) ==
  LET rs   == IF isCb THEN {} ELSE Refs(t)
      ok   == isCb \/ (rs \subseteq DOMAIN u /\ Cardinality(rs) = Len(t.ins))
      keep == (DOMAIN u) \ rs
      new  == NewRefs(t)
  IN [ok |-> ok,
      u  |-> [r \in keep \cup new |-> IF r \in new THEN t.outs[r.idx + 1] ELSE u[r]]]

RECURSIVE ApplyTxs(_, _, _)
ApplyTxs(u, txs, i) ==
  IF i > Len(txs) THEN [ok |-> TRUE, u |-> u]
  ELSE LET r == ApplyTx(u, txs[i], i = 1)
       IN IF ~r.ok THEN [ok |-> FALSE, u |-> u] ELSE ApplyTxs(r.u, txs, i + 1)

EmptyU == [r \in {} |-> 0]
ApplyBlock(u, b) == IF Len(b.txs) = 0 THEN [ok |-> FALSE, u |-> u] ELSE ApplyTxs(u, b.txs, 1)

-----------------------------------------------------------------------------
(* the tree *)

IsRoot(b) == b.parent = NoBlock
RECURSIVE ChainOf(_, _)
ChainOf(B, id) ==       \* ids from the root to id, along parent links of the block map B
  IF B[id].parent = NoBlock \/ B[id].parent \notin DOMAIN B THEN << id >>
  ELSE Append(ChainOf(B, B[id].parent), id)

RECURSIVE ReplayAlong(_, _, _, _)
ReplayAlong(B, ch, i, u) ==
  IF i > Len(ch) THEN [ok |-> TRUE, u |-> u]
  ELSE LET r == ApplyBlock(u, B[ch[i]])
       IN IF ~r.ok THEN [ok |-> FALSE, u |-> u] ELSE ReplayAlong(B, ch, i + 1, r.u)
ReplayUtxo(B, id) == ReplayAlong(B, ChainOf(B, id), 1, EmptyU)   \* the ledger at `id`, from genesis

(* per key: [value, set of references]  (PKBalance; the code keeps the references as a list) *)
KeysOf(u) == {u[r].k : r \in DOMAIN u}
BalanceOf(u, k) == LET S == {r \in DOMAIN u : u[r].k = k}
                   IN [value |-> SumVals(u, S), refs |-> S]

MaxHeight(B) == CHOOSE h \in {B[i].height : i \in DOMAIN B} : \A j \in DOMAIN B : B[j].height <= h
FirstSeenBest(B, ord) ==     \* the earliest-arrived block among those of greatest height
  LET mh == MaxHeight(B)
      k  == CHOOSE i \in 1..Len(ord) : /\ B[ord[i]].height = mh
                                        /\ \A j \in 1..(i - 1) : B[ord[j]].height # mh
  IN ord[k]
LCA(B, a, b) ==      \* last common ancestor of two stored blocks
  LET ca == ChainOf(B, a)
      cb == ChainOf(B, b)
      n  == IF Len(ca) < Len(cb) THEN Len(ca) ELSE Len(cb)
      k  == CHOOSE i \in 1..n : ca[i] = cb[i] /\ \A j \in (i + 1)..n : ca[j] # cb[j]
  IN ca[k]
Childless(B) == {i \in DOMAIN B : \A j \in DOMAIN B : B[j].parent # i}

-----------------------------------------------------------------------------
(* difficulty: consensus.py calc_target / calculate_new_target *)

ExpectedTarget(B, BH, p, ts) ==       \* p = parent id; result [ok, t]
  LET h == B[p].height + 1
  IN IF h % Period # 0 THEN [ok |-> TRUE, t |-> B[p].target]
     ELSE IF (h - Period) \notin DOMAIN BH[p] THEN [ok |-> FALSE, t |-> << >>]     \* KeyError
     ELSE LET start   == BH[p][h - Period]
              elapsed == ts - B[start].ts
          IN IF elapsed < 0 THEN [ok |-> FALSE, t |-> << >>]                         \* OverflowError in to_bytes
             ELSE [ok |-> TRUE, t |-> ScaleCapped(B[p].target, Nat4(elapsed), Timespan, W)]

-----------------------------------------------------------------------------
(* rules, by-itself (validate_block_by_itself).  A block record:                               *)
(*  [id, parent, height, ts, target, powok, evok, merkleok, sizeok, txs]                       *)
(* a transaction: [id, ins: Seq([ref, kind, signer, cbh, small]), outs: Seq([v, k]), sizeok]   *)
(*   kind \in {"secp","blank","cbdata"};  signer = the key under which the signature verifies  *)
(*   over the transaction's complete reference list and outputs (NoKey: none)                  *)

InRange(v) == 0 < v /\ v <= MaxMoney
On(r) == r \notin RulesOff

TxByItself(t) ==      \* validate_non_coinbase_transaction_by_itself; "" = passes
  IF On("tx_noins") /\ Len(t.ins) = 0 THEN "tx_noins"
  ELSE IF On("tx_noouts") /\ Len(t.outs) = 0 THEN "tx_noouts"
  ELSE IF ~t.sizeok THEN "tx_size"
  ELSE IF On("tx_range") /\ \E i \in 1..Len(t.outs) : ~InRange(t.outs[i].v) THEN "tx_range"
  ELSE IF On("tx_range") /\ ~InRange(SumOuts(t)) THEN "tx_range"
  ELSE IF On("tx_dupref") /\ Cardinality(Refs(t)) # Len(t.ins) THEN "tx_dupref"
  ELSE IF On("tx_nosig") /\ \E i \in 1..Len(t.ins) : t.ins[i].ref = NullRef \/ t.ins[i].kind # "secp"
       THEN (LET i == CHOOSE j \in 1..Len(t.ins) :
                        /\ (t.ins[j].ref = NullRef \/ t.ins[j].kind # "secp")
                        /\ \A m \in 1..(j - 1) : ~(t.ins[m].ref = NullRef \/ t.ins[m].kind # "secp")
             IN IF t.ins[i].ref = NullRef THEN "tx_nullref" ELSE "tx_nosig")
  ELSE ""

CoinbaseByItself(t) ==
  IF Len(t.ins) # 1 THEN "cb_inputs"
  ELSE IF t.ins[1].ref # NullRef THEN "cb_notnull"
  ELSE IF t.ins[1].kind # "cbdata" THEN "cb_nodata"
  ELSE IF ~t.ins[1].small THEN "cb_datasize"
  ELSE ""

RECURSIVE FirstTxFailure(_, _)
FirstTxFailure(txs, i) == IF i > Len(txs) THEN ""
                          ELSE LET f == TxByItself(txs[i])
                               IN IF f # "" THEN f ELSE FirstTxFailure(txs, i + 1)

OtherTxs(b) == SubSeq(b.txs, 2, Len(b.txs))
AllRefSeq(txs) == [k \in 1..Len(txs) |-> RefSeq(txs[k])]
RECURSIVE Flatten(_, _)
Flatten(ss, i) == IF i > Len(ss) THEN << >> ELSE ss[i] \o Flatten(ss, i + 1)
BlockRefSeq(b) == Flatten(AllRefSeq(OtherTxs(b)), 1)
NoDup(s) == Cardinality(Range(s)) = Len(s)

ByItself(b, now) ==
  IF On("pow") /\ ~b.powok THEN "pow"
  ELSE IF On("future") /\ b.ts > now + MaxFuture THEN "future"
  ELSE IF Len(b.txs) = 0 THEN "notx"
  ELSE IF ~b.sizeok THEN "size"
  ELSE LET cb == CoinbaseByItself(b.txs[1])
           ot == OtherTxs(b)
       IN IF cb # "" THEN cb
          ELSE IF On("cb_height") /\ b.txs[1].ins[1].cbh # b.height THEN "cb_height"
          ELSE LET tf == FirstTxFailure(ot, 1)
               IN IF tf # "" THEN tf
                  ELSE IF On("duptx") /\ ~NoDup([k \in 1..Len(ot) |-> ot[k].id]) THEN "duptx"
                  ELSE IF On("dupref") /\ ~NoDup(Flatten(AllRefSeq(ot), 1)) THEN "dupref"
                  ELSE IF On("merkle") /\ ~b.merkleok THEN "merkle"
                  ELSE ""

(* rules, in state (validate_block_in_coinstate) *)

RECURSIVE FeeSum(_, _, _)
FeeSum(u, txs, i) ==     \* get_block_fees: a missing reference raises KeyError -> ok = FALSE
  IF i > Len(txs) THEN [ok |-> TRUE, f |-> 0]
  ELSE IF ~(Refs(txs[i]) \subseteq DOMAIN u) THEN [ok |-> FALSE, f |-> 0]
  ELSE LET rest == FeeSum(u, txs, i + 1)
           inv  == SumSeq([k \in 1..Len(txs[i].ins) |-> u[txs[i].ins[k].ref].v], 1)
       IN [ok |-> rest.ok, f |-> inv - SumOuts(txs[i]) + rest.f]

TxInState(u, t) ==      \* validate_non_coinbase_transaction_in_coinstate: inputs in order, then overspend
  LET bad(i) == t.ins[i].ref \notin DOMAIN u \/ (On("tx_sig") /\ (t.ins[i].signer # u[t.ins[i].ref].k
                                                                             \/ t.ins[i].kind # "secp"))
  IN IF \E i \in 1..Len(t.ins) : bad(i)
     THEN (LET i == CHOOSE j \in 1..Len(t.ins) : bad(j) /\ \A m \in 1..(j - 1) : ~bad(m)
           IN IF t.ins[i].ref \notin DOMAIN u THEN "tx_missing" ELSE "tx_sig")
     ELSE IF On("tx_overspend") /\ SumOuts(t) > SumSeq([k \in 1..Len(t.ins) |-> u[t.ins[k].ref].v], 1) THEN "tx_overspend"
     ELSE ""
RECURSIVE FirstInStateFailure(_, _, _)
FirstInStateFailure(u, txs, i) == IF i > Len(txs) THEN ""
                                  ELSE LET f == TxInState(u, txs[i])
                                       IN IF f # "" THEN f ELSE FirstInStateFailure(u, txs, i + 1)

CSV == [blocks |-> blocks, order |-> order, utxo |-> utxo, byHeight |-> byHeight, tips |-> tips, head |-> head]

InStateOn(c, b) ==      \* validate_block_in_coinstate(block, c) for a chain-state value c
  IF b.height <= Horizon
  THEN (IF b.height \in DOMAIN Known /\ b.id # Known[b.height] THEN "checkpoint" ELSE "")
  ELSE IF b.parent \notin DOMAIN c.blocks THEN "parent"
  ELSE IF On("ts_order") /\ b.ts <= c.blocks[b.parent].ts THEN "ts_order"
  ELSE LET et == ExpectedTarget(c.blocks, c.byHeight, b.parent, b.ts)
           fs == FeeSum(c.utxo[b.parent], OtherTxs(b), 1)
       IN IF ~et.ok THEN "target_error"
          ELSE IF On("target") /\ b.target # et.t THEN "target"
          ELSE IF On("evidence") /\ ~b.evok THEN "evidence"
          ELSE IF On("height") /\ b.height # c.blocks[b.parent].height + 1 THEN "height"
          ELSE IF ~fs.ok THEN "fees_error"
          ELSE IF On("reward") /\ SumOuts(b.txs[1]) > fs.f + Subsidy(b.height) THEN "reward"
          ELSE FirstInStateFailure(c.utxo[b.parent], OtherTxs(b), 1)
InState(b) == InStateOn(CSV, b)

FirstFailing(b, now) == LET f == ByItself(b, now) IN IF f # "" THEN f ELSE InState(b)
FirstFailingOn(c, b, now) == LET f == ByItself(b, now) IN IF f # "" THEN f ELSE InStateOn(c, b)

ParentUOn(c, b) == IF IsRoot(b) THEN [ok |-> TRUE, u |-> EmptyU]
                   ELSE IF b.parent \in DOMAIN c.utxo THEN [ok |-> TRUE, u |-> c.utxo[b.parent]]
                   ELSE [ok |-> FALSE, u |-> EmptyU]                       \* KeyError
CanApplyOn(c, b) == ParentUOn(c, b).ok /\ ApplyBlock(ParentUOn(c, b).u, b).ok
                      /\ (IsRoot(b) \/ b.parent \in DOMAIN c.byHeight)
ParentU(b) == ParentUOn(CSV, b)
CanApply(b) == CanApplyOn(CSV, b)

-----------------------------------------------------------------------------
(* actions *)

Stored(c, b) ==      \* CoinState.add_block_no_validation as a function on chain-state values: the five maps as the code updates them
  [blocks |-> (b.id :> b) @@ c.blocks,
   order |-> IF b.id \in DOMAIN c.blocks THEN c.order ELSE Append(c.order, b.id),
   utxo |-> (b.id :> ApplyBlock(ParentUOn(c, b).u, b).u) @@ c.utxo,
   byHeight |-> IF IsRoot(b) THEN (b.id :> (0 :> b.id))        \* quirk: a root block resets the whole index
                ELSE (b.id :> ((b.height :> b.id) @@ c.byHeight[b.parent])) @@ c.byHeight,
   tips |-> (c.tips \ {b.parent}) \cup {b.id},
   head |-> IF c.head = NoBlock \/ c.head = b.parent THEN b.id
            ELSE IF b.height > c.blocks[c.head].height THEN b.id
            ELSE c.head]

Store(b) ==
  /\ CanApply(b)
  /\ LET n == Stored(CSV, b)
     IN /\ blocks' = n.blocks /\ order' = n.order /\ utxo' = n.utxo
        /\ byHeight' = n.byHeight /\ tips' = n.tips /\ head' = n.head

(* CoinState.add_block = validate, then apply.  `f` is FirstFailing(b, now), passed in so that     *)
(* wrappers evaluate the rule cascade once per candidate.                                         *)
AddBlockF(b, f) == f = "" /\ Store(b)
RejectF(b, f)   == (f # "" \/ ~CanApply(b)) /\ UNCHANGED lvars    \* a raise anywhere: nothing changes
AddBlock(b, now) == AddBlockF(b, FirstFailing(b, now))
Reject(b, now)   == RejectF(b, FirstFailing(b, now))

AddBlockNoValidation(b) == Store(b)

LInit(g) ==      \* CoinState.empty().add_block_no_validation(genesis)
  /\ blocks = (g.id :> g)
  /\ order = << g.id >>
  /\ utxo = (g.id :> ApplyBlock(EmptyU, g).u)
  /\ byHeight = (g.id :> (0 :> g.id))
  /\ tips = {g.id}
  /\ head = g.id

-----------------------------------------------------------------------------
(* P-layer: the properties, stated on the replayed ledger                                       *)
(* `V` = the set of ids that entered through full validation (maintained by the wrapper)        *)

(* C01 for one block b whose parent ledger is pu *)
P_SpendsExist(b, pu)    == \A k \in 1..Len(OtherTxs(b)) : Refs(OtherTxs(b)[k]) \subseteq DOMAIN pu
P_NoDoubleSpend(b)      == NoDup(BlockRefSeq(b))
P_NoSameBlockSpend(b)   == \A r \in Range(BlockRefSeq(b)) : \A k \in 1..Len(b.txs) : r.tx # b.txs[k].id
P_Authorised(b, pu)     == \A k \in 1..Len(OtherTxs(b)) : \A i \in 1..Len(OtherTxs(b)[k].ins) :
                              LET inp == OtherTxs(b)[k].ins[i]
                              IN inp.ref \in DOMAIN pu => (inp.kind = "secp" /\ inp.signer = pu[inp.ref].k)
P_C01(b, pu) == P_SpendsExist(b, pu) /\ P_NoDoubleSpend(b) /\ P_NoSameBlockSpend(b) /\ P_Authorised(b, pu)

(* C02 for one block *)
P_TxValues(b, pu) == \A k \in 1..Len(OtherTxs(b)) :
                        LET t == OtherTxs(b)[k]
                        IN /\ \A i \in 1..Len(t.outs) : InRange(t.outs[i].v)
                           /\ InRange(SumOuts(t))
                           /\ Refs(t) \subseteq DOMAIN pu =>
                                SumOuts(t) <= SumSeq([i \in 1..Len(t.ins) |-> pu[t.ins[i].ref].v], 1)
P_Reward(b, pu) == LET fs == FeeSum(pu, OtherTxs(b), 1)
                   IN fs.ok => SumOuts(b.txs[1]) <= Subsidy(b.height) + fs.f
P_OneReward(b) == /\ Len(b.txs) >= 1 /\ CoinbaseByItself(b.txs[1]) = ""
                  /\ \A k \in 2..Len(b.txs) : \A i \in 1..Len(b.txs[k].ins) : b.txs[k].ins[i].ref # NullRef
P_C02(b, pu) == P_OneReward(b) /\ P_TxValues(b, pu) /\ P_Reward(b, pu)
P_NoInflation(b, pu, u) == Total(u) <= Total(pu) + Subsidy(b.height)

(* C05 for one block, parent record pb, expected target et *)
P_C05(b, pb, et, now) ==
  /\ b.powok
  /\ et.ok /\ b.target = et.t
  /\ b.height = pb.height + 1
  /\ Len(b.txs) >= 1 /\ Len(b.txs[1].ins) >= 1 /\ b.txs[1].ins[1].cbh = b.height
  /\ pb.ts < b.ts /\ b.ts <= now + MaxFuture
  /\ b.evok

(* C18 *)
P_C18(b) == (b.height <= Horizon /\ b.height \in DOMAIN Known) => b.id = Known[b.height]

(* state invariants of the M-spec *)
Inv_C03_Replay == \A id \in DOMAIN blocks : LET r == ReplayUtxo(blocks, id) IN r.ok /\ utxo[id] = r.u
Inv_C04_Head == head = FirstSeenBest(blocks, order)
Inv_C04_Tips == tips = Childless(blocks)
Inv_C04_Index == \A id \in DOMAIN blocks :
                    LET ch == ChainOf(blocks, id)
                    IN /\ DOMAIN byHeight[id] = 0..blocks[id].height
                       /\ \A h \in 0..blocks[id].height : byHeight[id][h] = ch[h + 1]
Inv_C02_Cumulative == \A id \in DOMAIN blocks : Total(utxo[id]) <= CumSubsidy(blocks[id].height)
                                                  /\ Total(utxo[id]) <= MaxMoney
Validated(V) == {id \in V : ~IsRoot(blocks[id])}
Inv_C01(V) == \A id \in Validated(V) : P_C01(blocks[id], utxo[blocks[id].parent])
Inv_C02(V) == \A id \in Validated(V) : /\ P_C02(blocks[id], utxo[blocks[id].parent])
                                        /\ P_NoInflation(blocks[id], utxo[blocks[id].parent], utxo[id])
Inv_C18(V) == \A id \in V : P_C18(blocks[id])

(* action properties *)
Act_C04_HeadOnlyUp == head' # head => blocks'[head'].height > blocks[head].height
Act_C03_Immutable  == \A id \in DOMAIN blocks : /\ id \in DOMAIN blocks' /\ utxo'[id] = utxo[id]
                                                /\ blocks'[id] = blocks[id] /\ byHeight'[id] = byHeight[id]
=============================================================================
