------------------------------ MODULE TraceEcho ------------------------------
(* Two real threads of a real node forced through a schedule from MC_Echo (call-level stop points); the schedule is followed in Echo and *)
(* the outcome observed on the node is judged: the largest number of Data(B) frames any one peer was sent, B in the served state, in the   *)
(* store.                                                                                                                                  *)
EXTENDS Echo, Json, IOUtils, TLC, TLCExt
Traces == JsonDeserialize(IOEnv.TRACE_FILE)
VARIABLES tid, l, done, follows
tv == << served, nb, buffered, stored, miner, echo, tid, l, done, follows >>
Tr == Traces[tid]
O == Tr.out
Emit(c) == PrintT(ToJson(<< "FINDING", Tr.id, l, c >>))
Clauses ==
  (IF O.b_sent_max > 1 THEN {"C10:block_found_by_the_node_is_sent_to_a_peer_more_than_once"} ELSE {})
  \cup (IF O.b_sent_max < 1 THEN {"C12:found_block_not_broadcast"} ELSE {})
  \cup (IF ~O.b_served THEN {"C12:found_block_not_part_of_the_served_chain_state"} ELSE {})
  \cup (IF ~O.b_on_disk THEN {"C12:found_block_not_written_to_store"} ELSE {})
  \cup (IF Tr.errors # << >> THEN {"C12:handling_a_found_block_or_its_echo_raised", "C10:handling_a_found_block_or_its_echo_raised"} ELSE {})
TInit == /\ tid \in 1..Len(Traces) /\ l = 1 /\ done = FALSE /\ follows = TRUE
         /\ served = FALSE /\ nb = 0 /\ buffered = FALSE /\ stored = FALSE /\ miner = "M1" /\ echo = [pc |-> "E1", known |-> FALSE]
TNext ==
  /\ ~done /\ UNCHANGED tid
  /\ IF l > Len(Tr.hist) \/ ~follows
     THEN /\ done' = TRUE /\ UNCHANGED << served, nb, buffered, stored, miner, echo, l, follows >>
          /\ \A c \in Clauses : Emit(c)
          /\ (Clauses = {} /\ Tr.feasible /\ follows /\ (O.b_sent_max # nb \/ O.b_served # served \/ O.b_on_disk # stored) =>
                PrintT(ToJson(<< "DRIFT", Tr.id, l, "outcome of a miner / echo schedule differs from Echo (no property clause involved)" >>)))
          /\ PrintT(ToJson(<< "VERDICT", Tr.id, "ok", l >>))
     ELSE LET e == Tr.hist[l] IN
          IF Tr.feasible /\ ((e.t = "echo" /\ echo.pc = e.a /\ ENABLED EchoStep) \/ (e.t = "miner" /\ miner = e.a /\ ENABLED MinerStep))
          THEN /\ (IF e.t = "echo" THEN EchoStep ELSE MinerStep) /\ l' = l + 1 /\ UNCHANGED << done, follows >>
          ELSE /\ follows' = FALSE /\ UNCHANGED << served, nb, buffered, stored, miner, echo, l, done >>
               /\ (Tr.feasible => PrintT(ToJson(<< "DRIFT", Tr.id, l, "the schedule the code followed is not a behaviour of Echo at " \o e.t \o " " \o e.a >>)))
TSpec == TInit /\ [][TNext]_tv
=============================================================================
