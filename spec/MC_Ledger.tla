----------------------------- MODULE MC_Ledger -----------------------------
(* Bounded instance of Ledger: a structured candidate generator (valid shapes on any stored   *)
(* parent + single mutations), the history variable used to hand behaviours to the replay      *)
(* harness, and the invariants/action properties checked by TLC.                               *)
EXTENDS Ledger, Json

CONSTANTS
  Keys,           \* abstract key ids, e.g. {1, 2}
  Miners,         \* subset of Keys that mine
  MaxBlocks,      \* stored blocks after genesis
  MaxSteps,       \* length of a behaviour (accepted + rejected attempts)
  TsDeltas,       \* timestamp increments tried for a candidate
  TxLevel,        \* 0: reward only; 1: up to one ordinary tx; 2: up to two
  HdrMuts,        \* header mutations tried
  TxMuts,         \* transaction mutations tried
  RewardDeltas,   \* reward = subsidy + fees + d
  UseNoValidation,\* also take AddBlockNoValidation steps
  EmitHist,       \* print every maximal history as JSON (for the replay harness)
  GenesisTarget   \* W bytes

VARIABLES hist,        \* the behaviour so far, as action records (handed to the replay harness)
          validated,   \* id -> clock value of the step in which it passed full validation
          snap         \* the block and ledger maps before the last step (an "earlier snapshot")

NoHorizon == 0 - 1
NoKnown == [h \in {} |-> 0]
Known3 == (0 :> 0) @@ (2 :> 2) @@ (4 :> 4)       \* checkpoints every 2 blocks: ids of the first-arrived chain
Target1 == << 128 >>
RD1 == {0}
RD2 == {0, 1}
RD3 == {0, 1, 0 - 1}

mvars == << blocks, order, utxo, byHeight, tips, head, hist, validated, snap >>

Ghost == [tx |-> 9999, idx |-> 0]
OtherKeyOf(k) == IF \E x \in Keys : x # k THEN CHOOSE x \in Keys : x # k ELSE k

In(r, k, s) == [ref |-> r, kind |-> k, signer |-> s, cbh |-> 0 - 1, small |-> TRUE]
CbIn(h)     == [ref |-> NullRef, kind |-> "cbdata", signer |-> NoKey, cbh |-> h, small |-> TRUE]
Out(v, k)   == [v |-> v, k |-> k]
Tx(id, ins, outs, mut) == [id |-> id, ins |-> ins, outs |-> outs, sizeok |-> TRUE, mut |-> mut]

Genesis == [id |-> 0, parent |-> NoBlock, height |-> 0, ts |-> 10, target |-> GenesisTarget,
            powok |-> TRUE, evok |-> TRUE, merkleok |-> TRUE, sizeok |-> TRUE, mut |-> "", altstart |-> 0 - 1,
            txs |-> << Tx(0, << CbIn(0) >>, << Out(Subsidy(0), CHOOSE k \in Miners : TRUE) >>, "") >>]

NextId == Len(order)               \* rejected candidates do not consume ids
TxId(pos) == NextId * 10 + pos     \* pos 0 = reward transaction

SetToSeqs(S) == {s \in [1..Cardinality(S) -> S] : \A i, j \in 1..Cardinality(S) : i # j => s[i] # s[j]}
OrderedPick(S) ==     \* one canonical ordering of S as a sequence
  CHOOSE s \in SetToSeqs(S) : TRUE

(* valid ordinary-transaction shapes on ledger u: every single unspent output (TxLevel >= 2: every pair *)
(* too) spent to each key / leaving a fee / split with change                                         *)
Shapes(u, S, pos) ==
  LET rs  == OrderedPick(S)
      tot == SumVals(u, S)
      own == u[rs[1]].k
      ins == [i \in 1..Len(rs) |-> In(rs[i], "secp", u[rs[i]].k)]
  IN { Tx(TxId(pos), ins, << Out(tot, d) >>, "") : d \in Keys }
       \cup (IF tot >= 2 THEN { Tx(TxId(pos), ins, << Out(tot - 1, own) >>, ""),
                                Tx(TxId(pos), ins, << Out(1, OtherKeyOf(own)), Out(tot - 1, own) >>, "") }
             ELSE {})
RefSets(u) == { {r} : r \in DOMAIN u }
              \cup (IF TxLevel >= 2 THEN { S \in SUBSET (DOMAIN u) : Cardinality(S) = 2 }
                    ELSE IF Cardinality(DOMAIN u) >= 2
                         THEN { CHOOSE S \in SUBSET (DOMAIN u) : Cardinality(S) = 2 } ELSE {})
ValidTxs(u, pos) == UNION { Shapes(u, S, pos) : S \in RefSets(u) }
(* the one valid transaction that mutations are applied to: spends one output entirely to its owner *)
CanonTx(u, pos, avoid) ==
  LET cands == (DOMAIN u) \ avoid
      r == CHOOSE x \in cands : TRUE
  IN Tx(TxId(pos), << In(r, "secp", u[r].k) >>, << Out(u[r].v, u[r].k) >>, "")

OtherKey(k) == OtherKeyOf(k)

SpentOnChain(p) ==    \* references created on p's chain that are no longer unspent at p
  LET ch == ChainOf(blocks, p)
      created == UNION { UNION { NewRefs(blocks[ch[i]].txs[k]) : k \in 1..Len(blocks[ch[i]].txs) } : i \in 1..Len(ch) }
  IN created \ DOMAIN utxo[p]
OtherFork(p) == (UNION { DOMAIN utxo[q] : q \in DOMAIN blocks }) \ (DOMAIN utxo[p] \cup SpentOnChain(p))

MutateTx(t, m, p) ==     \* set of mutated variants (possibly empty) of a valid transaction t
  LET u == utxo[p]
      first == t.ins[1]
      setFirst(inp, name) == {[t EXCEPT !.ins = [t.ins EXCEPT ![1] = inp], !.mut = name]}
  IN CASE m = "ghost"       -> setFirst(In(Ghost, "secp", NoKey), m)
       [] m = "spent"       -> UNION { setFirst(In(r, "secp", NoKey), m) : r \in SpentOnChain(p) }
       [] m = "otherfork"   -> UNION { setFirst(In(r, "secp", NoKey), m) : r \in OtherFork(p) }
       [] m = "nullref"     -> setFirst(In(NullRef, "secp", NoKey), m)
       [] m = "sameblock"   -> setFirst(In([tx |-> TxId(0), idx |-> 0], "secp", NoKey), m)
       [] m = "dupin"       -> {[t EXCEPT !.ins = Append(t.ins, first), !.mut = m]}
       [] m = "wrongkey"    -> setFirst(In(first.ref, "secp", OtherKey(first.signer)), m)
       [] m = "sig_outs"    -> setFirst(In(first.ref, "secp", NoKey), m)    \* outputs changed after signing
       [] m = "sig_refs"    -> setFirst(In(first.ref, "secp", NoKey), m)    \* references changed after signing
       [] m = "sig_garbage" -> setFirst(In(first.ref, "secp", NoKey), m)
       [] m = "blank"       -> setFirst(In(first.ref, "blank", NoKey), m)
       [] m = "cbdata"      -> setFirst([In(first.ref, "cbdata", NoKey) EXCEPT !.cbh = 0], m)
       [] m = "overspend"   -> {[t EXCEPT !.outs[1].v = @ + 1, !.mut = m]}
       [] m = "zeroout"     -> {[t EXCEPT !.outs = Append(@, Out(0, t.outs[1].k)), !.mut = m]}
       [] m = "overmax"     -> {[t EXCEPT !.outs[1].v = MaxMoney + 1, !.mut = m]}
       [] m = "noouts"      -> {[t EXCEPT !.outs = << >>, !.mut = m]}
       [] m = "noins"       -> {[t EXCEPT !.ins = << >>, !.mut = m]}
       [] OTHER             -> {}

TxListsOf(p) ==   \* candidate lists of ordinary transactions on parent p (each element: a sequence)
  LET u  == utxo[p]
      v1 == IF TxLevel >= 1 THEN ValidTxs(u, 1) ELSE {}
      c1 == CanonTx(u, 1, {})
      c2 == CanonTx(u, 2, Refs(c1))
      has2 == Cardinality(DOMAIN u) >= 2
      single == { << a >> : a \in v1 }
      pairs == IF TxLevel >= 1 /\ has2 THEN { << c1, c2 >> } ELSE {}
      muts  == IF TxLevel >= 1 THEN UNION { { << x >> : x \in MutateTx(c1, m, p) } : m \in TxMuts } ELSE {}
      blockmuts == IF TxLevel >= 1 THEN
           (IF "duptx" \in TxMuts THEN { << c1, [c1 EXCEPT !.mut = "duptx"] >> } ELSE {})
        \cup (IF "dupref2" \in TxMuts
              THEN { << c1, [c1 EXCEPT !.id = TxId(2), !.outs = << Out(c1.outs[1].v, OtherKeyOf(c1.outs[1].k)) >>, !.mut = "dupref2"] >> }
              ELSE {})
        \cup (IF "mut_second" \in TxMuts /\ has2
              THEN UNION { { << c1, x >> : x \in MutateTx(c2, m, p) } : m \in {"ghost", "wrongkey", "overspend"} }
              ELSE {})
        ELSE {}
  IN [valid |-> { << >> } \cup single \cup pairs, mut |-> muts \cup blockmuts]
TxLists(p) == TxListsOf(p).valid \cup TxListsOf(p).mut

Fees(u, txs) == SumSeq([i \in 1..Len(txs) |->
                          IF Refs(txs[i]) \subseteq DOMAIN u
                          THEN SumSeq([k \in 1..Len(txs[i].ins) |-> u[txs[i].ins[k].ref].v], 1) - SumOuts(txs[i])
                          ELSE 0], 1)

BaseBlock(p, dts, miner, txs, rd) ==
  LET h  == blocks[p].height + 1
      ts == blocks[p].ts + dts
      et == ExpectedTarget(blocks, byHeight, p, ts)
      rw == Subsidy(h) + Fees(utxo[p], txs) + rd
  IN [id |-> NextId, parent |-> p, height |-> h, ts |-> ts,
      target |-> IF et.ok THEN et.t ELSE blocks[p].target,
      powok |-> TRUE, evok |-> TRUE, merkleok |-> TRUE, sizeok |-> TRUE, mut |-> "", altstart |-> 0 - 1,
      txs |-> << Tx(TxId(0), << CbIn(h) >>, IF rw > 0 THEN << Out(rw, miner) >> ELSE << >>, "") >> \o txs]

MutateHdr(b, m) ==
  CASE m = "badpow"      -> [b EXCEPT !.powok = FALSE, !.mut = m]
    [] m = "badtarget"   -> [b EXCEPT !.target = [b.target EXCEPT ![W] = (@ + 1) % 256], !.mut = m]
    [] m = "target_otherchain" ->     \* the retarget computed from the period-start block of *another* branch
         LET h == b.height
             others == { q \in DOMAIN blocks : (h - Period) \in DOMAIN byHeight[q] /\ (h - Period) \in DOMAIN byHeight[b.parent]
                                                /\ byHeight[q][h - Period] # byHeight[b.parent][h - Period] }
         IN IF h % Period = 0 /\ others # {}
            THEN LET q == CHOOSE x \in others : TRUE
                     st == byHeight[q][h - Period]
                     el == b.ts - blocks[st].ts
                 IN IF el >= 0 THEN [b EXCEPT !.target = ScaleCapped(blocks[b.parent].target, Nat4(el), Timespan, W), !.mut = m, !.altstart = st]
                    ELSE b
            ELSE b
    [] m = "ts_equal"    -> [b EXCEPT !.ts = blocks[b.parent].ts, !.mut = m]
    [] m = "ts_before"   -> [b EXCEPT !.ts = blocks[b.parent].ts - 1, !.mut = m]
    [] m = "height_plus" -> [b EXCEPT !.height = @ + 1, !.txs[1].ins[1].cbh = @ + 1, !.mut = m]
    [] m = "cb_height"   -> [b EXCEPT !.txs[1].ins[1].cbh = @ + 1, !.mut = m]
    [] m = "evidence"    -> [b EXCEPT !.evok = FALSE, !.mut = m]
    [] m = "merkle"      -> [b EXCEPT !.merkleok = FALSE, !.mut = m]
    [] m = "orphan"      -> [b EXCEPT !.parent = 7777, !.mut = m]
    [] m = "no_reward"   -> [b EXCEPT !.txs = Tail(@), !.mut = m]
    [] m = "two_rewards" -> [b EXCEPT !.txs = << b.txs[1] >> \o << [b.txs[1] EXCEPT !.id = @ + 9] >> \o Tail(@), !.mut = m]
    [] m = "cb_blank"    -> [b EXCEPT !.txs[1].ins[1].kind = "blank", !.mut = m]
    [] m = "cb_realref"  -> [b EXCEPT !.txs[1].ins[1].ref = Ghost, !.mut = m]
    [] m = "cb_bigdata"  -> [b EXCEPT !.txs[1].ins[1].small = FALSE, !.mut = m]
    [] OTHER             -> b

Cands ==
  UNION { UNION { UNION { UNION {
      {BaseBlock(p, d, mi, txs, rd) : rd \in RewardDeltas}
        \cup (IF txs = << >> THEN {MutateHdr(BaseBlock(p, d, mi, txs, 0), m) : m \in HdrMuts} ELSE {})
    : txs \in TxLists(p) } : mi \in Miners } : d \in TsDeltas } : p \in DOMAIN blocks }

Nows(b) == {b.ts} \cup (IF "future" \in HdrMuts THEN {b.ts - MaxFuture - 1, b.ts - MaxFuture} ELSE {})

Rec(a, b, now, res, f) == [act |-> a, blk |-> b, now |-> now, res |-> res, rule |-> f]

Init == /\ LInit(Genesis) /\ hist = << >> /\ validated = [i \in {} |-> 0] /\ snap = << >>

Step(b, now, f) ==
  \/ /\ Len(order) <= MaxBlocks
     /\ AddBlockF(b, f)
     /\ hist' = Append(hist, Rec("add", b, now, "ok", f))
     /\ validated' = (b.id :> now) @@ validated
     /\ snap' = << blocks, utxo >>
  \/ /\ RejectF(b, f)
     /\ hist' = Append(hist, Rec("add", b, now, "rej", f))
     /\ UNCHANGED << validated, snap >>
DoStep == \E b \in Cands : \E now \in Nows(b) : Step(b, now, FirstFailing(b, now))
DoAdd == \E b \in Cands : \E now \in Nows(b) :
           LET f == FirstFailing(b, now) IN f = "" /\ Step(b, now, f)
DoReject == \E b \in Cands : \E now \in Nows(b) :
           LET f == FirstFailing(b, now) IN (f # "" \/ ~CanApply(b)) /\ Step(b, now, f)
DoAddNV == \E b \in Cands :
           /\ UseNoValidation /\ Len(order) <= MaxBlocks
           /\ b.mut = "" /\ AddBlockNoValidation(b)
           /\ hist' = Append(hist, Rec("addnv", b, b.ts, "ok", ""))
           /\ UNCHANGED << validated >>
           /\ snap' = << blocks, utxo >>

(* exhaustive checking: one evaluation of the rule cascade per candidate *)
Next == \/ (Len(hist) < MaxSteps /\ DoStep)
        \/ (Len(hist) < MaxSteps /\ DoAddNV)
(* simulation: accept / reject / no-validation are separate actions, so that TLC's simulator     *)
(* (which first picks an action) does not drown accepted blocks in rejected candidates            *)
NextSim == \/ (Len(hist) < MaxSteps /\ DoAdd)
           \/ (Len(hist) < MaxSteps /\ DoReject)
           \/ (Len(hist) < MaxSteps /\ DoAddNV)
(* generation of behaviours for the replay harness: one random candidate per step (TLC -simulate), *)
(* drawn hierarchically so that only the chosen candidate is evaluated                               *)
GenCand ==       \* two out of three candidates are fully valid, so that chains grow
  LET p   == RandomElement(DOMAIN blocks)
      d   == RandomElement(TsDeltas)
      mi  == RandomElement(Miners)
      tl  == TxListsOf(p)
      wantValid == RandomElement(1..3) <= 2
      txsV == RandomElement(tl.valid)
      txsM == IF tl.mut = {} THEN << >> ELSE RandomElement(tl.mut)
      bad == {BaseBlock(p, d, mi, txsM, 0)}
               \cup {BaseBlock(p, d, mi, txsV, rd) : rd \in RewardDeltas \ {0}}
               \cup {MutateHdr(BaseBlock(p, d, mi, << >>, 0), m) : m \in HdrMuts}
  IN IF wantValid THEN BaseBlock(p, d, mi, txsV, 0) ELSE RandomElement(bad)
NextGen == /\ Len(hist) < MaxSteps /\ Len(order) <= MaxBlocks
           /\ \E b \in {GenCand} : \E now \in {RandomElement(Nows(b))} : \E f \in {FirstFailing(b, now)} :
                 \/ Step(b, now, f)
                 \/ (UseNoValidation /\ b.mut = "" /\ Len(order) <= MaxBlocks /\ AddBlockNoValidation(b)
                       /\ hist' = Append(hist, Rec("addnv", b, b.ts, "ok", "")) /\ UNCHANGED validated
                       /\ snap' = << blocks, utxo >>)
SpecGen == Init /\ [][NextGen]_mvars
Spec == Init /\ [][Next]_mvars
SpecSim == Init /\ [][NextSim]_mvars

(* invariants: one line each in the cfg *)
VSet == DOMAIN validated
I_C01 == Inv_C01(VSet)
I_C02 == Inv_C02(VSet)
I_C02_Cumulative == Inv_C02_Cumulative
I_C03_Replay == Inv_C03_Replay
I_C04_Head == Inv_C04_Head
I_C04_Tips == Inv_C04_Tips
I_C04_Index == Inv_C04_Index
I_C18 == Inv_C18(VSet)
I_C05 == \A id \in Validated(VSet) :
            LET b == blocks[id]
            IN P_C05(b, blocks[b.parent], ExpectedTarget(blocks, byHeight, b.parent, b.ts), validated[id])
(* C06 under the ideal-hash assumption: whatever part of a stored, fully valid block is altered, some rule fails.   *)
(*  - any bit of the summary or of the evidence: the header id changes (and may or may not still be below target),  *)
(*    and the evidence no longer equals the recomputed one (summary hash / direct comparison);                      *)
(*  - any bit of a transaction: the id of the *header* is unchanged, the merkle root and the evidence hash differ.   *)
Tampers(b) == { [b EXCEPT !.id = 9000 + b.id, !.powok = pw, !.evok = FALSE] : pw \in BOOLEAN }
                \cup { [b EXCEPT !.merkleok = FALSE, !.evok = FALSE] }
I_C06_TamperRejected == \A id \in VSet : ~IsRoot(blocks[id]) =>
                           \A t \in Tampers(blocks[id]) : FirstFailing(t, validated[id]) # ""
I_C03_Snapshot == snap = << >> \/ (\A id \in DOMAIN snap[1] : blocks[id] = snap[1][id] /\ utxo[id] = snap[2][id])
A_C04_HeadOnlyUp == [][Act_C04_HeadOnlyUp]_mvars
A_C03_Immutable == [][Act_C03_Immutable]_mvars

Done == Len(hist) = MaxSteps \/ Len(order) > MaxBlocks
View == << blocks, order, utxo, byHeight, tips, head, validated, snap >>     \* hides hist
Emit == (EmitHist /\ Done) => PrintT(ToJson(<< "HIST", hist >>))
=============================================================================
