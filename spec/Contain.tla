------------------------------ MODULE Contain ------------------------------
(* Containment of malformed input (local_peer.py:87-120 catch-all, remote_peer.py:264-292 dispatch):  *)
(* one node, several connections; an input of a given class on connection p either is ignored or      *)
(* closes p -- never anything else.  The class table is the M-layer (what this version does for each   *)
(* class); the P-layer (C20) is the same for every class.                                              *)
EXTENDS Naturals, Sequences, FiniteSets, TLC

CONSTANTS Conns

Closes == {"bad_magic", "oversize_length", "zero_length", "undecodable_header", "undecodable_payload", "unknown_message_type",
           "unknown_data_type", "header_only_data", "non_greeting_first", "oversize_inventory", "getdata_transaction_type",
           "block_that_cannot_be_applied", "transaction_amount_out_of_range", "trailing_garbage_frame"}
Ignored == {"truncated_frame", "getdata_unknown_hash", "peers_with_unusable_addresses", "block_invalid_by_itself", "orphan_block",
            "block_invalid_in_state", "transaction_invalid", "repeated_greeting", "duplicate_block", "empty_inventory", "get_peers",
            \* a block that fails a rule in state sent as the answer to a request (bulk download: taken unvalidated), then a relayed block
            \* that is validated and rejected: the roll-back to the last validated state removes both (one input of two frames)
            "invalid_block_in_bulk_then_a_rejected_block"}
Either == {"random_bytes", "bit_flipped_frame", "spliced_frames", "truncated_then_valid",
           \* a well-formed block frame whose height field (a variable-length quantity without an upper bound) holds a number of thousands of digits
           "astronomic_number_in_a_field"}
Valid == {"valid_block", "valid_transaction"}
Classes == Closes \cup Ignored \cup Either \cup Valid

VARIABLES open,      \* connections still registered and open
          state,     \* abstract chain state + pool + store rows (a counter: changes only with valid traffic)
          alive      \* the event loop is running and no exception escaped
cvars == << open, state, alive >>

Input(p, c) ==
  /\ p \in open /\ c \in Classes
  /\ open' = IF c \in Closes THEN open \ {p} ELSE IF c \in Either THEN open \ {p} ELSE open     \* (Either: resolved below)
  /\ state' = IF c \in Valid /\ state < 2 THEN state + 1 ELSE state        \* saturating: the model only needs "changed / not changed"
  /\ UNCHANGED alive
InputEither(p, c, closes) ==
  /\ p \in open /\ c \in Either
  /\ open' = IF closes THEN open \ {p} ELSE open
  /\ UNCHANGED << state, alive >>
CInit == open = Conns /\ state = 0 /\ alive = TRUE
CNext == \E p \in Conns : (\E c \in Classes \ Either : Input(p, c)) \/ (\E c \in Either : \E b \in BOOLEAN : InputEither(p, c, b))
CSpec == CInit /\ [][CNext]_cvars

(* C20 as an action property of the model *)
A_C20 == [][\A p \in Conns : (p \in open /\ p \notin open') =>
               /\ \A q \in Conns \ {p} : (q \in open) = (q \in open')          \* at most the offending connection is closed
               /\ alive']_cvars
A_C20_StateOnlyByValidTraffic == [][state' # state => alive]_cvars
I_Alive == alive
=============================================================================
