--------------------------- MODULE TraceHandover ---------------------------
(* Two real threads of a real node forced through a line-level schedule from MC_Handover; the schedule is followed in Handover and   *)
(* the outcome observed on the node (store read back through a fresh connection, served chain state, frames written to the peers)   *)
(* is judged.  P: C09 -- a rejected relay block is neither in the store nor in the served state, an accepted one is in the store;    *)
(* C12 -- the found block is in the store and was broadcast.  A P violation that Handover predicts for this very schedule carries    *)
(* the name of the mechanism (these are the signatures of the recorded findings); one that it does not predict is reported as such.  *)
EXTENDS Handover, Json, IOUtils, TLC, TLCExt
Traces == JsonDeserialize(IOEnv.TRACE_FILE)
VARIABLES tid, l, done, follows
tv == << served, lastValid, buffer, disk, bcast, net, miner, sqlerr, tid, l, done, follows >>
Tr == Traces[tid]
Emit(c) == PrintT(ToJson(<< "FINDING", Tr.id, l, c >>))
O == Tr.out
ModelOut == [x_on_disk |-> X \in disk, b_on_disk |-> B \in disk, x_served |-> X \in served, b_served |-> B \in served, b_bcast |-> B \in bcast]
Agrees == follows /\ \A k \in DOMAIN ModelOut : ModelOut[k] = O[k]
Clauses ==
  (IF Rejected /\ O.x_on_disk THEN {IF follows /\ ModelOut.x_on_disk THEN "C09:rejected_block_written_to_the_store_by_a_concurrent_flush_of_the_miner_thread"
                                    ELSE "C09:rejected_block_in_the_store"} ELSE {})
  \cup (IF Rejected /\ O.x_served THEN {"C09:rejected_block_in_chain_state"} ELSE {})
  \cup (IF Rejected /\ MinerOn /\ follows /\ net.pc = "done" /\ net.quiet /\ ~O.b_served
        THEN {"C09:chain_state_held_before_a_rejected_block_is_not_left_as_it_was"} ELSE {})
  \cup (IF XValidated /\ XValid /\ ~O.x_on_disk THEN {"C09:accepted_block_not_written_to_the_store"} ELSE {})
  \* the miner took its snapshot after the delivered block had been published (its found block is a child of X): X was the new head when it was
  \* accepted, whatever has been published on top of it since -- it is relayed
  \cup (IF XValidated /\ XValid /\ MinerOn /\ follows /\ net.pc = "done" /\ X \in miner.snap /\ ~O.x_bcast
        THEN {"C09:accepted_block_that_was_the_new_head_is_not_relayed"} ELSE {})
  \cup (IF MinerOn /\ ~O.b_on_disk THEN {IF follows /\ ~ModelOut.b_on_disk THEN "C12:found_block_dropped_from_the_write_buffer_by_a_concurrent_rejection"
                                         ELSE "C12:found_block_not_written_to_store"} ELSE {})
  \cup (IF MinerOn /\ ~O.b_bcast THEN {"C12:found_block_not_broadcast"} ELSE {})
  \cup (IF Tr.errors # << >> THEN {"C12:handling_a_found_block_or_a_delivery_raised_under_a_two_thread_schedule"} ELSE {})
TInit == /\ tid \in 1..Len(Traces) /\ l = 1 /\ done = FALSE /\ follows = TRUE
         /\ served = {G} /\ lastValid = {G} /\ buffer = << >> /\ disk = {G} /\ bcast = {} /\ sqlerr = FALSE
         /\ net = [pc |-> "N1", prior |-> {}, changed |-> {}, tmp |-> {}, quiet |-> FALSE] /\ miner = [pc |-> IF MinerOn THEN "M1" ELSE "done", snap |-> {}]
TNext ==
  /\ ~done /\ UNCHANGED tid
  /\ IF l > Len(Tr.hist) \/ ~follows
     THEN /\ done' = TRUE /\ UNCHANGED << served, lastValid, buffer, disk, bcast, net, miner, sqlerr, l, follows >>
          /\ \A c \in Clauses : Emit(c)
          /\ (Clauses = {} /\ Tr.feasible /\ ~Agrees =>
                PrintT(ToJson(<< "DRIFT", Tr.id, l, "outcome of a two-thread schedule differs from Handover (no property clause involved)" >>)))
          /\ PrintT(ToJson(<< "VERDICT", Tr.id, "ok", l >>))
     ELSE LET e == Tr.hist[l] IN
          IF Tr.feasible /\ ((e.t = "net" /\ net.pc = e.a /\ ENABLED NetStep) \/ (e.t = "miner" /\ miner.pc = e.a /\ ENABLED MinerStep))
          THEN /\ (IF e.t = "net" THEN NetStep ELSE MinerStep) /\ l' = l + 1 /\ UNCHANGED << done, follows >>
               /\ (e.a = "N8" => ((X \in bcast') = O.x_bcast))
          ELSE /\ follows' = FALSE /\ UNCHANGED << served, lastValid, buffer, disk, bcast, net, miner, sqlerr, l, done >>
               /\ (Tr.feasible => PrintT(ToJson(<< "DRIFT", Tr.id, l, "the schedule the code followed is not a behaviour of Handover at " \o e.t \o " " \o e.a >>)))
TSpec == TInit /\ [][TNext]_tv
=============================================================================
