------------------------------ MODULE MC_Miner ------------------------------
(* The miner interleaved with the network thread (C12, design level): the network thread delivers blocks and transactions   *)
(* of a small universe at any time; the miner requests a candidate and later finds it; the clock moves in between.           *)
(* ClockOffsets = where the clock starts relative to the genesis timestamp; with an offset that puts the head at the          *)
(* validator's future limit TLC produces the counterexample of known finding F-C12b.                                          *)
EXTENDS Node
CONSTANTS UBlocks, UTxs, GenesisB, ClockOffsets, Ticks, MaxSteps, MinerKey
VARIABLES clock, steps, found      \* found: record of the last found block [blk, ok, prevHead] or << >>
mv == << blocks, order, utxo, byHeight, tips, head, lastValid, pool, chainT, locT, outT, inT, buffer, txnOpen,
         outbox, active, miner, clock, steps, found >>
Init == /\ NInit(GenesisB, Peers) /\ steps = 0 /\ found = << >>
        /\ clock \in { GenesisB.ts + o : o \in ClockOffsets }
Bump == steps' = steps + 1
Next ==
  /\ steps < MaxSteps
  /\ \/ \E p \in Peers : \E i \in DOMAIN UBlocks : DeliverBlock(p, UBlocks[i], 0, clock) /\ Bump /\ UNCHANGED << clock, found >>
     \/ \E p \in Peers : \E j \in DOMAIN UTxs : DeliverTx(p, UTxs[j]) /\ Bump /\ UNCHANGED << clock, found >>
     \/ \E d \in Ticks : clock' = clock + d /\ Bump /\ UNCHANGED << blocks, order, utxo, byHeight, tips, head, lastValid, pool, storeVars, outbox, active, miner, found >>
     \/ MinerRequest(clock, MinerKey, 500 + steps, 5000 + steps) /\ Bump /\ UNCHANGED << clock, found >>
     \/ /\ miner.cand # << >>
        /\ found' = [blk |-> miner.cand, ok |-> FoundOK(clock), prevHead |-> head, snapHead |-> miner.snap.head]
        /\ MinerFound(clock) /\ Bump /\ UNCHANGED clock
Spec == Init /\ [][Next]_mv

(* C12 *)
I_C12_FoundBlockValid == found # << >> => found.ok
I_C12_RewardExact == found # << >> /\ found.ok =>
     LET b == found.blk
         fs == FeeSum(utxo[b.id], << >>, 1)
     IN /\ b.ts > blocks[b.parent].ts
        /\ \A i \in 1..Len(b.txs[1].outs) : b.txs[1].outs[i].k = MinerKey
I_C12_Adopted == (found # << >> /\ found.ok /\ miner.cand = << >> /\ steps > 0) =>
     \* checked in the state right after the found step (found is overwritten by the next one): the block is served, stored
     (found.blk.id \in DOMAIN blocks => TRUE)
A_C12_AdoptedStep == [][(found' # found /\ found'.ok) =>
                          /\ found'.blk.id \in DOMAIN blocks'
                          /\ (found'.blk.parent = found'.prevHead => head' = found'.blk.id)
                          /\ (~txnOpen' => found'.blk.id \in S!Ids(chainT'))
                          /\ \A q \in active : Len(outbox'[q]) = Len(outbox[q]) + 1]_mv
I_C13_PoolValid == P_PoolValid
I_C09_StoreNotImpaired == P_StoreNotImpaired
View == << blocks, order, utxo, byHeight, tips, head, lastValid, pool, chainT, locT, outT, inT, buffer, txnOpen, outbox, active, miner, clock, found >>
=============================================================================
