----------------------------- MODULE TraceFacts -----------------------------
(* Facts the harness establishes by independent recomputation on structures too large to interpret in TLC (a ledger replayed over a chain  *)
(* of more than a thousand blocks): each event names the clause it would violate and says whether it held.                                   *)
EXTENDS Naturals, Sequences, Json, IOUtils, TLC, TLCExt
Events == JsonDeserialize(IOEnv.TRACE_FILE)      \* Seq([clause, holds, what])
VARIABLES l
TInit == l = 1
TNext == /\ l <= Len(Events) /\ l' = l + 1
         /\ (~Events[l].holds => PrintT(ToJson(<< "FINDING", l, Events[l].clause >>)))
         /\ (l + 1 > Len(Events) => PrintT(ToJson(<< "VERDICT", 1, "ok", l >>)))
TSpec == TInit /\ [][TNext]_l
=============================================================================
